#!/bin/sh
# usage: seed_prompt.sh Cxx  -- prints the task text for a fresh mutation agent (property text only)
id=$1
wt=/tmp/seed_$id
out=/tmp/seed_${id}_out
python3 - "$id" "$wt" "$out" <<'P'
import json, sys
pid, wt, out = sys.argv[1:4]
p = [json.loads(l) for l in open('/verif/properties.jsonl') if json.loads(l)['id'] == pid][0]
print(f"""You are helping to evaluate a verification effort for the Python workflow engine insitro/redun.
Your own scratch git worktree of the repository is at {wt} (a checkout of the current code; work ONLY
there — never touch /repo or /verif, and do not read anything under /verif). Python: /venv/bin/python with
PYTHONPATH={wt} (run things from a temp directory, redun writes .redun/ into the cwd).

Here is a semantic property that the code is supposed to satisfy:

  {pid} — {p['title']}
  {p['statement']}
  (Quantifier: {p['quantifier']['text']})

Task: craft ONE realistic change to the source under {wt}/redun (a plausible refactoring slip, an
"optimisation", an off-by-one, a dropped guard, a reordered step — something a maintainer might merge)
that BREAKS this property while
  * the code still imports and the existing test suite still passes
    (at least run the directly related test files: cd {wt} && /venv/bin/python -m pytest -q -p no:cacheprovider redun/tests/<relevant files>;
     a handful of tests in the suite need network and fail anyway — ignore failures that also happen without your change), and
  * the breakage needs something SPECIFIC to manifest: a particular interleaving or completion order, a
    crash/fault at a particular point, a multi-step sequence of operations, an unusual input, or two
    cooperating sites that each look fine alone. Do NOT make a change that ordinary use exposes at once.
Then write a demonstration (a small standalone Python program or pytest test) that FAILS with your change
and PASSES on the unchanged code (verify both; do NOT use `git stash`, it is shared between worktrees: save `git -C {wt} diff > {out}/patch.diff`, `git -C {wt} checkout -- .`, run, then `git -C {wt} apply {out}/patch.diff`).

Deliver in {out}/ (create it):
  patch.diff   — `git -C {wt} diff` of your change (only the change, not the demo)
  demo.py      — the demonstration; run as `cd <tmpdir> && PYTHONPATH=<repo> /venv/bin/python demo.py`, exit code 1 when the property is broken, 0 otherwise
  notes.md     — what the change is, why it breaks the property, what it needs in order to manifest, which test files you ran and their result
Leave the worktree with the change applied. Finish with a 10-line summary.""")
P
