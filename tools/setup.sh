#!/bin/sh
# Build the static Coq development (offline). Run once after a fresh restore.
set -e
cd "$(dirname "$0")/.."
mkdir -p coq/Gen coq/Cases replays evidence
sh tools/gen_coqproject.sh
cd coq
timeout 3000 make -j"$(nproc)" 2>&1 | tail -5
echo "setup done"
