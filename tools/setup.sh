#!/bin/sh
# Build the static Coq development (offline). Run once after a fresh restore.
set -e
cd "$(dirname "$0")/.."
mkdir -p coq/Gen coq/Cases replays evidence
sh tools/gen_coqproject.sh
cd coq
# -k: a file that fails does not stop the others (each check rebuilds what it needs and reports);
# every single coqc is bounded.
timeout 3000 make -k -j"$(nproc)" COQC="timeout 900 coqc" 2>&1 | tail -5 || true
echo "setup done"
