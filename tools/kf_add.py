#!/usr/bin/env python3
"""Add (or replace) one entry of /verif/known_findings.json under a file lock.
usage: kf_add.py PROPERTY KEY "what fails (one line)" [--fixed COMMIT]
Never called by a check at run time."""
import fcntl, json, sys
from pathlib import Path
p = Path(__file__).resolve().parents[1] / "known_findings.json"
prop, key, what = sys.argv[1:4]
with open(str(p) + ".lock", "w") as lf:
    fcntl.flock(lf, fcntl.LOCK_EX)
    d = json.loads(p.read_text()) if p.exists() else {"findings": [], "fixed": []}
    if "--fixed" in sys.argv:
        commit = sys.argv[sys.argv.index("--fixed") + 1]
        d["findings"] = [f for f in d["findings"] if not (f["property"] == prop and f["key"] == key)]
        d["fixed"].append(f"fixed: property={prop} {commit} {what}")
    else:
        d["findings"] = [f for f in d["findings"] if not (f["property"] == prop and f["key"] == key)]
        d["findings"].append({"property": prop, "key": key, "what": what})
    p.write_text(json.dumps(d, indent=1) + "\n")
