#!/bin/sh
# usage: goals.sh File.v LINE  -- show the proof state after LINE lines of File.v
f="$1"; n="$2"
tmp=$(mktemp /root/scratch/goalsXXXX.v)
head -n "$n" "$f" > "$tmp"
echo "Show. " >> "$tmp"
cd /verif/coq && timeout 120 coqtop -R . RV -batch -l "$tmp" 2>&1 | tail -${3:-40}
rm -f "$tmp"
