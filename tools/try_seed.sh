#!/bin/sh
# usage: try_seed.sh NAME SRC_DIR CHECK...   (NAME e.g. C34a; SRC_DIR has patch.diff demo.py notes.md)
# 1. demo must pass on /repo HEAD and fail with the patch; 2. run the given checks with the patch applied;
# 3. undo; copy into /verif/seeded/NAME and write meta.json. Never commits to /repo.
name=$1; src=$2; shift 2
# The patch is applied to a scratch worktree of /repo's HEAD (VERIF_REPO points the checks at it): builder agents
# may be running their own checks against /repo at the same time and must not see a seeded change.
test -z "$(git -C /repo status --porcelain --untracked-files=no)" || { echo "/repo not clean"; exit 2; }
tmp=$(mktemp -d /root/scratch/seedrun.XXXX)
wt=$tmp/wt
git -C /repo worktree add --detach $wt HEAD -q || exit 2
run_demo() { (cd $tmp && PYTHONPATH=$2 timeout 600 /venv/bin/python $src/demo.py >$tmp/demo_$1.out 2>&1; echo $?); }
clean=$(run_demo clean /repo)
git -C $wt apply --check $src/patch.diff || { echo "patch does not apply"; git -C /repo worktree remove --force $wt; rm -rf $tmp; exit 2; }
git -C $wt apply $src/patch.diff
mut=$(run_demo mutated $wt)
results=""
for c in "$@"; do
  cp /verif/evidence/$c.json $tmp/evidence_$c.json 2>/dev/null   # evidence must describe the unchanged tree: restored below
  out=$(cd /verif && VERIF_REPO=$wt VERIF_SEED=${VERIF_SEED:-3} ./check $c --quick 2>&1 | grep -v '^\[redun\]\|^Task was destroyed\|^task: <Task' | tail -3)
  rc=$(echo "$out" | grep -c '^VIOLATION')
  results="$results {\"check\": \"$c\", \"violation_reported\": $rc, \"tail\": $(python3 -c 'import json,sys; print(json.dumps(sys.argv[1][-600:]))' "$out")},"
  echo "--- $c with seed $name applied:"; echo "$out"
  cp /verif/replays/${c}_quick_${VERIF_SEED:-3}.json $tmp/replay_$c.json 2>/dev/null
  cp /verif/replays/evidence_other_tree/$c.json $tmp/evidence_seeded_$c.json 2>/dev/null
  [ -f $tmp/evidence_$c.json ] && cp $tmp/evidence_$c.json /verif/evidence/$c.json
done
git -C /repo worktree remove --force $wt
mkdir -p /verif/seeded/$name
cp $src/patch.diff $src/demo.py /verif/seeded/$name/; cp $src/notes.md /verif/seeded/$name/notes.md 2>/dev/null
for f in $tmp/replay_*.json $tmp/evidence_seeded_*.json; do [ -f "$f" ] && cp $f /verif/seeded/$name/; done
python3 - "$name" "$clean" "$mut" "[${results%,}]" <<'P'
import json, sys
name, clean, mut, results = sys.argv[1:5]
meta = {"seed": name, "property": name[:3], "demo_exit_on_unchanged": int(clean), "demo_exit_with_patch": int(mut),
        "confirmed": int(clean) == 0 and int(mut) != 0, "checks_run_with_patch": json.loads(results),
        "needs_to_manifest": "see notes.md", "what_was_run": "tools/try_seed.sh: demo on /repo HEAD and on a scratch worktree of /repo HEAD with the patch applied; listed checks (quick) run with VERIF_REPO pointing at that patched worktree; worktree removed afterwards"}
json.dump(meta, open(f"/verif/seeded/{name}/meta.json", "w"), indent=1)
print("demo clean/mutated exit:", clean, mut)
P
rm -rf $tmp
