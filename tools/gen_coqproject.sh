#!/bin/sh
# Regenerate coq/_CoqProject and coq/Makefile for the *static* part of the
# development (Base, Model, Proofs, Props). Files under Gen/ and Cases/ are
# written by checks at run time and compiled by the check that owns them.
set -e
cd "$(dirname "$0")/../coq"
{
  echo "-R . RV"
  echo "-arg -w -arg -notation-overridden,-deprecated-hint-without-locality,-deprecated-instance-without-locality"
  find Base Model Proofs Props Extract -name '*.v' 2>/dev/null | LC_ALL=C sort
} > _CoqProject
coq_makefile -f _CoqProject -o Makefile >/dev/null
