#!/usr/bin/env python3
"""Assemble MANIFEST.json from meta/Cxx.json (claimed) and meta/not_applicable.json."""
import json
from pathlib import Path

root = Path(__file__).resolve().parents[1]
props = [json.loads(l)["id"] for l in (root / "properties.jsonl").read_text().splitlines() if l.strip()]
na_file = root / "meta" / "not_applicable.json"
na = json.loads(na_file.read_text()) if na_file.exists() else {}
integrated = set((root / "meta" / "integrated.txt").read_text().split())
checks, not_app = [], []
for pid in props:
    m = root / "meta" / f"{pid}.json"
    h = root / "harness" / "props" / f"{pid.lower()}.py"
    if m.exists() and h.exists() and pid in integrated:
        d = json.loads(m.read_text())
        checks.append({
            "property_id": pid,
            "quick_cmd": f"./check {pid} --quick",
            "thorough_cmd": f"./check {pid} --thorough",
            "evidence_file": f"/verif/evidence/{pid}.json",
            "replay_cmd_template": f"./check {pid} --replay {{path}}",
            "engine": "coq-models",
            "level_claimed": {"category": d["category"], "text": d["text"], "design_ref": d.get("design_ref", "DESIGN.md §6")},
            "level_note": d["level_note"],
            "technique": d["technique"],
        })
    else:
        not_app.append({"property_id": pid,
                        "reason": na.get(pid, "not yet claimed: the Coq model / tie for this property is not built yet (see DESIGN.md §11 build order); no other technique is substituted")})
hooks_file = root / "meta" / "hooks.json"
hooks = json.loads(hooks_file.read_text()) if hooks_file.exists() else {}
manifest = {
    "version": 1,
    "setup_cmd": "cd /verif && sh tools/setup.sh",
    "hooks": {
        "guard": "REDUN_VERIF",
        "enable": "checks export REDUN_VERIF=1 and PYTHONPATH=/repo (see /verif/check); no build step, redun is imported from /repo's working tree",
        "baseline_off_cmd": "cd /repo && env -u REDUN_VERIF /venv/bin/python -m pytest -ra -q -p no:cacheprovider --timeout=900 --continue-on-collection-errors",
        "source_commits": hooks.get("source_commits", []),
        "add_only": True,
    },
    "engines": [
        {"name": "coq-models", "path": "/verif/coq", "serves_properties": [c["property_id"] for c in checks],
         "kind_free_text": "Coq 8.16.1 development: Base/ Model/ (executable Gallina, no proofs) Proofs/ Props/ (statements + Print Assumptions); Gen/ regenerated from /repo by translators on every run"},
        {"name": "translators", "path": "/verif/translate", "serves_properties": [c["property_id"] for c in checks],
         "kind_free_text": "fail-closed Python-ast translators from /repo sources to Coq (Gen/*.v)"},
        {"name": "correspondence", "path": "/verif/harness", "serves_properties": [c["property_id"] for c in checks],
         "kind_free_text": "generators, implementation drivers, vm_compute case files, oracles, search, evidence"},
    ],
    "checks": checks,
    "not_applicable": not_app,
    "notes": "Every check: ./check Cxx --quick|--thorough. Known findings: /verif/known_findings.json. See DESIGN.md.",
}
(root / "MANIFEST.json").write_text(json.dumps(manifest, indent=1) + "\n")
print(f"{len(checks)} checks claimed, {len(not_app)} not claimed")
