#!/bin/sh
# Re-check every compiled property file (and everything it depends on) with the independent checker coqchk and
# record the axiom summary.  Needs the full build (tools/setup.sh).  Output: /verif/notes/coqchk_summary.txt
cd /verif/coq || exit 2
mods=$(ls Props/C*.v | sed 's#Props/\(.*\)\.v#RV.Props.\1#')
timeout 7200 coqchk -o -silent -R . RV $mods > /root/scratch/coqchk_all.log 2>&1
rc=$?
{ echo "coqchk -o on: $(echo $mods | wc -w) property modules, exit code $rc, $(date -u +%FT%TZ)"; sed -n '/CONTEXT SUMMARY/,$p' /root/scratch/coqchk_all.log; } > /verif/notes/coqchk_summary.txt
cat /verif/notes/coqchk_summary.txt
exit $rc
