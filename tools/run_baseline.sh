#!/bin/sh
# Run the pinned suite (guard off) and report stable-pass tests that no longer pass.
out=${1:-/root/scratch/baseline.xml}
cd /repo && env -u REDUN_VERIF /venv/bin/python -m pytest -ra -q -p no:cacheprovider --timeout=900 --continue-on-collection-errors --junitxml=$out >/root/scratch/baseline.log 2>&1
python3 - "$out" <<'P'
import json, sys, xml.etree.ElementTree as ET
base = json.load(open('/root/.vp/BASELINE.json'))
stable = set(base['stable_pass'])
t = ET.parse(sys.argv[1])
ok = set()
for tc in t.iter('testcase'):
    name = f"{tc.get('classname')}::{tc.get('name')}"
    if not any(ch.tag in ('failure', 'error', 'skipped') for ch in tc):
        ok.add(name)
missing = sorted(stable - ok)
print(f"passed {len(ok)}; stable baseline {len(stable)}; stable tests not passing now: {len(missing)}")
for m in missing[:40]: print("  ", m)
P
