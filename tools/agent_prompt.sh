#!/bin/sh
# usage: agent_prompt.sh C34 [C04 ...] -- prints the standard task prompt for a builder agent
ids="$*"
first=$(echo $1 | tr 'A-Z' 'a-z')
cat <<P
You are extending a Coq-based verification framework in /verif for the Python workflow engine
insitro/redun (source in /repo, read-only for you). Your task: build the complete check for
propert$( [ $# -gt 1 ] && echo ies || echo y ) $ids.

Start by reading, in this order:
1. /verif/CONTRIBUTING.md  (conventions, file ownership, rules — follow it exactly)
2. the worked example: /verif/coq/Model/Bencode.v, /verif/coq/Props/C14.v, /verif/translate/tr_bcoding.py,
   /verif/harness/props/c14.py, /verif/harness/lib.py, /verif/meta/C14.json
3. the property text: grep '"id": "Cxx"' /verif/properties.jsonl (statement, quantifier, anchors) — the
   property is fixed; do not reinterpret it more weakly or more strongly than written
4. /verif/DESIGN.md section "### Cxx" (the plan for this property, the expected status on the
   unchanged tree) and §7 (confirmed defects; experiment scripts under /verif/notes/experiments/)
5. the anchored source files in /repo.

Deliver, per property: coq/Model/*.v (executable model, no proofs), coq/Proofs/*.v, coq/Props/Cxx.v
(theorems at full strength for ALL inputs/sequences, closed by exact, Print Assumptions, non-vacuity
Example; _refuted + fixed-variant theorems where the unchanged code violates the property),
translate/tr_*.py (fail-closed ast translator emitting coq/Gen/CxxGen.v with a tie lemma; shape pins in
translate/pins_Cxx.json), harness/props/cxx.py (translate / correspond / oracle / replay), meta/Cxx.json.
Use your scratch dir /root/scratch/$first/ (create it; delete it when done). Do not touch /repo, do not
git commit, do not edit files owned by others (lib.py, main.py, check, tools/, MANIFEST.json,
properties.jsonl, other properties' files). Known findings are registered with tools/kf_add.py.

Quality bar: ./check Cxx --quick exits 0 on the unchanged tree in under 3 minutes for two different
VERIF_SEED values, writes a schema-valid evidence file, and exits 1 with a concrete replay for 2-3
realistic breaking edits you try in a scratch worktree (see CONTRIBUTING "Self-test"). Proofs must be
real (no Admitted/admit/Axiom); if something cannot be proved in reasonable time, keep the full
statement in a comment, prove the strongest part you can as *_partial, and say so. Prefer a smaller
faithful model with complete proofs and a strong correspondence run over a big model with holes.
Work autonomously until done; budget roughly 2-3 hours of work. Finish with the short final report
described at the end of CONTRIBUTING.md (plain text, under 60 lines).
P
