#!/bin/sh
# Re-run every stored seeded change (seeded/<name>/patch.diff) against the current checks and report which are caught.
# Each patch is applied to a scratch worktree of /repo's HEAD (never to /repo itself); evidence files are preserved.
# usage: tools/reseed_all.sh [name-prefix]     e.g. tools/reseed_all.sh C0
cd /verif || exit 2
for d in seeded/${1:-}*/; do
  n=$(basename $d)
  checks=$(python3 -c "import json;print(' '.join(c['check'] for c in json.load(open('$d/meta.json'))['checks_run_with_patch']))")
  out=$(tools/try_seed.sh $n /verif/seeded/$n $checks 2>&1 | grep -v 'same file')
  if echo "$out" | grep -q "patch does not apply"; then echo "$n: patch no longer applies to HEAD"; continue; fi
  v=$(echo "$out" | grep -c '^VIOLATION'); nf=$(echo "$out" | grep -c 'no-failing-input-found')
  echo "$n: checks [$checks] violation lines $v (of which without failing input: $nf)"
done
