"""Translator for the context machinery (C26) -> coq/Gen/C26Gen.v  (fail closed).

Extracted (and tied to the configuration the theorems of Props/C26.v are about):
  redun/utils.py      merge_dicts         -> merge_variant  (AsShipped | Fixed), every statement recognised
  redun/task.py       Task.update_context -> update_plan    (the merge_dicts([...]) expression as a tree)
  redun/scheduler.py  Job.get_context     -> job_parent_first (argument order of the binary merge)
  redun/scheduler.py  Job.clear           -> clear_keeps_parent (attributes reset when a job concludes)
  redun/scheduler.py  Scheduler.run       -> run_config_first (Execution(..., context=merge_dicts([self._context, context])))
Pinned by shape (hand-modelled in Model/Context.v, tied by the correspondence run):
  redun/context.py    get_context_value, get_context
"""
from __future__ import annotations

import ast
import sys

from .astutil import TranslateError, body_nodoc, fail, find_func, is_call, load, pin, src

PINNED = {"get_context_value": ("redun/context.py", None), "get_context": ("redun/context.py", None)}

# ---------------------------------------------------------------------------- merge_dicts
GROUP_BODY = [
    "key2values = defaultdict(list)",
    "for dct in dicts:\n    for key, value in cast(dict, dct).items():\n        key2values[key].append(value)",
    "return cast(T, {key: merge_dicts(values) for key, values in key2values.items()})",
]
ANY_NONDICT = "any((not isinstance(dct, dict) for dct in dicts))"
SHIPPED_NONDICT = ["return dicts[-1]"]
# the repair: a non-dict value replaces what precedes it; the dicts after the last non-dict merge
FIXED_NONDICT = [
    "last = max((i for i, dct in enumerate(dicts) if not isinstance(dct, dict)))",
    "if last == len(dicts) - 1:\n    return dicts[-1]",
    "return merge_dicts(dicts[last + 1:])",
]


def tr_merge_dicts(mod) -> str:
    fn = find_func(mod, "merge_dicts")
    if [a.arg for a in fn.args.args] != ["dicts"] or fn.args.vararg or fn.args.kwarg or fn.args.kwonlyargs \
            or fn.args.defaults or fn.decorator_list:
        fail("merge_dicts: signature changed", fn)
    body = body_nodoc(fn)
    if len(body) != 1 or not isinstance(body[0], ast.If):
        fail("merge_dicts: expected a single if/elif/else", fn)
    top = body[0]
    if src(top.test) != "len(dicts) == 1" or [src(s) for s in top.body] != ["return dicts[0]"]:
        fail("merge_dicts: first branch is not `if len(dicts) == 1: return dicts[0]`", top)
    if len(top.orelse) != 1 or not isinstance(top.orelse[0], ast.If):
        fail("merge_dicts: expected an elif after the single-argument branch", top)
    second = top.orelse[0]
    if src(second.test) != ANY_NONDICT:
        fail(f"merge_dicts: unrecognised second test {src(second.test)!r}", second)
    nondict = [src(s) for s in second.body]
    if nondict == SHIPPED_NONDICT:
        variant = "AsShipped"
    elif nondict == FIXED_NONDICT:
        variant = "Fixed"
    else:
        fail(f"merge_dicts: unrecognised non-dict branch {nondict!r}", second)
    if [src(s) for s in second.orelse] != GROUP_BODY:
        fail(f"merge_dicts: unrecognised grouping branch {[src(s) for s in second.orelse]!r}", second)
    # the names used must be the expected ones
    names = {}
    for n in mod.body:
        if isinstance(n, ast.ImportFrom):
            for a in n.names:
                names[a.asname or a.name] = (n.module, a.name)
        # a module-level rebinding of a name the function relies on is not recognised
        if isinstance(n, (ast.FunctionDef, ast.ClassDef)) and n.name in ("defaultdict", "cast", "isinstance", "any", "len",
                                                                         "max", "enumerate", "dict", "list"):
            fail(f"redun/utils.py rebinds {n.name}", n)
        if isinstance(n, (ast.Assign, ast.AnnAssign)):
            tg = n.targets if isinstance(n, ast.Assign) else [n.target]
            for t in tg:
                if isinstance(t, ast.Name) and t.id in ("defaultdict", "cast", "isinstance", "any", "len", "max",
                                                        "enumerate", "dict", "list", "merge_dicts"):
                    fail(f"redun/utils.py rebinds {t.id}", n)
    if names.get("defaultdict") != ("collections", "defaultdict"):
        fail("merge_dicts: `defaultdict` is not collections.defaultdict")
    if names.get("cast") != ("typing", "cast"):
        fail("merge_dicts: `cast` is not typing.cast")
    if sum(1 for n in mod.body if isinstance(n, ast.FunctionDef) and n.name == "merge_dicts") != 1:
        fail("merge_dicts is defined more than once")
    return variant


# ---------------------------------------------------------------------------- update_context
def plan_of(node, env) -> str:
    """merge_dicts([e1, ..., en]) over the three names -> Coq uc_plan term."""
    if isinstance(node, ast.Name) and node.id in env:
        return env[node.id]
    if is_call(node, "merge_dicts", 1) and isinstance(node.args[0], ast.List) and node.args[0].elts:
        return "(UMerge [" + "; ".join(plan_of(e, env) for e in node.args[0].elts) + "])"
    fail(f"update_context: unrecognised merge expression {src(node)!r}", node)


def imports_merge_dicts(mod, what):
    for n in mod.body:
        if isinstance(n, ast.ImportFrom) and n.module == "redun.utils" and n.level == 0:
            for a in n.names:
                if a.name == "merge_dicts" and a.asname is None:
                    return
    fail(f"{what}: merge_dicts is not imported from redun.utils")


def tr_update_context(mod) -> str:
    imports_merge_dicts(mod, "redun/task.py")
    fn = find_func(mod, "update_context", cls="Task")
    a = fn.args
    if [x.arg for x in a.args] != ["self", "context"] or a.vararg or a.kwonlyargs or not a.kwarg or a.kwarg.arg != "kwargs" \
            or len(a.defaults) != 1 or src(a.defaults[0]) != "{}" or fn.decorator_list:
        fail("Task.update_context: signature is not (self, context={}, **kwargs)", fn)
    body = body_nodoc(fn)
    if len(body) != 2:
        fail("Task.update_context: expected two statements", fn)
    st = body[0]   # the local may be renamed
    if not (isinstance(st, ast.Assign) and len(st.targets) == 1 and isinstance(st.targets[0], ast.Name)
            and st.targets[0].id not in ("context", "kwargs", "self")
            and src(st.value) == "self._task_options_override.get('_context_override', {})"):
        fail(f"Task.update_context: unrecognised first statement {src(body[0])!r}", body[0])
    prev = st.targets[0].id
    ret = body[1]
    if not (isinstance(ret, ast.Return) and isinstance(ret.value, ast.Call) and src(ret.value.func) == "self.options"
            and not ret.value.args and len(ret.value.keywords) == 1 and ret.value.keywords[0].arg == "_context_override"):
        fail(f"Task.update_context: unrecognised return {src(ret)!r}", ret)
    return plan_of(ret.value.keywords[0].value, {prev: "UPrev", "context": "UCtx", "kwargs": "UKw"})


# ---------------------------------------------------------------------------- Job.get_context / Scheduler.run
def binary_order(node, first, second, what) -> bool:
    """node must be merge_dicts([first, second]) (-> True) or merge_dicts([second, first]) (-> False)."""
    if not (is_call(node, "merge_dicts", 1) and isinstance(node.args[0], ast.List) and len(node.args[0].elts) == 2):
        fail(f"{what}: expected a two-argument merge_dicts([...]), got {src(node)!r}", node)
    got = [src(e) for e in node.args[0].elts]
    if got == [first, second]:
        return True
    if got == [second, first]:
        return False
    fail(f"{what}: unrecognised merge arguments {got!r}", node)


def tr_job_get_context(mod) -> bool:
    imports_merge_dicts(mod, "redun/scheduler.py")
    fn = find_func(mod, "get_context", cls="Job")
    if [x.arg for x in fn.args.args] != ["self"] or fn.decorator_list:
        fail("Job.get_context: signature changed", fn)
    body = body_nodoc(fn)
    if not (len(body) == 2 and isinstance(body[0], ast.If) and src(body[0].test) == "self._context is None"
            and not body[0].orelse and src(body[1]) == "return self._context"):
        fail("Job.get_context: expected `if self._context is None: ...; return self._context`", fn)
    inner = [s for s in body[0].body if not (isinstance(s, ast.Assert))]
    if len(inner) != 3:
        fail("Job.get_context: expected three statements in the cache-miss branch", body[0])
    # the two locals may be renamed; what they are bound to may not change
    def bound(st, rhs, what):
        if not (isinstance(st, ast.Assign) and len(st.targets) == 1 and isinstance(st.targets[0], ast.Name)
                and src(st.value) == rhs):
            fail(f"Job.get_context: unrecognised {what} {src(st)!r}", st)
        return st.targets[0].id
    parent = bound(inner[0], "self.parent_job.get_context() if self.parent_job else self.execution.context", "parent context")
    over = bound(inner[1], "self.get_option('_context_override', {})", "override")
    if parent == over:
        fail("Job.get_context: parent context and override share a name", inner[1])
    st = inner[2]
    if not (isinstance(st, ast.Assign) and len(st.targets) == 1 and src(st.targets[0]) == "self._context"):
        fail(f"Job.get_context: unrecognised assignment {src(st)!r}", st)
    return binary_order(st.value, parent, over, "Job.get_context")


CRITICAL_FIELDS = ("execution", "eval_options", "options", "task")   # Job.get_context needs them after clear()


def tr_job_clear(mod) -> bool:
    """Job.clear() (run by resolve()/reject()): which attributes it resets. It may drop the memoised
    `_context` (get_context recomputes it) but then must keep `parent_job`.  Returns clear_keeps_parent."""
    cls = None
    for n in mod.body:
        if isinstance(n, ast.ClassDef) and n.name == "Job":
            cls = n
    if cls is None:
        fail("class Job not found")
    fn = find_func(mod, "clear", cls="Job")
    if [x.arg for x in fn.args.args] != ["self"] or fn.decorator_list:
        fail("Job.clear: signature changed", fn)
    resets = []
    for st in body_nodoc(fn):
        if isinstance(st, ast.Assign) and len(st.targets) == 1 and isinstance(st.targets[0], ast.Attribute) \
                and src(st.targets[0].value) == "self":
            name = st.targets[0].attr
            if src(st) == "self._status = self.status":
                continue
            if not (isinstance(st.value, ast.Constant) and st.value.value is None):
                fail(f"Job.clear: unrecognised assignment {src(st)!r}", st)
            resets.append(name)
        elif isinstance(st, ast.Expr) and isinstance(st.value, ast.Call) and isinstance(st.value.func, ast.Attribute) \
                and st.value.func.attr == "clear" and not st.value.args and not st.value.keywords \
                and isinstance(st.value.func.value, ast.Attribute) and src(st.value.func.value.value) == "self":
            resets.append(st.value.func.value.attr)
        else:
            fail(f"Job.clear: unrecognised statement {src(st)!r}", st)
    for f in CRITICAL_FIELDS:
        if f in resets:
            fail(f"Job.clear resets self.{f}, which Job.get_context needs to recompute a context")
    # the parent link is set in __init__ only (and possibly reset in clear, which is what we extract)
    for m in cls.body:
        if isinstance(m, ast.FunctionDef) and m.name not in ("__init__", "clear"):
            for n in ast.walk(m):
                if isinstance(n, ast.Attribute) and n.attr == "parent_job" and isinstance(n.ctx, (ast.Store, ast.Del)) \
                        and src(n.value) == "self":
                    fail(f"Job.{m.name} rebinds self.parent_job", n)
    # clear() is what resolve()/reject() call; nothing else in Job may drop the memoised context
    for m in cls.body:
        if isinstance(m, ast.FunctionDef) and m.name not in ("__init__", "clear", "get_context"):
            for n in ast.walk(m):
                if isinstance(n, ast.Attribute) and n.attr == "_context" and isinstance(n.ctx, (ast.Store, ast.Del)) \
                        and src(n.value) == "self":
                    fail(f"Job.{m.name} rebinds self._context", n)
    return "parent_job" not in resets


def tr_scheduler_run(mod) -> bool:
    cls = None
    for n in mod.body:
        if isinstance(n, ast.ClassDef) and n.name == "Scheduler":
            cls = n
    if cls is None:
        fail("class Scheduler not found")
    runs = [n for n in cls.body if isinstance(n, ast.FunctionDef) and n.name == "run"
            and not any(src(d) == "overload" for d in n.decorator_list)]
    if len(runs) != 1:
        fail("Scheduler.run: expected exactly one non-overload definition")
    fn = runs[0]
    if "context" not in [a.arg for a in fn.args.args]:
        fail("Scheduler.run: no `context` parameter", fn)
    # every construction of an Execution inside run
    execs = [n for n in ast.walk(fn) if isinstance(n, ast.Call) and src(n.func) == "Execution"]
    if len(execs) != 1:
        fail("Scheduler.run: expected exactly one Execution(...)", fn)
    kws = {k.arg: k.value for k in execs[0].keywords}
    if "context" not in kws:
        fail("Scheduler.run: Execution(...) without context=", execs[0])
    # `context` must not be rebound before use
    for n in ast.walk(fn):
        if isinstance(n, ast.Name) and n.id == "context" and isinstance(n.ctx, (ast.Store, ast.Del)):
            fail("Scheduler.run: `context` is rebound", n)
    order = binary_order(kws["context"], "self._context", "context", "Scheduler.run")
    # self._context is the parsed configuration
    init = find_func(mod, "__init__", cls="Scheduler")
    assigns = [src(n) for n in ast.walk(init) if isinstance(n, ast.Assign) and src(n.targets[0]) == "self._context"]
    if assigns != ["self._context = json.loads(context_str) if context_str else {}"]:
        fail(f"Scheduler.__init__: unrecognised configured context {assigns!r}", init)
    return order


# ---------------------------------------------------------------------------- driver
def translate(pins: dict | None = None):
    variant = tr_merge_dicts(load("redun/utils.py"))
    plan = tr_update_context(load("redun/task.py"))
    sched = load("redun/scheduler.py")
    job_first = tr_job_get_context(sched)
    run_first = tr_scheduler_run(sched)
    keeps_parent = tr_job_clear(sched)
    ctxmod = load("redun/context.py")
    got = {name: pin(find_func(ctxmod, name)) for name in PINNED}
    if pins is not None:
        for name, exp in pins.items():
            if got.get(name) != exp:
                fail(f"{name}: shape changed (pin {got.get(name)} != {exp}); the hand-written model of "
                     f"redun/context.py is no longer known to match")
    flat = "(UMerge [UPrev; UCtx; UKw])"
    nested = "(UMerge [(UMerge [UPrev; UCtx]); UKw])"
    if variant == "AsShipped" and plan == flat and job_first and run_first and keeps_parent:
        name = "shipped"
    elif variant == "Fixed" and plan == flat and job_first and run_first and keeps_parent:
        name = "fixed"
    elif variant == "AsShipped" and plan == nested and job_first and run_first and keeps_parent:
        name = "fixed_uc"
    else:
        name = None   # the tie below fails: none of the configurations the theorems are about
    b = lambda x: "true" if x else "false"  # noqa: E731
    v = []
    v.append("(* GENERATED by translate/tr_context.py from /repo/redun/{utils,task,scheduler,context}.py -- do not edit *)")
    v.append("From Coq Require Import List.")
    v.append("From RV Require Import Model.Context.")
    v.append("Import ListNotations.")
    v.append("Definition gen : ctx_cfg := {|")
    v.append(f"  merge_variant := {variant};")
    v.append(f"  update_plan := {plan};")
    v.append(f"  job_parent_first := {b(job_first)};")
    v.append(f"  run_config_first := {b(run_first)};")
    v.append(f"  clear_keeps_parent := {b(keeps_parent)}")
    v.append("|}.")
    v.append("(* The theorems of Props/C26.v are about [shipped] (refuted + partial), [fixed] and [fixed_uc] (hold). *)")
    if name:
        v.append(f"Lemma C26_tie : gen = {name}.")
        v.append("Proof. vm_compute. reflexivity. Qed.")
    else:
        v.append("Lemma C26_tie : gen = shipped \\/ gen = fixed \\/ gen = fixed_uc.")
        v.append("Proof. first [left; reflexivity | right; left; reflexivity | right; right; reflexivity]. Qed.")
    record = (f"{{| merge_variant := {variant}; update_plan := {plan}; job_parent_first := {b(job_first)}; "
              f"run_config_first := {b(run_first)}; clear_keeps_parent := {b(keeps_parent)} |}}")
    info = {"name": name, "record": record, "witness_expected": variant == "AsShipped" and plan == flat}
    return "\n".join(v) + "\n", got, info


if __name__ == "__main__":
    text, pins, info = translate()
    sys.stdout.write(text)
    print(pins, info, file=sys.stderr)
