"""Translator for the call-graph recording (C20) -> coq/Gen/C20Gen.v  (fail closed).

Extracted from the source:
  * redun/hashing.py  hash_call_node : tag, field order, sorted() on the child hashes   -> layout_cfg
  * redun/scheduler.py _exec_job_main_thread : is the _pending_jobs registration guarded by
    cache_scope != NONE; does prov=False force cache_scope NONE (options_then)              -> reg_guard
  * redun/scheduler.py _reject_job_main_thread : is record_call_node skipped for a job that already carries
    a call hash                                                                            -> reject_adopts
  * the order of the recording calls on the provenance paths of _resolve_job_main_thread /
    _reject_job_main_thread and the child_call_hashes comprehension                        -> rec_call lists
Pinned by shape (hand-modelled, tied by the correspondence run): hash_struct, Hash, Job.collapse,
RedunBackendDb.record_call_node / record_job_start / record_job_end, Scheduler._record_job_tags, apply_tags.
`tags_dedupe` (record_tags with one pair twice) is decided by a behavioural probe in harness/props/c20.py.
"""
from __future__ import annotations

import ast
import sys

from .astutil import TranslateError, body_nodoc, fail, find_class, find_func, load, pin, src

PINNED = {
    "hashing.hash_struct": ("redun/hashing.py", None, "hash_struct"),
    "hashing.Hash": ("redun/hashing.py", "Hash", None),
    "scheduler.Job.collapse": ("redun/scheduler.py", "Job", "collapse"),
    "scheduler.Job.recording_provenance": ("redun/scheduler.py", "Job", "recording_provenance"),
    "scheduler.Scheduler._record_job_tags": ("redun/scheduler.py", "Scheduler", "_record_job_tags"),
    "scheduler.Scheduler._check_pending_job": ("redun/scheduler.py", "Scheduler", "_check_pending_job"),
    "scheduler.apply_tags": ("redun/scheduler.py", None, "apply_tags"),
    "db.record_call_node": ("redun/backends/db/__init__.py", "RedunBackendDb", "record_call_node"),
    "db.record_job_start": ("redun/backends/db/__init__.py", "RedunBackendDb", "record_job_start"),
    "db.record_job_end": ("redun/backends/db/__init__.py", "RedunBackendDb", "record_job_end"),
}

REC_CALLS = {
    "self.backend.record_value": "RValue",
    "self.backend.record_call_node": "RNode",
    "self.backend.record_call_node_context": "RContext",
    "self._record_job_tags": "RTags",
    "self.backend.record_job_end": "REnd",
}


def rec_calls(stmts):
    """Recording calls in source order inside a list of statements (nested blocks included, except that an
    `except` handler that merely repeats record_value for an unpicklable error is skipped)."""
    out = []

    def visit(n):
        if isinstance(n, ast.Try):
            for s in n.body:
                visit(s)
            for s in n.orelse + n.finalbody:
                visit(s)
            return
        if isinstance(n, ast.Call) and src(n.func) in REC_CALLS:
            for a in list(n.args) + [k.value for k in n.keywords]:
                visit(a)
            out.append(REC_CALLS[src(n.func)])
            return
        for c in ast.iter_child_nodes(n):
            visit(c)

    for s in stmts:
        visit(s)
    return out


def find_if(stmts, test_src):
    for s in stmts:
        if isinstance(s, ast.If) and src(s.test) == test_src:
            return s
    return None


def child_hashes_shape(fn, name):
    """The comprehension computing child_call_hashes: entries of job.child_jobs that carry a call hash."""
    for n in ast.walk(fn):
        if isinstance(n, ast.Assign) and src(n.targets[0]) == "child_call_hashes":
            lc = n.value
            if not (isinstance(lc, ast.ListComp) and len(lc.generators) == 1):
                fail(f"{name}: child_call_hashes is not a single list comprehension", n)
            g = lc.generators[0]
            elt = src(lc.elt)
            if elt not in ("child_job.call_hash", "cast(str, child_job.call_hash)"):
                fail(f"{name}: child_call_hashes element {elt!r} not recognised", n)
            if src(g.target) != "child_job" or src(g.iter) != "job.child_jobs" or [src(i) for i in g.ifs] != ["child_job.call_hash"]:
                fail(f"{name}: child_call_hashes does not range over job.child_jobs filtered by call_hash", n)
            return
    fail(f"{name}: child_call_hashes assignment not found", fn)


def translate(pins: dict | None = None):
    # ---------------------------------------------------------------- hash_call_node
    hm = load("redun/hashing.py")
    fn = find_func(hm, "hash_call_node")
    params = [a.arg for a in fn.args.args]
    if params != ["task_hash", "args_hash", "result_hash", "child_call_hashes"]:
        fail(f"hash_call_node: parameters {params}", fn)
    body = body_nodoc(fn)
    if not (len(body) == 1 and isinstance(body[0], ast.Return) and isinstance(body[0].value, ast.Call)
            and src(body[0].value.func) == "hash_struct" and len(body[0].value.args) == 1
            and isinstance(body[0].value.args[0], ast.List)):
        fail("hash_call_node: expected `return hash_struct([...])`", fn)
    elts = body[0].value.args[0].elts
    if not (elts and isinstance(elts[0], ast.Constant) and isinstance(elts[0].value, str)):
        fail("hash_call_node: first element is not a string tag", fn)
    tag = elts[0].value
    fields, is_sorted = [], None
    names = {"task_hash": "FTask", "args_hash": "FArgs", "result_hash": "FResult"}
    for e in elts[1:]:
        s = src(e)
        if s in names:
            fields.append(names[s])
        elif s == "sorted(child_call_hashes)":
            fields.append("FChildren")
            is_sorted = True
        elif s == "child_call_hashes":
            fields.append("FChildren")
            is_sorted = False
        else:
            fail(f"hash_call_node: unrecognised element {s!r}", e)
    if is_sorted is None:
        fail("hash_call_node: the child call hashes are not hashed", fn)

    # ---------------------------------------------------------------- scheduler
    sm = load("redun/scheduler.py")
    sched = find_class(sm, "Scheduler")
    ex = find_func(sm, "_exec_job_main_thread", "Scheduler")
    reg_guard = None
    for n in ast.walk(ex):
        if isinstance(n, ast.If) and src(n.test).replace("\n", "") == \
                "job.get_option('cache_scope', CacheScope.BACKEND, as_type=CacheScope) != CacheScope.NONE":
            if [src(s) for s in n.body] == ["self._pending_jobs[job.eval_hash, job.context_hash] = job"] and not n.orelse:
                reg_guard = True
    if reg_guard is None:
        for s in body_nodoc(ex):
            t = src(s)
            if t in ("self._pending_jobs[job.eval_hash, job.context_hash] = job",
                     "self._pending_jobs.setdefault((job.eval_hash, job.context_hash), job)"):
                reg_guard = False
    if reg_guard is None:
        fail("_exec_job_main_thread: _pending_jobs registration not recognised", ex)
    n_reg = sum(1 for n in ast.walk(sched) if isinstance(n, (ast.Assign, ast.Call)) and "_pending_jobs" in src(n)
                and (isinstance(n, ast.Assign) and src(n.targets[0]).startswith("self._pending_jobs[")
                     or isinstance(n, ast.Call) and src(n.func) == "self._pending_jobs.setdefault"))
    if n_reg != 1:
        fail(f"Scheduler: {n_reg} places register a pending job (expected 1)")
    forced = any(isinstance(n, ast.If) and src(n.test) == "not job.recording_provenance()"
                 and [src(s) for s in n.body] == ["job.eval_options['cache_scope'] = CacheScope.NONE"]
                 for n in ast.walk(sched))
    if not forced:
        fail("Scheduler: prov=False no longer forces cache_scope NONE (model: ESubmit)")
    forced_child = any(isinstance(n, ast.If) and src(n.test) == "parent_job and (not parent_job.recording_provenance())"
                       and [src(s) for s in n.body] == ["job_options['prov'] = False"] for n in ast.walk(sched))
    if not forced_child:
        fail("Scheduler: children of a prov=False job are no longer forced to prov=False")

    # resolve
    rs = find_func(sm, "_resolve_job_main_thread", "Scheduler")
    child_hashes_shape(rs, "_resolve_job_main_thread")
    top = find_if(body_nodoc(rs), "job.call_hash")
    if top is None or not top.orelse:
        fail("_resolve_job_main_thread: `if job.call_hash: ... else: ...` not found", rs)
    if rec_calls(top.body):
        fail("_resolve_job_main_thread: a job that already has a call hash records something in the replay branch", top)
    fresh_if = find_if(top.orelse, "job.recording_provenance()")
    if fresh_if is None:
        fail("_resolve_job_main_thread: provenance branch of the fresh path not found", top)
    resolve_fresh = rec_calls(fresh_if.body)
    if rec_calls(fresh_if.orelse):
        fail("_resolve_job_main_thread: the no-provenance branch records something", fresh_if)
    if "hash_call_node" not in src(ast.Module(body=fresh_if.orelse, type_ignores=[])):
        fail("_resolve_job_main_thread: the no-provenance branch no longer computes hash_call_node", fresh_if)
    rest = body_nodoc(rs)[body_nodoc(rs).index(top) + 1:]
    common_if = find_if(rest, "job.recording_provenance()")
    if common_if is None or common_if.orelse:
        fail("_resolve_job_main_thread: common provenance block not found", rs)
    resolve_common = rec_calls(common_if.body)
    others = [s for s in rest if s is not common_if]
    if rec_calls(others) or [src(s) for s in others] != ["job.resolve(result)", "self._finalize_job(job)"]:
        fail("_resolve_job_main_thread: unexpected statements after the provenance block", rs)

    # reject
    rj = find_func(sm, "_reject_job_main_thread", "Scheduler")
    child_hashes_shape(rj, "_reject_job_main_thread")
    jb = find_if(body_nodoc(rj), "job")
    if jb is None:
        fail("_reject_job_main_thread: `if job:` not found", rj)
    pv = find_if(jb.body, "job.recording_provenance()")
    if pv is None or pv.orelse:
        fail("_reject_job_main_thread: provenance block not found", rj)
    direct = [s for s in pv.body if isinstance(s, ast.Assign) and src(s.targets[0]) == "job.call_hash"
              and src(s.value.func) == "self.backend.record_call_node"]
    guarded = find_if(pv.body, "not job.call_hash")
    if direct and guarded is None:
        reject_adopts = False
    elif guarded is not None and not direct and not guarded.orelse and "RNode" in rec_calls(guarded.body) \
            and set(rec_calls([s for s in pv.body if s is not guarded])) == {"RContext", "RTags", "REnd"}:
        reject_adopts = True
    else:
        fail("_reject_job_main_thread: recording of the call node has an unrecognised shape", pv)
    reject_order = rec_calls(pv.body)
    if rec_calls([s for s in jb.body if s is not pv]) or rec_calls(jb.orelse):
        fail("_reject_job_main_thread: recording outside the provenance block", rj)

    # ---------------------------------------------------------------- pins
    got = {}
    mods = {}
    for key, (path, cls, name) in PINNED.items():
        m = mods.setdefault(path, load(path))
        node = find_class(m, cls) if name is None else find_func(m, name, cls)
        got[key] = pin(node)
    if pins is not None:
        for key, exp in pins.items():
            if got.get(key) != exp:
                fail(f"{key}: shape changed (pin {got.get(key)} != {exp}); the hand-written recording model is no "
                     f"longer known to match")

    cfgd = {"tag": tag, "fields": fields, "sorted": is_sorted, "reg_guard": reg_guard, "reject_adopts": reject_adopts,
            "resolve_fresh": resolve_fresh, "resolve_common": resolve_common, "reject_order": reject_order}
    return cfgd, got


def emit(cfgd, tags_dedupe: bool) -> str:
    b = lambda x: "true" if x else "false"
    tagb = "(bs [" + ";".join(str(x) for x in cfgd["tag"].encode()) + "]%N)"
    lst = lambda l: "[" + "; ".join(l) + "]"
    v = []
    v.append("(* GENERATED by translate/tr_callgraph.py from /repo/redun/{hashing,scheduler}.py -- do not edit *)")
    v.append("From Coq Require Import List NArith Ascii Bool.")
    v.append("From RV Require Import Base.Lit Model.CallGraph.")
    v.append("Import ListNotations.")
    v.append(f"Definition gen_layout : layout_cfg := {{| l_tag := {tagb}; l_fields := {lst(cfgd['fields'])}; "
             f"l_sorted := {b(cfgd['sorted'])} |}}.")
    v.append(f"Definition gen_cfg : cfg := {{| layout := gen_layout; reg_guard := {b(cfgd['reg_guard'])}; "
             f"reject_adopts := {b(cfgd['reject_adopts'])}; tags_dedupe := {b(tags_dedupe)} |}}.")
    v.append(f"Definition gen_resolve_fresh : list rec_call := {lst(cfgd['resolve_fresh'])}.")
    v.append(f"Definition gen_resolve_common : list rec_call := {lst(cfgd['resolve_common'])}.")
    v.append(f"Definition gen_reject : list rec_call := {lst(cfgd['reject_order'])}.")
    v.append("(* The theorems of Props/C20.v need the shipped layout and the guarded registration. *)")
    v.append("Lemma C20_tie_layout : layout gen_cfg = shipped_layout.")
    v.append("Proof. vm_compute. reflexivity. Qed.")
    v.append("Lemma C20_tie_guard : reg_guard gen_cfg = true.")
    v.append("Proof. reflexivity. Qed.")
    v.append("Lemma C20_tie_orders : gen_resolve_fresh = resolve_fresh_order /\\ gen_resolve_common = resolve_common_order "
             "/\\ gen_reject = reject_order.")
    v.append("Proof. repeat split; reflexivity. Qed.")
    if not cfgd["reject_adopts"] and not tags_dedupe:
        v.append("Lemma C20_tie_variant : gen_cfg = shipped_cfg.")
    elif cfgd["reject_adopts"] and tags_dedupe:
        v.append("Lemma C20_tie_variant : gen_cfg = fixed_cfg.")
    else:
        v.append(f"Lemma C20_tie_variant : gen_cfg = {{| layout := shipped_layout; reg_guard := true; "
                 f"reject_adopts := {b(cfgd['reject_adopts'])}; tags_dedupe := {b(tags_dedupe)} |}}.")
    v.append("Proof. vm_compute. reflexivity. Qed.")
    return "\n".join(v) + "\n"


if __name__ == "__main__":
    c, p = translate()
    sys.stdout.write(emit(c, False))
    import json
    print(json.dumps(p, indent=1), file=sys.stderr)
