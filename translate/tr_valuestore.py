"""Translator for value recording / reading with a value store (C31) -> coq/Gen/C31Gen.v (fail closed).

Extracted structurally (record `vs_code` of Model/ValueStore.v, tied to `shipped` by reflexivity):
  * redun/backends/db/__init__.py  RedunBackendDb.record_value: the statement sequence
      value_interface = ...get_value(value); if data is None: data = serialize();
      if <measure>(data) <cmp> self._max_value_size: raise RedunDatabaseError(...)      -> max_measure, max_cmp
      value_hash = value_interface.get_hash(data=data); value_format = ...
      if self.value_store and <measure>(data) <cmp> self.value_store_min_size:          -> off_measure, off_cmp
          self.value_store.put(value_hash, data); data = <bytes literal>                -> placeholder
      with self.with_session() as session: value_row = session.get(Value, value_hash);
          if value_row: return value_hash; ... (rest pinned)                            -> existing_row_kept
      return value_hash
    Value.in_value_store: `return len(self.value) <cmp> <int>`                         -> in_store_cmp, in_store_len
    _get_value_data / _get_value: exact statement shapes (db value unless in_value_store, else the
      store if configured, else AssertionError; `if not has_value: return (None, False)`)
  * redun/backends/value_store.py  ValueStore.put: optional `if self.has(value_hash): return`
      before the write -> put_skips_existing; ValueStore.get: `return (infile.read(), True)` /
      `except FileNotFoundError: return (b'', <flag>)`                                -> missing_is_absent
  * CPython: sys.getsizeof(bytes) - len(bytes), measured on the running interpreter     -> bytes_overhead
Hand-modelled and pinned by shape (compared with the real code by the correspondence run):
  get_value, _deserialize_value, the session block of record_value, the three config reads in
  RedunBackendDb.__init__, ValueStore.__init__/get_value_path/has and the write of put,
  ProxyValue.get_hash/serialize, Value.get_hash/serialize/deserialize, FileCache.*,
  TypeRegistry.get_value/deserialize, hashing.hash_bytes/hash_tag_bytes.
Any other shape -> TranslateError.
"""
from __future__ import annotations

import ast
import json
import sys
from pathlib import Path

from .astutil import TranslateError, body_nodoc, fail, find_class, find_func, is_call, load, pin, src

PINS_FILE = Path(__file__).resolve().parent / "pins_C31.json"
DB = "redun/backends/db/__init__.py"
VS = "redun/backends/value_store.py"
VAL = "redun/value.py"
HASHING = "redun/hashing.py"

CMP = {ast.Gt: "CGt", ast.GtE: "CGe", ast.Lt: "CLt", ast.LtE: "CLe", ast.Eq: "CEq", ast.NotEq: "CNe"}
MEASURE = {"len": "MLen", "sys.getsizeof": "MGetsizeof"}


def _size_compare(node, rhs, what):
    """`<measure>(data) <cmp> <rhs>` -> (measure, cmp)."""
    if not (isinstance(node, ast.Compare) and len(node.ops) == 1 and len(node.comparators) == 1):
        fail(f"{what}: expected a single comparison, got {src(node)!r}", node)
    left, op, right = node.left, node.ops[0], node.comparators[0]
    if not (isinstance(left, ast.Call) and src(left.func) in MEASURE and len(left.args) == 1
            and not left.keywords and src(left.args[0]) == "data"):
        fail(f"{what}: left side {src(left)!r} is not len(data) / sys.getsizeof(data)", node)
    if src(right) != rhs:
        fail(f"{what}: compared with {src(right)!r}, expected {rhs}", node)
    if type(op) not in CMP:
        fail(f"{what}: unrecognised comparison operator in {src(node)!r}", node)
    return MEASURE[src(left.func)], CMP[type(op)]


def _method(mod, cls, name):
    return find_func(mod, name, cls=cls)


def _record_value(db):
    fn = _method(db, "RedunBackendDb", "record_value")
    a = fn.args
    if [x.arg for x in a.args] != ["self", "value", "data"] or a.vararg or a.kwarg or a.kwonlyargs \
            or len(a.defaults) != 1 or src(a.defaults[0]) != "None":
        fail("record_value: signature changed", fn)
    if [src(d) for d in fn.decorator_list] != ["db_retry"]:
        fail("record_value: decorators changed", fn)
    b = body_nodoc(fn)
    if len(b) != 8:
        fail(f"record_value: expected 8 statements, found {len(b)}", fn)
    if src(b[0]) != "value_interface = self.type_registry.get_value(value)":
        fail("record_value: statement 1 is not the get_value call", b[0])
    if not (isinstance(b[1], ast.If) and src(b[1].test) == "data is None" and not b[1].orelse
            and [src(s) for s in b[1].body] == ["data = value_interface.serialize()"]):
        fail("record_value: statement 2 is not `if data is None: data = value_interface.serialize()`", b[1])
    # size limit
    st = b[2]
    if not (isinstance(st, ast.If) and not st.orelse and len(st.body) == 1 and isinstance(st.body[0], ast.Raise)
            and isinstance(st.body[0].exc, ast.Call) and src(st.body[0].exc.func) == "RedunDatabaseError"):
        fail("record_value: statement 3 is not `if <size test>: raise RedunDatabaseError(...)`", st)
    max_measure, max_cmp = _size_compare(st.test, "self._max_value_size", "record_value size limit")
    if src(b[3]) != "value_hash = value_interface.get_hash(data=data)":
        fail("record_value: statement 4 is not the get_hash(data=data) call", b[3])
    if src(b[4]) != "value_format = value_interface.get_serialization_format()":
        fail("record_value: statement 5 changed", b[4])
    # offload
    st = b[5]
    if not (isinstance(st, ast.If) and not st.orelse and isinstance(st.test, ast.BoolOp)
            and isinstance(st.test.op, ast.And) and len(st.test.values) == 2
            and src(st.test.values[0]) == "self.value_store"):
        fail("record_value: statement 6 is not `if self.value_store and <size test>:`", st)
    off_measure, off_cmp = _size_compare(st.test.values[1], "self.value_store_min_size", "record_value offload test")
    if not (len(st.body) == 2 and src(st.body[0]) == "self.value_store.put(value_hash, data)"
            and isinstance(st.body[1], ast.Assign) and src(st.body[1].targets[0]) == "data"
            and len(st.body[1].targets) == 1 and isinstance(st.body[1].value, ast.Constant)
            and isinstance(st.body[1].value.value, bytes)):
        fail("record_value: offload body is not `self.value_store.put(value_hash, data); data = b'...'`", st)
    placeholder = st.body[1].value.value
    # session block
    w = b[6]
    if not (isinstance(w, ast.With) and len(w.items) == 1 and src(w.items[0]) == "self.with_session() as session"):
        fail("record_value: statement 7 is not `with self.with_session() as session:`", w)
    if len(w.body) < 3 or src(w.body[0]) != "value_row = session.get(Value, value_hash)":
        fail("record_value: the session block does not start with the row lookup", w)
    ex = w.body[1]
    if not (isinstance(ex, ast.If) and src(ex.test) == "value_row" and not ex.orelse
            and [src(s) for s in ex.body] == ["return value_hash"]):
        fail("record_value: `if value_row: return value_hash` not found after the row lookup", ex)
    if src(b[7]) != "return value_hash":
        fail("record_value: does not end with `return value_hash`", b[7])
    # no other assignment to data / value_hash anywhere (e.g. a truncation)
    for n in ast.walk(fn):
        if isinstance(n, (ast.Assign, ast.AugAssign, ast.AnnAssign)):
            tg = n.targets if isinstance(n, ast.Assign) else [n.target]
            for t in tg:
                for nm in ast.walk(t):
                    if isinstance(nm, ast.Name) and nm.id in ("data", "value_hash") \
                            and n not in (b[1].body[0], b[3], st.body[1]):
                        fail(f"record_value: unexpected assignment {src(n)!r}", n)
    return dict(max_measure=max_measure, max_cmp=max_cmp, off_measure=off_measure, off_cmp=off_cmp,
                placeholder=placeholder, existing_row_kept=True), pin(w)


def _in_value_store(db):
    fn = _method(db, "Value", "in_value_store")
    if [src(d) for d in fn.decorator_list] != ["property"]:
        fail("Value.in_value_store is not a property", fn)
    b = body_nodoc(fn)
    if not (len(b) == 1 and isinstance(b[0], ast.Return) and isinstance(b[0].value, ast.Compare)):
        fail("Value.in_value_store: expected a single `return len(self.value) <cmp> <int>`", fn)
    c = b[0].value
    if not (len(c.ops) == 1 and src(c.left) == "len(self.value)" and type(c.ops[0]) in CMP
            and isinstance(c.comparators[0], ast.Constant) and type(c.comparators[0].value) is int):
        fail(f"Value.in_value_store: unrecognised test {src(c)!r}", fn)
    return CMP[type(c.ops[0])], c.comparators[0].value


GET_VALUE_DATA = [
    "if not value_row.in_value_store:\n    return (value_row.value, True)\n"
    "elif self.value_store:\n    return self.value_store.get(value_row.value_hash)\n"
    "else:\n    raise AssertionError('ValueStore is not defined.')"]
GET_VALUE_INNER = [
    "data, has_value = self._get_value_data(value_row)",
    "if not has_value:\n    return (None, False)",
    "return self._deserialize_value(value_row.type, data)"]


def _exact(fn, expected, what):
    got = [src(s) for s in body_nodoc(fn)]
    if got != expected:
        fail(f"{what}: body changed:\n" + "\n".join(got), fn)


def _value_store(vs):
    put = _method(vs, "ValueStore", "put")
    b = body_nodoc(put)
    skips = False
    if b and src(b[0]) == "if self.has(value_hash):\n    return":
        skips = True
        b = b[1:]
    if [src(s) for s in b] != ["with File(self.get_value_path(value_hash)).open('wb') as out:\n    out.write(data)"]:
        fail("ValueStore.put: unrecognised body", put)
    get = _method(vs, "ValueStore", "get")
    b = body_nodoc(get)
    if not (len(b) == 2 and src(b[0]) == "file = File(self.get_value_path(value_hash))" and isinstance(b[1], ast.Try)):
        fail("ValueStore.get: unrecognised body", get)
    t = b[1]
    if not (len(t.body) == 1 and src(t.body[0]) == "with file.open('rb') as infile:\n    return (infile.read(), True)"
            and len(t.handlers) == 1 and src(t.handlers[0].type) == "FileNotFoundError" and not t.orelse
            and not t.finalbody and len(t.handlers[0].body) == 1 and isinstance(t.handlers[0].body[0], ast.Return)):
        fail("ValueStore.get: unrecognised try/except", t)
    r = t.handlers[0].body[0].value
    if not (isinstance(r, ast.Tuple) and len(r.elts) == 2 and isinstance(r.elts[0], ast.Constant)
            and r.elts[0].value == b"" and isinstance(r.elts[1], ast.Constant) and type(r.elts[1].value) is bool):
        fail(f"ValueStore.get: missing-file result {src(r)!r} is not (b'', <bool>)", r)
    return skips, (r.elts[1].value is False)


def _config_reads(db):
    init = _method(db, "RedunBackendDb", "__init__")
    want = {
        "self.value_store_min_size: int = int(config.get('value_store_min_size', str(DEFAULT_VALUE_STORE_MIN_SIZE)))",
        "self._max_value_size: int = int(config.get('max_value_size', str(DEFAULT_MAX_VALUE_SIZE)))",
        "self.value_store: ValueStore | None = None",
        "self.value_store = ValueStore(value_store_path)",
    }
    have = {src(n) for n in ast.walk(init) if isinstance(n, (ast.Assign, ast.AnnAssign))}
    missing = want - have
    if missing:
        fail("RedunBackendDb.__init__: configuration reads changed, missing: " + "; ".join(sorted(missing)), init)
    # nothing else in the class assigns these attributes
    cls = find_class(db, "RedunBackendDb")
    for n in ast.walk(cls):
        if isinstance(n, (ast.Assign, ast.AnnAssign, ast.AugAssign)):
            tg = n.targets if isinstance(n, ast.Assign) else [n.target]
            for t in tg:
                if src(t) in ("self.value_store", "self.value_store_min_size", "self._max_value_size") \
                        and src(n) not in want:
                    fail(f"RedunBackendDb: unexpected assignment {src(n)!r}", n)


def _bytes_overhead():
    """CPython fact used by the offload test: sys.getsizeof(b) == len(b) + k for bytes objects."""
    ks = {sys.getsizeof(bytes(n)) - n for n in (0, 1, 2, 7, 8, 9, 100, 1023, 1024, 70000)}
    if len(ks) != 1:
        fail(f"sys.getsizeof(bytes) is not len + constant on this interpreter: {sorted(ks)}")
    return ks.pop()


def _pinned(db, vs, val, hashing):
    """name -> node of everything that is hand-modelled and only pinned by shape."""
    return {
        "db.get_value": _method(db, "RedunBackendDb", "get_value"),
        "db._deserialize_value": _method(db, "RedunBackendDb", "_deserialize_value"),
        "vs.__init__": _method(vs, "ValueStore", "__init__"),
        "vs.get_value_path": _method(vs, "ValueStore", "get_value_path"),
        "vs.has": _method(vs, "ValueStore", "has"),
        "value.ProxyValue.get_hash": _method(val, "ProxyValue", "get_hash"),
        "value.ProxyValue.serialize": _method(val, "ProxyValue", "serialize"),
        "value.Value.get_hash": _method(val, "Value", "get_hash"),
        "value.Value.serialize": _method(val, "Value", "serialize"),
        "value.Value.deserialize": _method(val, "Value", "deserialize"),
        "value.FileCache._serialize": _method(val, "FileCache", "_serialize"),
        "value.FileCache._deserialize": _method(val, "FileCache", "_deserialize"),
        "value.FileCache.serialize": _method(val, "FileCache", "serialize"),
        "value.FileCache.deserialize": _method(val, "FileCache", "deserialize"),
        "value.TypeRegistry.get_value": _method(val, "TypeRegistry", "get_value"),
        "value.TypeRegistry.deserialize": _method(val, "TypeRegistry", "deserialize"),
        "hashing.hash_bytes": find_func(hashing, "hash_bytes"),
        "hashing.hash_tag_bytes": find_func(hashing, "hash_tag_bytes"),
    }


def extract():
    db, vs, val, hashing = load(DB), load(VS), load(VAL), load(HASHING)
    cfg, session_pin = _record_value(db)
    cfg["in_store_cmp"], cfg["in_store_len"] = _in_value_store(db)
    _exact(_method(db, "RedunBackendDb", "_get_value_data"), GET_VALUE_DATA, "_get_value_data")
    _exact(_method(db, "RedunBackendDb", "_get_value"), GET_VALUE_INNER, "_get_value")
    cfg["put_skips_existing"], cfg["missing_is_absent"] = _value_store(vs)
    _config_reads(db)
    cfg["bytes_overhead"] = _bytes_overhead()
    pins = {k: pin(n) for k, n in _pinned(db, vs, val, hashing).items()}
    pins["db.record_value.session_block"] = session_pin
    return cfg, pins


def cq_bytes(b: bytes) -> str:
    return "(bs [" + ";".join(str(x) for x in b) + "]%N)"


def translate(pins=None):
    pins = pins if pins is not None else json.loads(PINS_FILE.read_text())
    cfg, got = extract()
    for k, v in got.items():
        if pins.get(k) != v:
            fail(f"{k}: shape changed (pin {v}, expected {pins.get(k)}); the hand-written model is no longer "
                 f"known to match")
    extra = set(pins) - set(got)
    if extra:
        fail(f"pins file names unknown functions: {sorted(extra)}")
    tf = lambda x: "true" if x else "false"  # noqa: E731
    v = ["(* GENERATED by translate/tr_valuestore.py from /repo/redun/backends/db/__init__.py and",
         "   /repo/redun/backends/value_store.py -- do not edit *)",
         "From Coq Require Import List ZArith NArith Ascii.",
         "From RV Require Import Base.Lit Model.ValueStore.",
         "Import ListNotations.",
         "Definition gen : vs_code := {|",
         f"  max_measure := {cfg['max_measure']}; max_cmp := {cfg['max_cmp']};",
         f"  off_measure := {cfg['off_measure']}; off_cmp := {cfg['off_cmp']};",
         f"  placeholder := {cq_bytes(cfg['placeholder'])};",
         f"  in_store_cmp := {cfg['in_store_cmp']}; in_store_len := ({cfg['in_store_len']})%Z;",
         f"  put_skips_existing := {tf(cfg['put_skips_existing'])};",
         f"  missing_is_absent := {tf(cfg['missing_is_absent'])};",
         f"  existing_row_kept := {tf(cfg['existing_row_kept'])};",
         f"  bytes_overhead := ({cfg['bytes_overhead']})%Z",
         "|}.", ""]
    return "\n".join(v), cfg


TIE = """(* GENERATED by translate/tr_valuestore.py -- do not edit *)
From RV Require Import Model.ValueStore Gen.C31Gen.
(* The theorems of Props/C31.v are about [shipped]; this is the tie to what /repo says now. *)
Lemma C31_tie : gen = shipped.
Proof. vm_compute. reflexivity. Qed.
"""


if __name__ == "__main__":
    if len(sys.argv) > 1 and sys.argv[1] == "--pins":
        print(json.dumps(extract()[1], indent=1))
    else:
        text, cfg = translate()
        sys.stdout.write(text)
        print(cfg, file=sys.stderr)
