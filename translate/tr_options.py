"""Translator for the task-option machinery (C27) -> coq/Gen/C27Gen.v  (fail closed).

Extracted (and tied to the configurations the theorems of Props/C27.v are about):
  redun/scheduler.py  Job.get_raw_options      -> merge_order (the `**` items of the returned dict display, in order)
  redun/task.py       Task.options             -> keeps_exports (is `export_options=set(self._export_options)` passed on?)
  redun/task.py       task() decorator         -> deco_synonym (does it add `cache_scope` when `cache` is exported?)
  redun/scheduler.py  needs_root_task          -> root_checks_options (are the options searched for expressions?)
Recognised statement by statement (exactly one accepted shape; anything else fails closed):
  redun/scheduler.py  Job.__init__ (options / export_options / eval_options), Job.get_export_options,
                      Job.recording_provenance, the TaskExpression branch of Scheduler._evaluate_apply
                      (scheduler-imposed options, option evaluation), Scheduler._run (`self._use_cache = cache`)
  redun/task.py       Task.export_options, Task.__call__, Task.get_task_options, the option normalisation and the
                      automatic export of `prov` in Task._validate, Task.__init__ (the three option attributes)
  redun/expression.py TaskExpression.__init__ (`_options`, `_export_options`)
Pinned by shape (hand-modelled, tied by the correspondence run):
  redun/scheduler.py  Job.get_options
"""
from __future__ import annotations

import ast
import sys

from .astutil import TranslateError, body_nodoc, fail, find_class, find_func, load, pin, src  # noqa: F401

PINNED = {"Job.get_options": ("redun/scheduler.py", "Job", "get_options")}

LAYERS = {"self.task.get_task_options()": "LDef", "self.expr._options": "LCall", "self.options": "LImp"}


def stmts(fn):
    return [src(s) for s in body_nodoc(fn)]


def assigns_to(scope, target):
    """every statement in `scope` that (aug)assigns `target`"""
    out = []
    for n in ast.walk(scope):
        if isinstance(n, ast.Assign) and any(src(t) == target for t in n.targets):
            out.append(n)
        elif isinstance(n, (ast.AnnAssign, ast.AugAssign)) and src(n.target) == target:
            out.append(n)
    return out


def rhs(n):
    return src(n.value)


# ---------------------------------------------------------------------------- Job
def tr_get_raw_options(mod):
    fn = find_func(mod, "get_raw_options", cls="Job")
    if [a.arg for a in fn.args.args] != ["self"] or fn.decorator_list:
        fail("Job.get_raw_options: signature changed", fn)
    body = [s for s in body_nodoc(fn) if not isinstance(s, ast.Assert)]
    if len(body) != 2:
        fail("Job.get_raw_options: expected an assignment and a return", fn)
    st, ret = body
    if not (isinstance(st, ast.Assign) and len(st.targets) == 1 and isinstance(st.targets[0], ast.Name)
            and src(st.value) == "self.parent_job.get_export_options() if self.parent_job else {}"):
        fail(f"Job.get_raw_options: unrecognised inherited options {src(st)!r}", st)
    inh = st.targets[0].id
    if not (isinstance(ret, ast.Return) and isinstance(ret.value, ast.Dict) and all(k is None for k in ret.value.keys)):
        fail(f"Job.get_raw_options: the result is not a dict display of ** items: {src(ret)!r}", ret)
    order = []
    for v in ret.value.values:
        s = src(v)
        if s == inh:
            order.append("LInh")
        elif s in LAYERS:
            order.append(LAYERS[s])
        else:
            fail(f"Job.get_raw_options: unrecognised layer {s!r}", v)
    return order


def tr_job(mod):
    cls = find_class(mod, "Job")
    init = find_func(mod, "__init__", cls="Job")
    # the three option attributes: where they are assigned, anywhere in the class
    got = {t: [src(n) for n in assigns_to(cls, t)] for t in ("self.options", "self.export_options", "self.eval_options")}
    exp = {
        "self.options": ["self.options: dict[str, Any] = options or {}"],
        "self.export_options": ["self.export_options: set[str] = task._export_options | expr._export_options",
                                "self.export_options |= parent_job.export_options"],
        "self.eval_options": ["self.eval_options: Optional[dict] = None", "self.eval_options = options"],
    }
    for t in exp:
        if got[t] != exp[t]:
            fail(f"class Job: assignments to {t} are {got[t]!r}, expected {exp[t]!r}", cls)
    aug = [n for n in ast.walk(init) if isinstance(n, ast.If) and src(n.test) == "parent_job"
           and [src(s) for s in n.body] == ["self.export_options |= parent_job.export_options"] and not n.orelse]
    if len(aug) != 1:
        fail("Job.__init__: `if parent_job: self.export_options |= parent_job.export_options` not found", init)
    if stmts(find_func(mod, "get_export_options", cls="Job")) != [
            "return {key: value for key, value in self.get_options().items() if key in self.export_options}"]:
        fail("Job.get_export_options: unrecognised body")
    if stmts(find_func(mod, "recording_provenance", cls="Job")) != ["return self.get_options().get('prov', True)"]:
        fail("Job.recording_provenance: unrecognised body")


# ---------------------------------------------------------------------------- Scheduler._evaluate_apply
APPLY_ELSE = [
    "job_options: dict[str, Any] = {}",
    "if not self._use_cache:\n    job_options['cache_scope'] = CacheScope.CSE",
    "if parent_job and (not parent_job.recording_provenance()):\n    job_options['prov'] = False",
    "job = Job(task, expr, parent_job=parent_job, execution=self._current_execution, options=job_options)",
    "self._jobs.add(job)",
    "<def options_then>",
    "default_kwargs_promise: Promise = self.evaluate(job.get_raw_options(), parent_job=parent_job).then(options_then)",
    "args_promise = self.evaluate((expr.args, expr.kwargs), parent_job=parent_job)",
    "<def args_then>",
    "promise = Promise.all([args_promise, default_kwargs_promise]).then(args_then)",
]
OPTIONS_THEN = [
    "job.eval_options = job_options",
    "if not job.recording_provenance():\n    job.eval_options['cache_scope'] = CacheScope.NONE",
]


def tr_evaluate_apply(mod):
    fn = find_func(mod, "_evaluate_apply", cls="Scheduler")
    branches = [n for n in ast.walk(fn) if isinstance(n, ast.If) and src(n.test) == "isinstance(expr, TaskExpression)"]
    if len(branches) != 1:
        fail("Scheduler._evaluate_apply: expected exactly one `isinstance(expr, TaskExpression)` branch", fn)
    br = branches[0].body
    if not (len(br) == 2 and src(br[0]) == "task = self.task_registry.get(expr.task_name)" and isinstance(br[1], ast.If)
            and src(br[1].test) == "not task"):
        fail("Scheduler._evaluate_apply: TaskExpression branch is not `task = registry.get(..); if not task: .. else: ..`",
             branches[0])
    body = br[1].orelse
    got = []
    for s in body:
        if isinstance(s, ast.FunctionDef):
            got.append(f"<def {s.name}>")
        else:
            got.append(src(s))
    # the two imposing statements set different keys: either order is the same dict
    if got[1:3] == [APPLY_ELSE[2], APPLY_ELSE[1]]:
        got[1:3] = APPLY_ELSE[1:3]
    if got != APPLY_ELSE:
        for a, b in zip(got + ["<end>"], APPLY_ELSE + ["<end>"]):
            if a != b:
                fail(f"Scheduler._evaluate_apply: unrecognised statement in the TaskExpression branch: {a!r} (expected {b!r})",
                     br[1])
    then = [s for s in body if isinstance(s, ast.FunctionDef) and s.name == "options_then"][0]
    if [a.arg for a in then.args.args] != ["job_options"]:
        fail("options_then: signature changed", then)
    tb = stmts(then)
    if tb[:2] != OPTIONS_THEN:
        fail(f"options_then: unrecognised first statements {tb[:2]!r}", then)
    for s in body_nodoc(then)[2:]:
        for n in ast.walk(s):
            if isinstance(n, ast.Attribute) and n.attr in ("eval_options", "options") and isinstance(n.ctx, ast.Store):
                fail("options_then: options are modified after the recognised statements", n)
            if isinstance(n, ast.Subscript) and isinstance(n.ctx, ast.Store) and "options" in src(n.value):
                fail("options_then: options are modified after the recognised statements", n)
    # the cache switch of Scheduler.run
    sched = find_class(mod, "Scheduler")
    use = [src(n) for n in assigns_to(sched, "self._use_cache")]
    if use != ["self._use_cache = True", "self._use_cache = cache"]:
        fail(f"class Scheduler: assignments to self._use_cache are {use!r}", sched)


def tr_needs_root_task(mod) -> bool:
    fn = find_func(mod, "needs_root_task")
    body = stmts(fn)
    head = [
        "if not isinstance(expr, TaskExpression) or isinstance(expr, SchedulerExpression):\n    return True",
        "task = task_registry.get(expr.task_name)",
    ]
    if body[:2] != head:
        fail(f"needs_root_task: unrecognised head {body[:2]!r}", fn)
    rest = [s for s in body_nodoc(fn)[2:] if not isinstance(s, ast.Assert)]
    if [src(s) for s in rest[:1]] != ["default_kwargs = get_arg_defaults(task, expr.args, expr.kwargs)"] or len(rest) != 2:
        fail("needs_root_task: unrecognised body", fn)
    ret = src(rest[1])
    tmpl = "return any((isinstance(arg, Expression) for arg in iter_nested_value(%s)))"
    if ret == tmpl % "(expr.args, expr.kwargs, default_kwargs)":
        return False
    if ret == tmpl % "(expr.args, expr.kwargs, default_kwargs, task.get_task_options(), expr._options)":
        return True
    fail(f"needs_root_task: unrecognised result {ret!r}", rest[1])


def tr_scheduler_run(mod):
    """both entry points wrap with root_task exactly when needs_root_task says so"""
    sched = find_class(mod, "Scheduler")
    uses = [n for n in ast.walk(sched) if isinstance(n, ast.If) and src(n.test) == "needs_root_task(self.task_registry, expr)"]
    if len(uses) < 1 or any([src(s) for s in n.body] != ["expr = root_task(quote(expr))"] or n.orelse for n in uses):
        fail("Scheduler.run: `if needs_root_task(...): expr = root_task(quote(expr))` not found", sched)
    rt = find_func(mod, "root_task")
    if stmts(rt) != ["return expr.eval()"] or [src(d) for d in rt.decorator_list] != ["task(name='root_task', namespace='redun')"]:
        fail("root_task: definition changed (it must have no options of its own)", rt)


# ---------------------------------------------------------------------------- Task
CTOR_COMMON = ["name=self.name", "namespace=self.namespace", "version=self.version", "compat=self.compat",
               "script=self.script", "source=self.source", "task_options_base=self._task_options_base",
               "task_options_override=new_task_options_update"]
UPDATE = "new_task_options_update = {**self._task_options_override, **task_options_update}"


def ctor_keywords(ret, what):
    if not (isinstance(ret, ast.Return) and isinstance(ret.value, ast.Call) and src(ret.value.func) == "self.__class__"
            and [src(a) for a in ret.value.args] == ["self.func"]):
        fail(f"{what}: does not return self.__class__(self.func, ...)", ret)
    kws = [f"{k.arg}={src(k.value)}" for k in ret.value.keywords]
    # a repair of C17 (hash_includes not forwarded) may add this keyword; it does not concern options
    return [k for k in kws if k != "hash_includes=self._hash_includes"]


def tr_task_options(mod) -> bool:
    fn = find_func(mod, "options", cls="Task")
    a = fn.args
    if [x.arg for x in a.args] != ["self"] or not a.kwarg or a.kwarg.arg != "task_options_update" or a.vararg or a.kwonlyargs \
            or fn.decorator_list:
        fail("Task.options: signature changed", fn)
    body = body_nodoc(fn)
    if len(body) != 2 or src(body[0]) != UPDATE:
        fail(f"Task.options: unrecognised body {[src(s) for s in body]!r}", fn)
    kws = ctor_keywords(body[1], "Task.options")
    if kws == CTOR_COMMON:
        return False
    # (passing the set object itself would let the new Task's _validate add `prov` to the original's set)
    if kws == CTOR_COMMON + ["export_options=set(self._export_options)"]:
        return True
    fail(f"Task.options: unrecognised constructor keywords {kws!r}", body[1])


def tr_task_export_options(mod):
    fn = find_func(mod, "export_options", cls="Task")
    a = fn.args
    if [x.arg for x in a.args] != ["self"] or not a.kwarg or a.kwarg.arg != "task_options_update" or a.vararg or a.kwonlyargs \
            or fn.decorator_list:
        fail("Task.export_options: signature changed", fn)
    body = body_nodoc(fn)
    exp = [UPDATE,
           "export_options = self._export_options | set(task_options_update.keys())",
           "if 'cache' in export_options:\n    export_options.add('cache_scope')"]
    if len(body) != 4 or [src(s) for s in body[:3]] != exp:
        fail(f"Task.export_options: unrecognised body {[src(s) for s in body[:3]]!r}", fn)
    kws = ctor_keywords(body[3], "Task.export_options")
    if kws != CTOR_COMMON + ["export_options=export_options"]:
        fail(f"Task.export_options: unrecognised constructor keywords {kws!r}", body[3])


NORMALISE = ("for options_dict in [self._task_options_base, self._task_options_override]:\n"
             "    if 'cache' in options_dict:\n"
             "        cache_value = options_dict.pop('cache')\n"
             "        options_dict['cache_scope'] = CacheScope.BACKEND if cache_value else CacheScope.CSE\n"
             "    if 'cache_scope' in options_dict:\n"
             "        options_dict['cache_scope'] = CacheScope(options_dict['cache_scope'])\n"
             "    if 'check_valid' in options_dict:\n"
             "        options_dict['check_valid'] = CacheCheckValid(options_dict['check_valid'])")
AUTO_PROV = ("if 'prov' in self._task_options_base or 'prov' in self._task_options_override:\n"
             "    self._export_options.add('prov')")


def tr_task_init(mod):
    cls = find_class(mod, "Task")
    init = find_func(mod, "__init__", cls="Task")
    # (deserialisation, Task.__setstate__, is outside the model: tasks of a running workflow are built by __init__)
    got = {t: [src(n) for n in assigns_to(init, t)] for t in
           ("self._task_options_base", "self._task_options_override", "self._export_options")}
    exp = {
        "self._task_options_base": ["self._task_options_base = task_options_base or {}"],
        "self._task_options_override": ["self._task_options_override = task_options_override or {}"],
        "self._export_options": ["self._export_options: set[str] = export_options or set()"],
    }
    for t in exp:
        if got[t] != exp[t]:
            fail(f"class Task: assignments to {t} are {got[t]!r}, expected {exp[t]!r}", cls)
    if not any(src(s) == "self._validate()" for s in body_nodoc(init)):
        fail("Task.__init__: does not call self._validate()", init)
    val = stmts(find_func(mod, "_validate", cls="Task"))
    if val.count(NORMALISE) != 1:
        fail("Task._validate: the option normalisation loop (cache -> cache_scope) is not the recognised one")
    if val.count(AUTO_PROV) != 1 or val.index(AUTO_PROV) < val.index(NORMALISE):
        fail("Task._validate: the automatic export of `prov` is not the recognised statement")
    for s in body_nodoc(find_func(mod, "_validate", cls="Task")):
        t = src(s)
        if t in (NORMALISE, AUTO_PROV):
            continue
        for n in ast.walk(s):
            if isinstance(n, ast.Attribute) and n.attr in ("_task_options_base", "_task_options_override", "_export_options") \
                    and not isinstance(n.ctx, ast.Load):
                fail("Task._validate: option attributes are modified outside the recognised statements", n)
            if isinstance(n, ast.Call) and isinstance(n.func, ast.Attribute) and n.func.attr in ("pop", "update", "add", "clear",
                                                                                                "setdefault", "discard", "remove"):
                fail(f"Task._validate: unrecognised mutation {src(n)!r}", n)
    if stmts(find_func(mod, "get_task_options", cls="Task")) != [
            "return {**self._task_options_base, **self._task_options_override}"]:
        fail("Task.get_task_options: unrecognised body")
    call = find_func(mod, "__call__", cls="Task")
    calls = [n for n in ast.walk(call) if isinstance(n, ast.Call) and src(n.func) == "TaskExpression"]
    if len(calls) != 1:
        fail("Task.__call__: expected one TaskExpression(...)", call)
    kws = {k.arg: src(k.value) for k in calls[0].keywords}
    if [src(a) for a in calls[0].args] != ["self.fullname", "args", "kwargs"] or \
            kws.get("task_options") != "self._task_options_override" or kws.get("export_options") != "self._export_options":
        fail(f"Task.__call__: unrecognised TaskExpression arguments {src(calls[0])!r}", call)


DECO_HEAD = ["nonlocal namespace"]
DECO_IF_SHIPPED = ("if export_options:\n"
                   "    task_options_base.update(export_options)\n"
                   "    export_option_keys = set(export_options.keys())\n"
                   "else:\n"
                   "    export_option_keys = None")
DECO_IF_FIXED = ("if export_options:\n"
                 "    task_options_base.update(export_options)\n"
                 "    export_option_keys = set(export_options.keys())\n"
                 "    if 'cache' in export_option_keys:\n"
                 "        export_option_keys.add('cache_scope')\n"
                 "else:\n"
                 "    export_option_keys = None")


def tr_task_decorator(mod) -> bool:
    tasks = [n for n in mod.body if isinstance(n, ast.FunctionDef) and n.name == "task"
             and not any(src(d) == "overload" for d in n.decorator_list)]
    if len(tasks) != 1:
        fail("task(): expected exactly one non-overload definition")
    fn = tasks[0]
    if not fn.args.kwarg or fn.args.kwarg.arg != "task_options_base" or "export_options" not in [a.arg for a in fn.args.kwonlyargs]:
        fail("task(): signature changed", fn)
    decos = [n for n in body_nodoc(fn) if isinstance(n, ast.FunctionDef) and n.name == "deco"]
    if len(decos) != 1:
        fail("task(): inner deco() not found", fn)
    body = body_nodoc(decos[0])
    texts = [src(s) for s in body]
    if texts[:1] != DECO_HEAD or len(body) != 5:
        fail(f"task().deco: unrecognised body {texts!r}", decos[0])
    if texts[1] == DECO_IF_SHIPPED:
        synonym = False
    elif texts[1] == DECO_IF_FIXED:
        synonym = True
    else:
        fail(f"task().deco: unrecognised export_options handling {texts[1]!r}", body[1])
    st = body[2]
    ok = (isinstance(st, (ast.Assign, ast.AnnAssign)) and isinstance(st.value, ast.Call) and src(st.value.func) == "Task"
          and [src(a) for a in st.value.args] == ["func"])
    if ok:
        kws = {k.arg: src(k.value) for k in st.value.keywords}
        ok = kws.get("task_options_base") == "task_options_base" and kws.get("export_options") == "export_option_keys" \
            and "task_options_override" not in kws
    if not ok or texts[3:] != ["get_task_registry().add(_task)", "return _task"]:
        fail(f"task().deco: unrecognised Task construction {texts[2:]!r}", st)
    return synonym


def tr_task_expression(mod):
    init = find_func(mod, "__init__", cls="TaskExpression")
    cls = find_class(mod, "TaskExpression")
    got = {t: [src(n) for n in assigns_to(init, t)] for t in ("self._options", "self._export_options")}
    exp = {"self._options": ["self._options = task_options or {}"],
           "self._export_options": ["self._export_options = export_options or set()"]}
    for t in exp:
        if got[t] != exp[t]:
            fail(f"class TaskExpression: assignments to {t} are {got[t]!r}, expected {exp[t]!r}", init)


# ---------------------------------------------------------------------------- driver
def translate(pins: dict | None = None):
    sched = load("redun/scheduler.py")
    task = load("redun/task.py")
    expr = load("redun/expression.py")
    order = tr_get_raw_options(sched)
    tr_job(sched)
    tr_evaluate_apply(sched)
    root = tr_needs_root_task(sched)
    tr_scheduler_run(sched)
    keeps = tr_task_options(task)
    tr_task_export_options(task)
    tr_task_init(task)
    syn = tr_task_decorator(task)
    tr_task_expression(expr)
    got = {}
    for name, (path, cls, fn) in PINNED.items():
        got[name] = pin(find_func({"redun/scheduler.py": sched}[path], fn, cls=cls))
    if pins is not None:
        for name, exp in pins.items():
            if got.get(name) != exp:
                fail(f"{name}: shape changed (pin {got.get(name)} != {exp}); the hand-written model is no longer known to match")
    flags = {"keeps_exports": keeps, "deco_synonym": syn, "root_checks_options": root}
    b = lambda x: "true" if x else "false"  # noqa: E731
    v = []
    v.append("(* GENERATED by translate/tr_options.py from /repo/redun/{scheduler,task,expression}.py -- do not edit *)")
    v.append("From Coq Require Import List.")
    v.append("From RV Require Import Model.Options.")
    v.append("Import ListNotations.")
    v.append("Definition gen : opt_cfg := {|")
    v.append(f"  merge_order := [{'; '.join(order)}];")
    v.append(f"  keeps_exports := {b(keeps)};")
    v.append(f"  deco_synonym := {b(syn)};")
    v.append(f"  root_checks_options := {b(root)}")
    v.append("|}.")
    v.append("(* The precedence/accumulation/evaluation theorems of Props/C27.v hold for every configuration with the")
    v.append("   documented merge order; the three flags select, one by one, the refuted (false) or the repaired (true) theorem. *)")
    v.append("Lemma C27_tie_order : merge_order gen = std_order.")
    v.append("Proof. reflexivity. Qed.")
    for f, val in flags.items():
        v.append(f"Lemma C27_tie_{f} : {f} gen = {b(val)}.")
        v.append("Proof. reflexivity. Qed.")
    if not (keeps or syn or root):
        v.append("Lemma C27_tie : gen = shipped.")
        v.append("Proof. reflexivity. Qed.")
    elif keeps and syn and root:
        v.append("Lemma C27_tie : gen = fixed.")
        v.append("Proof. reflexivity. Qed.")
    return "\n".join(v) + "\n", flags


if __name__ == "__main__":
    text, flags = translate()
    sys.stdout.write(text)
    print(flags, file=sys.stderr)
