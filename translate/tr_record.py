"""Translator for call-node recording and the shallow cache lookup (C03, C22) -> coq/Gen/CxxGen.v.
Fail closed: anything that is not one of the recognised statement shapes raises TranslateError.

Extracted structurally (tied to the model by `reflexivity`):
  * RedunBackendDb.record_call_node: decorator list, and its body as the ordered *step list* the
    model interprets (Model/Recording.v `step`/`bstep`): the exists-guard, CallNode add, CallEdge
    loop, `_record_args` / `_record_arg_values` calls, the task-values loop, the CallSubtreeTask
    loop (all rows / only missing rows) and every `session.commit()`, with their nesting;
  * RedunBackendDb._get_call_node: the condition of the `current_call_nodes` comprehension
    (subset test alone, or subset test and "own task hash among the rows") -> c_own;
  * Scheduler._resolve_job_main_thread: the `if job.call_hash:` branch, one of two shapes
    (check_valid-dependent calc_subtree_tasks / always from the backend / from the backend unless the parent job
    was served from the cache) -> c_hit;
  * CallNodeSerializer.serialize: the keys of the serialised record (the model's import creates
    exactly CallNode, CallEdge and Argument rows and no CallSubtreeTask rows);
  * the default of `db_retries`.
Hand-modelled and pinned by shape (pins_C03.json; compared with the real code by the correspondence
runs): db_retry, record_value, _record_args (shipped / repaired), _record_arg_values (repaired),
get_subtree_tasks, put_records, CallNodeSerializer.deserialize, Job.calc_subtree_tasks,
Scheduler._get_subtree_tasks, the remainder of _get_call_node.
"""
from __future__ import annotations

import ast
import json
from pathlib import Path

from .astutil import TranslateError, body_nodoc, fail, find_class, find_func, load, pin, src

PINS_FILE = Path(__file__).resolve().parent / "pins_C03.json"
DB = "redun/backends/db/__init__.py"
SCHED = "redun/scheduler.py"
SER = "redun/backends/db/serializers.py"

SERIAL_KEYS = ["_version", "_type", "call_hash", "task_name", "task_hash", "args_hash", "value_hash",
               "timestamp", "args", "children"]


def _n(node) -> str:
    return src(node)


def _decorators(fn):
    return [_n(d) for d in fn.decorator_list]


# ------------------------------------------------------------------ record_call_node
ADD_NODE = ("session.add(CallNode(call_hash=call_hash, task_name=task_name, task_hash=task_hash, "
            "args_hash=args_hash, value_hash=result_hash))")
RECORDED = ("recorded_child_hashes = {call_hash for call_hash, in filter_in(session.query(CallNode.call_hash), "
            "CallNode.call_hash, child_call_hashes)}")
EDGES = ("for i, child_call_hash in enumerate(child_call_hashes):\n"
         "    if child_call_hash in recorded_child_hashes:\n"
         "        session.add(CallEdge(parent_id=call_hash, child_id=child_call_hash, call_order=i))")
ARGS_SHIPPED = "self._record_args(call_hash, expr_args, eval_args)"
ARG_VALUES = "arg_rows = self._record_arg_values(expr_args, eval_args)"
ARGS_FIXED = "self._record_args(call_hash, arg_rows)"
TASK_VALUES = ("if recorded_child_hashes < set(child_call_hashes):\n"
               "    for task in subtree_tasks:\n"
               "        self.record_value(task)")
SUBS_ALL = ("for task in subtree_tasks:\n"
            "    session.add(CallSubtreeTask(call_hash=call_hash, task_hash=task.hash))")
RECORDED_TASKS = ("recorded_task_hashes = {task_hash for task_hash, in session.query(CallSubtreeTask.task_hash)"
                  ".filter(CallSubtreeTask.call_hash == call_hash)}")
SUBS_MISSING = ("for task in subtree_tasks:\n"
                "    if task.hash not in recorded_task_hashes:\n"
                "        session.add(CallSubtreeTask(call_hash=call_hash, task_hash=task.hash))")
COMMIT = "session.commit()"
GUARD = "not session.query(CallNode).filter_by(call_hash=call_hash).first()"


def _basic_steps(stmts, where):
    """Statements -> list of bstep names. `recorded_child_hashes = ...` / `recorded_task_hashes = ...`
    are pure queries: they produce no step but must precede their uses."""
    out = []
    seen_recorded = seen_rtasks = False
    for st in stmts:
        t = _n(st)
        if t == RECORDED:
            seen_recorded = True
        elif t == RECORDED_TASKS:
            seen_rtasks = True
        elif t == ADD_NODE:
            out.append("BAddNode")
        elif t == EDGES:
            if not seen_recorded:
                fail(f"record_call_node ({where}): CallEdge loop before recorded_child_hashes is computed", st)
            out.append("BAddEdges")
        elif t == ARGS_SHIPPED:
            out.append("BArgs")
        elif t == ARG_VALUES:
            out.append("BArgValues")
        elif t == ARGS_FIXED:
            if "BArgValues" not in out:
                fail(f"record_call_node ({where}): _record_args(call_hash, arg_rows) before arg_rows", st)
            out.append("BAddArgs")
        elif t == TASK_VALUES:
            if not seen_recorded:
                fail(f"record_call_node ({where}): task-values test before recorded_child_hashes is computed", st)
            out.append("BTaskValues")
        elif t == SUBS_ALL:
            out.append("(BAddSubs false)")
        elif t == SUBS_MISSING:
            if not seen_rtasks:
                fail(f"record_call_node ({where}): missing-rows loop before recorded_task_hashes is computed", st)
            out.append("(BAddSubs true)")
        elif t == COMMIT:
            out.append("BCommit")
        else:
            fail(f"record_call_node ({where}): unrecognised statement `{t[:120]}`", st)
    return out


def record_call_node_steps(mod):
    fn = find_func(mod, "record_call_node", cls="RedunBackendDb")
    if _decorators(fn) != ["db_retry"]:
        fail(f"record_call_node: decorators {_decorators(fn)}, expected ['db_retry']", fn)
    params = [a.arg for a in fn.args.args]
    if params != ["self", "task_name", "task_hash", "args_hash", "expr_args", "eval_args", "result_hash",
                  "child_call_hashes", "subtree_tasks"]:
        fail(f"record_call_node: parameters {params}", fn)
    body = body_nodoc(fn)
    if len(body) != 3:
        fail(f"record_call_node: expected 3 top-level statements, found {len(body)}", fn)
    if _n(body[0]) != "call_hash = hash_call_node(task_hash, args_hash, result_hash, child_call_hashes)":
        fail("record_call_node: call_hash is not hash_call_node(task_hash, args_hash, result_hash, child_call_hashes)", body[0])
    if _n(body[2]) != "return call_hash":
        fail("record_call_node: does not end with `return call_hash`", body[2])
    w = body[1]
    if not (isinstance(w, ast.With) and len(w.items) == 1 and _n(w.items[0].context_expr) == "self.with_session()"
            and w.items[0].optional_vars is not None and _n(w.items[0].optional_vars) == "session"):
        fail("record_call_node: expected `with self.with_session() as session:`", w)
    steps = []
    pending = []

    def flush():
        nonlocal pending
        for b in _basic_steps(pending, "top level"):
            steps.append(f"SB {b}")
        pending = []

    for st in w.body:
        if isinstance(st, ast.If) and _n(st.test) == GUARD:
            if st.orelse:
                fail("record_call_node: exists-guard has an else branch", st)
            flush()
            steps.append("SIfNew [" + "; ".join(_basic_steps(st.body, "inside the exists-guard")) + "]")
        else:
            pending.append(st)
    # statements at top level must be translated in order with the guard
    # (pending statements are flushed when a guard is met, and at the end)
    flush()
    return steps, fn


# ------------------------------------------------------------------ _get_call_node
SUBSET = "call_node2task_hashes[call_node.call_hash] <= scheduler_task_hashes"
OWN = "call_node.task_hash in call_node2task_hashes[call_node.call_hash]"
OWN_PARAM = "task_hash in call_node2task_hashes[call_node.call_hash]"


def get_call_node_own(mod):
    fn = find_func(mod, "_get_call_node", cls="RedunBackendDb")
    comps = [n for n in ast.walk(fn) if isinstance(n, ast.Assign) and _n(n.targets[0]) == "current_call_nodes"]
    if len(comps) != 1 or not isinstance(comps[0].value, ast.ListComp):
        fail("_get_call_node: expected one `current_call_nodes = [...]` list comprehension", fn)
    lc = comps[0].value
    if not (_n(lc.elt) == "call_node" and len(lc.generators) == 1 and _n(lc.generators[0].target) == "call_node"
            and _n(lc.generators[0].iter) == "call_nodes" and len(lc.generators[0].ifs) == 1):
        fail("_get_call_node: unexpected comprehension structure", lc)
    cond = lc.generators[0].ifs[0]
    if _n(cond) == SUBSET:
        own = False
    elif isinstance(cond, ast.BoolOp) and isinstance(cond.op, ast.And) and \
            sorted(_n(v) for v in cond.values) in (sorted([SUBSET, OWN]), sorted([SUBSET, OWN_PARAM])):
        # `task_hash` (the parameter) is the call node's task hash: the query filters on it
        if "filter_by(task_hash=task_hash, args_hash=args_hash)" not in _n(fn):
            fail("_get_call_node: call nodes are not filtered by task_hash=task_hash", fn)
        own = True
    else:
        fail(f"_get_call_node: unrecognised currentness condition `{_n(cond)}`", cond)
    # the rest of the function, with the condition blanked, is pinned
    import copy
    fn2 = copy.deepcopy(fn)
    for n in ast.walk(fn2):
        if isinstance(n, ast.ListComp) and _n(n.elt) == "call_node" and n.generators and _n(n.generators[0].iter) == "call_nodes":
            n.generators[0].ifs = [ast.Constant(value=True)]
    return own, fn, pin(fn2)


# ------------------------------------------------------------------ scheduler
HIT_SHIPPED = [
    "assert job.was_cached",
    "check_valid = job.get_option('check_valid', CacheCheckValid.FULL, as_type=CacheCheckValid)",
    "if check_valid == CacheCheckValid.FULL:\n    job.calc_subtree_tasks()\nelse:\n    job.subtree_tasks = self._get_subtree_tasks(job)",
]
HIT_FIXED = [
    "assert job.was_cached",
    "job.subtree_tasks.update(self._get_subtree_tasks(job))",
]


HIT_GUARDED = [
    "assert job.was_cached",
    "parent_job = job.parent_job",
    ast.unparse(ast.parse("if parent_job is not None and not parent_job.was_cached:\n"
                          "    job.subtree_tasks.update(self._get_subtree_tasks(job))").body[0]),
]


def scheduler_hit(mod):
    fn = find_func(mod, "_resolve_job_main_thread", cls="Scheduler")
    ifs = [n for n in body_nodoc(fn) if isinstance(n, ast.If) and _n(n.test) == "job.call_hash"]
    if len(ifs) != 1:
        fail("_resolve_job_main_thread: expected exactly one top-level `if job.call_hash:`", fn)
    got = [_n(s) for s in ifs[0].body]
    if got == HIT_SHIPPED:
        hit = "HOwn"
    elif got == HIT_FIXED:
        hit = "HBackend"
    elif got == HIT_GUARDED:
        hit = "HGuarded"
    else:
        fail(f"_resolve_job_main_thread: unrecognised `if job.call_hash:` branch {got}", ifs[0])
    # the else branch (the job ran): subtree_tasks = job.calc_subtree_tasks() is what is passed on
    els = [_n(s) for s in ifs[0].orelse]
    if "subtree_tasks = job.calc_subtree_tasks()" not in els:
        fail("_resolve_job_main_thread: else branch does not compute subtree_tasks = job.calc_subtree_tasks()", ifs[0])
    calls = [n for n in ast.walk(ifs[0]) if isinstance(n, ast.Call) and _n(n.func) == "self.backend.record_call_node"]
    if len(calls) != 1 or "subtree_tasks=subtree_tasks" not in _n(calls[0]) or "child_call_hashes=child_call_hashes" not in _n(calls[0]):
        fail("_resolve_job_main_thread: record_call_node is not called once with subtree_tasks/child_call_hashes", ifs[0])
    init = find_func(mod, "__init__", cls="Job")
    if not any(_n(s).replace("set[Task]", "").startswith("self.subtree_tasks") and _n(s).endswith("= {task}")
               for s in ast.walk(init) if isinstance(s, (ast.Assign, ast.AnnAssign))):
        fail("Job.__init__: subtree_tasks is not initialised to {task}", init)
    return hit


# ------------------------------------------------------------------ serializer
def serializer_keys(mod):
    cls = find_class(mod, "CallNodeSerializer")
    fn = [n for n in cls.body if isinstance(n, ast.FunctionDef) and n.name == "serialize"]
    if len(fn) != 1:
        fail("CallNodeSerializer.serialize not found", cls)
    rets = [n for n in ast.walk(fn[0]) if isinstance(n, ast.Return)]
    if len(rets) != 1 or not isinstance(rets[0].value, ast.Dict):
        fail("CallNodeSerializer.serialize: expected a single `return {...}`", fn[0])
    keys = []
    for k in rets[0].value.keys:
        if not (isinstance(k, ast.Constant) and isinstance(k.value, str)):
            fail("CallNodeSerializer.serialize: non-constant key", rets[0])
        keys.append(k.value)
    if keys != SERIAL_KEYS:
        fail(f"CallNodeSerializer.serialize: keys {keys}; the model's import writes CallNode, CallEdge and Argument "
             f"rows only (expected {SERIAL_KEYS})", rets[0])
    des = [n for n in cls.body if isinstance(n, ast.FunctionDef) and n.name == "deserialize"][0]
    made = sorted({_n(n.func) for n in ast.walk(des) if isinstance(n, ast.Call) and _n(n.func).startswith("db.")})
    if made != ["db.Argument", "db.ArgumentResult", "db.CallEdge", "db.CallNode"]:
        fail(f"CallNodeSerializer.deserialize creates {made}", des)
    return keys, des


def db_retries_default(mod):
    for n in ast.walk(find_class(mod, "RedunBackendDb")):
        if isinstance(n, (ast.Assign, ast.AnnAssign)) and _n(n.targets[0] if isinstance(n, ast.Assign) else n.target) == "self._db_retries":
            v = n.value
            if _n(v).startswith("int(config.get('db_retries', "):
                return int(ast.literal_eval(v.args[0].args[1]))
    fail("RedunBackendDb: default of db_retries not found")


# ------------------------------------------------------------------ main
SHIPPED_STEPS = ["SIfNew [BAddNode; BAddEdges; BArgs; BTaskValues; (BAddSubs false); BCommit]"]
FIXED_STEPS = ["SIfNew [BArgValues; BTaskValues; BAddNode; BAddEdges; BAddArgs]", "SB (BAddSubs true)", "SB BCommit"]


def extract(db_source=None, sched_source=None, ser_source=None):
    db = load(DB, db_source)
    sched = load(SCHED, sched_source)
    ser = load(SER, ser_source)
    steps, rcn_fn = record_call_node_steps(db)
    own, gcn_fn, gcn_rest_pin = get_call_node_own(db)
    hit = scheduler_hit(sched)
    keys, des_fn = serializer_keys(ser)
    retries = db_retries_default(db)
    pins = {
        "db.db_retry": pin(find_func(db, "db_retry")),
        "db.record_value": pin(find_func(db, "record_value", cls="RedunBackendDb")),
        "db._record_args": pin(find_func(db, "_record_args", cls="RedunBackendDb")),
        "db.get_subtree_tasks": pin(find_func(db, "get_subtree_tasks", cls="RedunBackendDb")),
        "db.put_records": pin(find_func(db, "put_records", cls="RedunBackendDb")),
        "db._get_call_node.rest": gcn_rest_pin,
        "ser.CallNodeSerializer.deserialize": pin(des_fn),
        "sched.Job.calc_subtree_tasks": pin(find_func(sched, "calc_subtree_tasks", cls="Job")),
        "sched.Scheduler._get_subtree_tasks": pin(find_func(sched, "_get_subtree_tasks", cls="Scheduler")),
    }
    try:
        pins["db._record_arg_values"] = pin(find_func(db, "_record_arg_values", cls="RedunBackendDb"))
    except TranslateError:
        pins["db._record_arg_values"] = None
    if _decorators(find_func(db, "record_value", cls="RedunBackendDb")) != ["db_retry"]:
        fail("record_value: decorators changed (the model nests its db_retry inside record_call_node's)")
    return {"steps": steps, "own": own, "hit": hit, "keys": keys, "retries": retries, "pins": pins}


def variant_of(x):
    if x["steps"] == SHIPPED_STEPS and not x["own"] and x["hit"] == "HOwn":
        return "shipped"
    if x["steps"] == FIXED_STEPS and x["own"] and x["hit"] == "HBackend":
        return "fixed"
    if x["steps"] == SHIPPED_STEPS and x["own"] and x["hit"] == "HBackend":
        return "mixed"
    if x["steps"] == SHIPPED_STEPS and x["own"] and x["hit"] == "HGuarded":
        return "guarded"
    return "other"


def pin_variant(v):
    """which of the per-variant pins (record_call_node's helpers) applies"""
    return "fixed" if v == "fixed" else "shipped"


def check_pins(x, pins):
    v = variant_of(x)
    for k, got in x["pins"].items():
        exp = pins.get(k)
        if isinstance(exp, dict):
            exp = exp.get(pin_variant(v))
        if k == "db._record_arg_values" and v != "fixed":
            continue
        if got != exp:
            raise TranslateError(f"{k}: shape changed (pin {got}, expected {exp}); the hand-written model may no longer match")


def emit(x, prop: str) -> str:
    v = variant_of(x)
    target = v if v in ("fixed", "mixed", "guarded") else "shipped"
    b = lambda t: "true" if t else "false"
    return f"""(* generated by translate/tr_record.py from redun/backends/db/__init__.py, redun/scheduler.py,
   redun/backends/db/serializers.py -- do not edit *)
From Coq Require Import List.
From RV Require Import Model.Recording.
Import ListNotations.

(* record_call_node as a step list *)
Definition gen_rcn : list step := [{"; ".join(x["steps"])}].
(* _get_call_node: own task hash required among the subtree rows *)
Definition gen_own : bool := {b(x["own"])}.
(* _resolve_job_main_thread: where a replayed job takes its subtree tasks from *)
Definition gen_hit : hitmode := {x["hit"]}.
(* default of db_retries *)
Definition gen_retries : nat := {x["retries"]}.
Definition gen_cfg (R : nat) : cfg := mkcfg gen_rcn gen_own gen_hit R.

(* the code is in the `{v}` configuration; the theorems of Props/{prop}.v are about `shipped`, `mixed`, `guarded` and `fixed` *)
Lemma {prop}_tie : forall R, gen_cfg R = {target} R.
Proof. intros R. reflexivity. Qed.
"""


def translate(prop="C03", pins=None):
    pins = pins if pins is not None else json.loads(PINS_FILE.read_text())
    x = extract()
    check_pins(x, pins)
    return emit(x, prop), x


if __name__ == "__main__":
    import sys
    x = extract()
    if "--pins" in sys.argv:
        print(json.dumps(x["pins"], indent=1))
    else:
        print(variant_of(x))
        print(emit(x, "C03"))
