"""Translator for the handle lineage code (C25) -> coq/Gen/C25Gen.v  (fail closed).

Extracted structurally (becomes the Coq record `gen : cfg` of Model/Handles.v, tied by reflexivity):
  * redun/backends/db/__init__.py  class Handle: the column default of is_valid     -> default_valid
  * RedunBackendDb.advance_handle: the three get_or_create(self.session, Handle, {...}, update) calls
    (fork-parent loop, child, parents): whether `update` is {"is_valid": True}          -> adv_*_upd
    and the one get_or_create(self.session, HandleEdge, {parent_id: parent, child_id: child})
  * RedunBackendDb.rollback_handle: the conditions of the `.filter(...)` of the joined query:
    Handle.fullname == handle.__handle__.fullname                                      -> rb_same_name
    Handle.is_valid.is_(True)                                                          -> rb_valid_only
  * Scheduler._get_cache: the decision chain on (cache_type, result): the CSE branch with or without
    `self._has_valid_handles(result)`                                                  -> cse_checks_valid
  * Scheduler._perform_rollbacks: every Handle among the arguments is rolled back, or only the first of
    each fullname (a `seen_names` set)                                                 -> rb_first_per_name
  * Scheduler._exec_job_main_thread / _done_job_main_thread: order facts (preprocess before the cache
    look-up, rollbacks after it and not in dry runs, postprocess only for uncached results).
Hand-modelled and pinned by shape (translate/pins_C25.json; compared with the real code by the
correspondence run): the rest of advance_handle / rollback_handle (with the extracted sites normalised
away), is_valid_handle, db_utils.get_or_create / query_filter_in, Scheduler._perform_rollbacks /
_preprocess_args / _postprocess_result / _is_valid_value / _has_valid_handles (if present),
merge_handles, Handle.fork / apply_call / is_valid / preprocess / postprocess / get_hash,
HandleInfo.fork / apply_call / get_hash / update_hash, TypeRegistry.is_valid_nested.
Any other shape -> TranslateError.
"""
from __future__ import annotations

import ast
import copy
import json
import sys
from pathlib import Path

from .astutil import TranslateError, body_nodoc, fail, find_class, find_func, load, pin, src

PINS_FILE = Path(__file__).resolve().parent / "pins_C25.json"
DB = "redun/backends/db/__init__.py"
SCHED = "redun/scheduler.py"

HANDLE_FILTER_KEYS = ["hash", "fullname", "key", "value_hash"]


def _bool_const(node, what):
    if not (isinstance(node, ast.Constant) and isinstance(node.value, bool)):
        fail(f"{what}: expected a boolean constant, got {src(node)!r}", node)
    return node.value


def _goc_calls(fn):
    calls = [n for n in ast.walk(fn) if isinstance(n, ast.Call) and src(n.func) == "get_or_create"]
    calls.sort(key=lambda n: (n.lineno, n.col_offset))
    return calls


def _handle_goc(call, obj, what):
    """get_or_create(self.session, Handle, {hash: <obj>.__handle__.hash, ...}[, {"is_valid": True}]) -> upd flag"""
    if call.keywords or len(call.args) not in (3, 4) or src(call.args[0]) != "self.session" or src(call.args[1]) != "Handle":
        fail(f"advance_handle: {what}: unexpected get_or_create call {src(call)[:80]!r}", call)
    flt = call.args[2]
    if not isinstance(flt, ast.Dict) or [getattr(k, "value", None) for k in flt.keys] != HANDLE_FILTER_KEYS:
        fail(f"advance_handle: {what}: filter keys are not {HANDLE_FILTER_KEYS}", call)
    want = [f"{obj}.__handle__.hash", f"{obj}.__handle__.fullname", f"{obj}.__handle__.key", f"self.record_value({obj})"]
    got = [src(v) for v in flt.values]
    if got != want:
        fail(f"advance_handle: {what}: filter values {got} (expected {want})", call)
    if len(call.args) == 3:
        return False
    upd = call.args[3]
    if isinstance(upd, ast.Constant) and upd.value is None:
        return False
    if not (isinstance(upd, ast.Dict) and len(upd.keys) == 1 and getattr(upd.keys[0], "value", None) == "is_valid"):
        fail(f"advance_handle: {what}: unrecognised update {src(upd)!r}", call)
    if _bool_const(upd.values[0], f"advance_handle: {what}: is_valid update") is not True:
        fail(f"advance_handle: {what}: update sets is_valid to False", call)
    return True


def _normalised_pin(fn, drop):
    """Pin of fn with the given nodes' contents normalised away (extracted sites)."""
    fn2 = copy.deepcopy(fn)
    ids = {(n.lineno, n.col_offset) for n in drop}
    for n in ast.walk(fn2):
        if isinstance(n, ast.Call) and (n.lineno, n.col_offset) in ids:
            n.args = [ast.Constant("<extracted>")]
            n.keywords = []
    return pin(fn2)


def _chain(node):
    """if/elif/else chain -> [(test_src | None, body)]"""
    out = []
    while True:
        out.append((src(node.test), node.body))
        if len(node.orelse) == 1 and isinstance(node.orelse[0], ast.If):
            node = node.orelse[0]
            continue
        out.append((None, node.orelse))
        return out


def _branch_return(body, what):
    """The branch may log, then must `return <tuple>`; returns the source of the returned tuple."""
    if not body or not isinstance(body[-1], ast.Return) or body[-1].value is None:
        fail(f"_get_cache: {what}: branch does not end in `return ...`", body[0] if body else None)
    for s in body[:-1]:
        ok = isinstance(s, ast.Expr) and isinstance(s.value, ast.Call) and src(s.value.func) == "self.log"
        ok = ok or (isinstance(s, ast.If) and src(s.test) == "self._dryrun" and not s.orelse and len(s.body) == 1
                    and isinstance(s.body[0], ast.Expr) and isinstance(s.body[0].value, ast.Call)
                    and src(s.body[0].value.func) == "self._log_cache_miss")
        if not ok:
            fail(f"_get_cache: {what}: unexpected statement {src(s)[:60]!r}", s)
    return src(body[-1].value)


HIT = "(result, True, call_hash)"
NOHIT = "(None, False, None)"
TAIL = [("isinstance(result, ErrorValue)", NOHIT), ("cache_type == CacheResult.MISS", NOHIT),
        ("self._is_valid_value(result)", HIT), (None, NOHIT)]
CHAINS = {
    False: [("cache_type == CacheResult.CSE", HIT)] + TAIL,
    True: [("cache_type == CacheResult.CSE and self._has_valid_handles(result)", HIT),
           ("cache_type == CacheResult.CSE", NOHIT)] + TAIL,
}


def _stmt_lines(fn, pred):
    return [n.lineno for n in ast.walk(fn) if isinstance(n, ast.Call) and pred(n)]


def translate(pins=None, write_pins=False):
    pins = pins if pins is not None else (json.loads(PINS_FILE.read_text()) if PINS_FILE.exists() else {})
    got_pins = {}
    notes = []

    def check_pin(key, node):
        got_pins[key] = pin(node) if not isinstance(node, str) else node
        if write_pins:
            return
        exp = pins.get(key)
        ok = got_pins[key] == exp or (isinstance(exp, list) and got_pins[key] in exp)
        if not ok:
            fail(f"{key}: shape changed (pin {got_pins[key]}, expected {exp}); the hand-written model of it in "
                 f"Model/Handles.v is no longer known to match", node if not isinstance(node, str) else None)

    # ------------------------------------------------------------ tables
    db = load(DB)
    hcls = find_class(db, "Handle")
    default_valid = None
    for n in hcls.body:
        if isinstance(n, ast.Assign) and len(n.targets) == 1 and src(n.targets[0]) == "is_valid":
            c = n.value
            if not (isinstance(c, ast.Call) and src(c.func) == "Column" and [src(a) for a in c.args] == ["Boolean"]):
                fail("Handle.is_valid: expected Column(Boolean, default=...)", n)
            kw = {k.arg: k.value for k in c.keywords}
            if set(kw) != {"default"}:
                fail("Handle.is_valid: expected exactly the keyword `default`", n)
            default_valid = _bool_const(kw["default"], "Handle.is_valid default")
    if default_valid is None:
        fail("Handle.is_valid column not found", hcls)
    for col in ("hash", "fullname"):
        for n in hcls.body:
            if isinstance(n, ast.Assign) and src(n.targets[0]) == col:
                check_pin(f"Handle.{col}=", n.value)
    ecls = find_class(db, "HandleEdge")
    check_pin("HandleEdge", ecls)

    # ------------------------------------------------------------ advance_handle
    fn = find_func(db, "advance_handle", cls="RedunBackendDb")
    if [a.arg for a in fn.args.args] != ["self", "parent_handles", "child_handle"]:
        fail("advance_handle: signature changed", fn)
    calls = _goc_calls(fn)
    if len(calls) != 4:
        fail(f"advance_handle: expected 4 get_or_create calls, found {len(calls)}", fn)
    chain_upd = _handle_goc(calls[0], "_handle", "fork-parent loop")
    child_upd = _handle_goc(calls[1], "child_handle", "child")
    parent_upd = _handle_goc(calls[2], "parent_handle", "parent")
    e = calls[3]
    if not (len(e.args) == 3 and not e.keywords and src(e.args[1]) == "HandleEdge" and isinstance(e.args[2], ast.Dict)
            and [getattr(k, "value", None) for k in e.args[2].keys] == ["parent_id", "child_id"]
            and [src(v) for v in e.args[2].values] == ["parent_handle.__handle__.hash", "child_handle.__handle__.hash"]):
        fail(f"advance_handle: unexpected edge creation {src(e)[:120]!r}", e)
    # calls 2 and 3 must be inside `for parent_handle in parent_handles`, call 0 inside the while loop
    loops = [n for n in body_nodoc(fn) if isinstance(n, ast.For)]
    if len(loops) != 1 or src(loops[0].target) != "parent_handle" or src(loops[0].iter) != "parent_handles":
        fail("advance_handle: expected one `for parent_handle in parent_handles` loop", fn)
    inside = {(n.lineno, n.col_offset) for n in ast.walk(loops[0]) if isinstance(n, ast.Call)}
    if not all((c.lineno, c.col_offset) in inside for c in calls[2:]) or any((c.lineno, c.col_offset) in inside for c in calls[:2]):
        fail("advance_handle: parent/edge get_or_create calls are not exactly the ones in the parent loop", fn)
    check_pin("RedunBackendDb.advance_handle~", _normalised_pin(fn, calls))

    # ------------------------------------------------------------ rollback_handle
    fn = find_func(db, "rollback_handle", cls="RedunBackendDb")
    filters = [n for n in ast.walk(fn) if isinstance(n, ast.Call) and isinstance(n.func, ast.Attribute)
               and n.func.attr == "filter"]
    if len(filters) != 1:
        fail(f"rollback_handle: expected exactly one .filter(...) call, found {len(filters)}", fn)
    flt = filters[0]
    if flt.keywords:
        fail("rollback_handle: keyword arguments in .filter(...)", flt)
    conds = [src(a) for a in flt.args]
    known = {"Handle.fullname == handle.__handle__.fullname": "same_name", "Handle.is_valid.is_(True)": "valid_only"}
    flags = {"same_name": False, "valid_only": False}
    for c in conds:
        if c not in known or flags[known[c]]:
            fail(f"rollback_handle: unrecognised or repeated filter condition {c!r}", flt)
        flags[known[c]] = True
    base = src(flt.func.value)
    if base != "self.session.query(Handle.hash, HandleEdge.child_id).join(HandleEdge, HandleEdge.parent_id == Handle.hash)":
        fail(f"rollback_handle: unexpected query {base!r}", flt)
    check_pin("RedunBackendDb.rollback_handle~", _normalised_pin(fn, [flt]))

    check_pin("RedunBackendDb.is_valid_handle", find_func(db, "is_valid_handle", cls="RedunBackendDb"))
    du = load("redun/db_utils.py")
    check_pin("db_utils.get_or_create", find_func(du, "get_or_create"))
    check_pin("db_utils.query_filter_in", find_func(du, "query_filter_in"))

    # ------------------------------------------------------------ scheduler
    sm = load(SCHED)
    gc = find_func(sm, "_get_cache", cls="Scheduler")
    stmts = body_nodoc(gc)
    chains = [s for s in stmts if isinstance(s, ast.If) and src(s.test).startswith("cache_type == CacheResult.CSE")]
    if len(chains) != 1 or stmts[-1] is not chains[0]:
        fail("_get_cache: expected the function to end with one if-chain starting at the CSE test", gc)
    got_chain = [(t, _branch_return(b, t or "else")) for t, b in _chain(chains[0])]
    cse_checks = None
    for k, ch in CHAINS.items():
        if got_chain == ch:
            cse_checks = k
    if cse_checks is None:
        fail(f"_get_cache: unrecognised decision chain {got_chain}", chains[0])
    # the variables of the chain come from the one check_cache call
    pre = [s for s in stmts if isinstance(s, ast.Assign) and src(s.targets[0]) == "(result, call_hash, cache_type)"]
    if len(pre) != 1 or not (isinstance(pre[0].value, ast.Call) and src(pre[0].value.func) == "self.backend.check_cache"):
        fail("_get_cache: `result, call_hash, cache_type = self.backend.check_cache(...)` not found", gc)
    for s in stmts[stmts.index(pre[0]) + 1:-1]:
        fail(f"_get_cache: statement between check_cache and the decision chain: {src(s)[:60]!r}", s)
    sched_cls = find_class(sm, "Scheduler")
    has_hv = any(isinstance(n, ast.FunctionDef) and n.name == "_has_valid_handles" for n in sched_cls.body)
    if cse_checks and not has_hv:
        fail("_get_cache uses _has_valid_handles but Scheduler does not define it")
    if has_hv:
        check_pin("Scheduler._has_valid_handles", find_func(sm, "_has_valid_handles", cls="Scheduler"))
    for name in ("_preprocess_args", "_postprocess_result", "_is_valid_value"):
        check_pin("Scheduler." + name, find_func(sm, name, cls="Scheduler"))
    # _perform_rollbacks: which of the Handle states among a job's arguments are rolled back
    pr = find_func(sm, "_perform_rollbacks", cls="Scheduler")
    if [a.arg for a in pr.args.args] != ["self", "args", "kwargs"]:
        fail("_perform_rollbacks: signature changed", pr)
    pb = body_nodoc(pr)
    seen_decl = [x for x in pb if isinstance(x, (ast.Assign, ast.AnnAssign))]
    loops = [x for x in pb if isinstance(x, ast.For)]
    if len(loops) != 1 or len(seen_decl) + 1 != len(pb) or src(loops[0].target) != "value" or loops[0].orelse \
            or src(loops[0].iter) != "iter_nested_value((args, kwargs))" or len(loops[0].body) != 1 \
            or not isinstance(loops[0].body[0], ast.If) or loops[0].body[0].orelse:
        fail("_perform_rollbacks: expected `for value in iter_nested_value((args, kwargs)): if ...:`", pr)
    cond = src(loops[0].body[0].test)
    acts = [src(x) for x in loops[0].body[0].body]
    if cond == "isinstance(value, Handle)" and acts == ["self.backend.rollback_handle(value)"] and not seen_decl:
        first_per_name = False
    elif (cond == "isinstance(value, Handle) and value.__handle__.fullname not in seen_names"
          and acts == ["seen_names.add(value.__handle__.fullname)", "self.backend.rollback_handle(value)"]
          and [src(x).replace(": set[str]", "") for x in seen_decl] == ["seen_names = set()"] and pb[0] is seen_decl[0]):
        first_per_name = True
    else:
        fail(f"_perform_rollbacks: unrecognised selection of the handles to roll back: if {cond}: {acts}", pr)
    check_pin("scheduler.merge_handles", find_func(sm, "merge_handles"))

    # order facts in _exec_job_main_thread / _done_job_main_thread
    ex = find_func(sm, "_exec_job_main_thread", cls="Scheduler")
    pp = _stmt_lines(ex, lambda c: src(c.func) == "self._preprocess_args")
    gcl = _stmt_lines(ex, lambda c: src(c.func) == "self._get_cache")
    if len(pp) != 1 or len(gcl) != 1 or not pp[0] < gcl[0]:
        fail("_exec_job_main_thread: expected one _preprocess_args call before one _get_cache call", ex)
    guards = [n for n in ast.walk(ex) if isinstance(n, ast.If) and src(n.test) == "not self._dryrun"]
    rb = [(g, c) for g in guards for c in ast.walk(g) if isinstance(c, ast.Call) and src(c.func) == "self._perform_rollbacks"]
    all_rb = _stmt_lines(ex, lambda c: src(c.func) == "self._perform_rollbacks")
    # the call must be an unconditional statement of the `if not self._dryrun:` body (seeded change C25a put it
    # under a further cache_scope test: jobs that opt out of the backend cache then derive states without rollback)
    direct = [g for g in guards for st in g.body if isinstance(st, ast.Expr) and isinstance(st.value, ast.Call)
              and src(st.value.func) == "self._perform_rollbacks"]
    if (len(rb) != 1 or len(all_rb) != 1 or len(direct) != 1 or not rb[0][1].lineno > gcl[0]
            or [src(a) for a in rb[0][1].args] != ["args", "kwargs"]):
        fail("_exec_job_main_thread: expected exactly one `self._perform_rollbacks(args, kwargs)` under "
             "`if not self._dryrun:` (unconditionally, as a statement of that body) after the cache look-up", ex)
    cached_ifs = [n for n in ast.walk(ex) if isinstance(n, ast.If) and src(n.test) == "job.was_cached"
                  and n.lineno > gcl[0] and n.lineno < rb[0][1].lineno]
    def always_returns(body):
        last = body[-1] if body else None
        if isinstance(last, ast.Return):
            return True
        return isinstance(last, ast.If) and always_returns(last.body) and always_returns(last.orelse)

    if len(cached_ifs) != 1 or not always_returns(cached_ifs[0].body):
        fail("_exec_job_main_thread: the `if job.was_cached:` branch between cache look-up and rollbacks must return", ex)
    dn = find_func(sm, "_done_job_main_thread", cls="Scheduler")
    post = [(g, c) for g in ast.walk(dn) if isinstance(g, ast.If) and src(g.test) == "not job.was_cached"
            for c in ast.walk(g) if isinstance(c, ast.Call) and src(c.func) == "self._postprocess_result"]
    if len(post) != 1 or len(_stmt_lines(dn, lambda c: src(c.func) == "self._postprocess_result")) != 1:
        fail("_done_job_main_thread: expected one _postprocess_result call under `if not job.was_cached:`", dn)

    # ------------------------------------------------------------ handle.py / value.py
    hm = load("redun/handle.py")
    hc = find_class(hm, "Handle")
    info = None
    for n in hc.body:
        if isinstance(n, ast.ClassDef) and n.name == "HandleInfo":
            info = n
    if info is None:
        fail("Handle.HandleInfo not found", hc)
    for name in ("get_hash", "update_hash", "apply_call", "fork"):
        f = [n for n in info.body if isinstance(n, ast.FunctionDef) and n.name == name]
        if len(f) != 1:
            fail(f"HandleInfo.{name} not found", info)
        check_pin("HandleInfo." + name, f[0])
    for name in ("apply_call", "fork", "is_valid", "get_hash", "preprocess", "postprocess", "__setstate__"):
        f = [n for n in hc.body if isinstance(n, ast.FunctionDef) and n.name == name]
        if len(f) != 1:
            fail(f"Handle.{name} not found", hc)
        check_pin("Handle." + name, f[0])
    vm = load("redun/value.py")
    check_pin("TypeRegistry.is_valid_nested", find_func(vm, "is_valid_nested", cls="TypeRegistry"))

    cfg = {"default_valid": default_valid, "adv_chain_upd": chain_upd, "adv_child_upd": child_upd,
           "adv_parent_upd": parent_upd, "rb_same_name": flags["same_name"], "rb_valid_only": flags["valid_only"],
           "cse_checks_valid": cse_checks, "rb_first_per_name": first_per_name}

    def b(x):
        return "true" if x else "false"

    v = ["(* GENERATED by translate/tr_handles.py from /repo/redun/backends/db/__init__.py and scheduler.py -- do not edit *)",
         "From RV Require Import Model.Handles.",
         "Definition gen : cfg := mkCfg " + " ".join(b(cfg[k]) for k in
                                                      ("default_valid", "adv_chain_upd", "adv_child_upd", "adv_parent_upd",
                                                       "rb_same_name", "rb_valid_only", "cse_checks_valid", "rb_first_per_name")) + ".",
         "(* The theorems of Props/C25.v are about [std_cfg valid_only cse_checks]; this is the tie. *)",
         "Lemma C25_tie : exists valid_only cse_checks, gen = std_cfg valid_only cse_checks.",
         "Proof. exists (rb_valid_only gen), (cse_checks_valid gen). reflexivity. Qed.",
         f"Lemma C25_variant : rb_valid_only gen = {b(cfg['rb_valid_only'])} /\\ cse_checks_valid gen = {b(cfg['cse_checks_valid'])}.",
         "Proof. split; reflexivity. Qed."]
    return "\n".join(v) + "\n", cfg, got_pins


if __name__ == "__main__":
    if "--write-pins" in sys.argv:
        text, cfg, got = translate(pins={}, write_pins=True)
        PINS_FILE.write_text(json.dumps(got, indent=1) + "\n")
        print(cfg, file=sys.stderr)
    else:
        text, cfg, got = translate()
        sys.stdout.write(text)
        print(cfg, file=sys.stderr)
