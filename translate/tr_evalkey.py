"""Translator for the evaluation-key code path -> coq/Gen/C15Gen.v  (fail closed).

Recognised statement by statement (closed set of shapes):
  redun/task.py       hash_args_eval        -> args_pairing, zip_info, extras_info, kwargs_by
  redun/scheduler.py  get_arg_defaults      -> defaults_pairing
  redun/hashing.py    hash_arguments, hash_eval, hash_positional_args, hash_kwargs
                                            -> tags and field orders of the two pre-images
Pinned by shape (hand-modelled glue, tied by the correspondence run): hashing.hash_struct,
hashing.Hash, hashing.hash_tag_bytes, scheduler `args_then` (the {**default_kwargs, **kwargs}
merge); the call sites of get_arg_defaults / hash_args_eval in scheduler.py are checked to be
the expected expressions.
Also extracts every hash_struct([...]) / hash_tag_bytes(tag, ...) call site under redun/
(tests excluded) with its leading type tag -> gen_sites.
"""
from __future__ import annotations

import ast
import sys

from . import astutil
from .astutil import TranslateError, body_nodoc, fail, find_class, find_func, load, pin, src

SHIPPED = dict(args_pairing="PairAllParams", zip_info="IDrop", extras_info="IKeep", kwargs_by="KwByArgName",
               defaults_pairing="PairAllParams", tag_args="TaskArguments", args_fields=[0, 1],
               tag_eval="Eval", eval_fields=[0, 1])
FIXED = dict(SHIPPED, args_pairing="PairPositional", zip_info="IBlank", extras_info="IBlank",
             kwargs_by="KwByBoundParam", defaults_pairing="PairPositional")


def norm(stmt) -> str:
    """Source of a statement with annotations removed (AnnAssign -> plain assignment)."""
    if isinstance(stmt, ast.AnnAssign) and stmt.value is not None:
        return f"{src(stmt.target)} = {src(stmt.value)}"
    if isinstance(stmt, (ast.FunctionDef, ast.AsyncFunctionDef)):
        return src(astutil.strip_annotations(astutil.strip_docstrings(stmt)))
    return src(stmt)


def strip_comments_body(fn):
    return [norm(s) for s in body_nodoc(fn)]


# ------------------------------------------------------------------ hash_args_eval
PROLOGUE = [
    "from redun.scheduler import JobInfo",
    "sig = task.signature",
    "config_args = task.get_task_option('config_args', [])",
    "def keep_arg(param_name, value):\n    return param_name not in config_args and (not isinstance(value, JobInfo))",
]
VARBLOCK_SHIPPED = [
    "var_param_name = None",
    "for param in sig.parameters.values():\n"
    "    if param.kind == inspect.Parameter.VAR_POSITIONAL:\n"
    "        var_param_name = param.name\n"
    "        break",
]
VARBLOCK_FIXED = [
    "pos_param_names = []",
    "kw_param_names = []",
    "var_param_name = None",
    "var_kw_param_name = None",
    "for param in sig.parameters.values():\n"
    "    if param.kind == inspect.Parameter.VAR_POSITIONAL:\n"
    "        var_param_name = param.name\n"
    "    elif param.kind == inspect.Parameter.VAR_KEYWORD:\n"
    "        var_kw_param_name = param.name\n"
    "    else:\n"
    "        if param.kind != inspect.Parameter.KEYWORD_ONLY:\n"
    "            pos_param_names.append(param.name)\n"
    "        if param.kind != inspect.Parameter.POSITIONAL_ONLY:\n"
    "            kw_param_names.append(param.name)",
]
HASHED_ARG = "def hashed_arg(value):\n    return JobInfo() if isinstance(value, JobInfo) else value"
RETURN = "return hash_eval(type_registry, task.hash, args2, kwargs2)"
PAIR_ITER = {"sig.parameters": "PairAllParams", "pos_param_names": "PairPositional"}


def one_comp(node, what):
    if len(node.generators) != 1:
        fail(f"{what}: expected a single `for` clause", node)
    g = node.generators[0]
    if g.is_async or len(g.ifs) != 1:
        fail(f"{what}: expected exactly one `if` filter", node)
    return g, src(g.ifs[0])


def elt_mode(elt, cond_drops_info, what, node):
    """info_mode of a comprehension from its element expression and whether its filter drops JobInfo."""
    if cond_drops_info:
        if elt not in ("arg_value", "hashed_arg(arg_value)"):
            fail(f"{what}: unrecognised element {elt!r}", node)
        return "IDrop"
    if elt == "arg_value":
        return "IKeep"
    if elt == "hashed_arg(arg_value)":
        return "IBlank"
    fail(f"{what}: unrecognised element {elt!r}", node)


def tr_hash_args_eval(mod):
    fn = find_func(mod, "hash_args_eval")
    if [a.arg for a in fn.args.args] != ["type_registry", "task", "args", "kwargs"] or fn.args.vararg or fn.args.kwarg \
            or fn.args.kwonlyargs or fn.args.defaults or fn.decorator_list:
        fail("hash_args_eval: signature changed", fn)
    body = body_nodoc(fn)
    stmts = [norm(s) for s in body]
    if stmts[:len(PROLOGUE)] != PROLOGUE:
        for got, exp in zip(stmts, PROLOGUE):
            if got != exp:
                fail(f"hash_args_eval: unrecognised statement {got!r} (expected {exp!r})", fn)
        fail("hash_args_eval: prologue too short", fn)
    i = len(PROLOGUE)
    if stmts[i:i + len(VARBLOCK_SHIPPED)] == VARBLOCK_SHIPPED:
        names = {"sig.parameters"}
        i += len(VARBLOCK_SHIPPED)
    elif stmts[i:i + len(VARBLOCK_FIXED)] == VARBLOCK_FIXED:
        names = {"sig.parameters", "pos_param_names", "kw_param_names", "var_kw_param_name"}
        i += len(VARBLOCK_FIXED)
    else:
        fail(f"hash_args_eval: unrecognised parameter-classification block starting at {stmts[i]!r}", body[i])
    has_hashed = False
    if i < len(stmts) and stmts[i] == HASHED_ARG:
        has_hashed = True
        i += 1
    rest = body[i:]
    if len(rest) != 4:
        fail(f"hash_args_eval: expected args2 / args2.extend / kwargs2 / return, got {len(rest)} statements", fn)
    s_args, s_ext, s_kw, s_ret = rest

    # args2 = [<elt> for arg_name, arg_value in zip(<names>, args) if <cond>]
    v = s_args.value if isinstance(s_args, (ast.Assign, ast.AnnAssign)) else None
    if not (isinstance(v, ast.ListComp) and norm(s_args).startswith("args2 = ")):
        fail("hash_args_eval: `args2 = [...]` list comprehension not found", s_args)
    g, cond = one_comp(v, "args2")
    if src(g.target) != "(arg_name, arg_value)" or not astutil.is_call(g.iter, "zip", 2) or src(g.iter.args[1]) != "args":
        fail(f"args2: unrecognised iteration {src(g.target)} in {src(g.iter)}", s_args)
    it = src(g.iter.args[0])
    if it not in PAIR_ITER or it not in names:
        fail(f"args2: arguments are zipped with {it!r}", s_args)
    pairing = PAIR_ITER[it]
    if cond == "keep_arg(arg_name, arg_value)":
        drops = True
    elif cond == "arg_name not in config_args":
        drops = False
    else:
        fail(f"args2: unrecognised filter {cond!r}", s_args)
    zip_info = elt_mode(src(v.elt), drops, "args2", s_args)

    # args2.extend(<elt> for arg_value in args[len(<names>):] if <cond>)
    if not (isinstance(s_ext, ast.Expr) and astutil.is_call(s_ext.value, "args2.extend", 1)
            and isinstance(s_ext.value.args[0], ast.GeneratorExp)):
        fail("hash_args_eval: `args2.extend(<generator>)` not found", s_ext)
    ge = s_ext.value.args[0]
    g, cond = one_comp(ge, "args2.extend")
    if src(g.target) != "arg_value" or src(g.iter) != f"args[len({it}):]":
        fail(f"args2.extend: variadic tail is {src(g.iter)!r}, expected args[len({it}):]", s_ext)
    if cond == "var_param_name not in config_args":
        drops = False
    elif cond == "keep_arg(var_param_name, arg_value)":
        drops = True
    else:
        fail(f"args2.extend: unrecognised filter {cond!r}", s_ext)
    extras_info = elt_mode(src(ge.elt), drops, "args2.extend", s_ext)

    # kwargs2 = {arg_name: arg_value for arg_name, arg_value in kwargs.items() if keep_arg(<param>, arg_value)}
    v = s_kw.value if isinstance(s_kw, (ast.Assign, ast.AnnAssign)) else None
    if not (isinstance(v, ast.DictComp) and norm(s_kw).startswith("kwargs2 = ")):
        fail("hash_args_eval: `kwargs2 = {...}` dict comprehension not found", s_kw)
    g, cond = one_comp(v, "kwargs2")
    if src(v.key) != "arg_name" or src(v.value) != "arg_value" or src(g.target) != "(arg_name, arg_value)" \
            or src(g.iter) != "kwargs.items()":
        fail("kwargs2: unrecognised comprehension", s_kw)
    if cond == "keep_arg(arg_name, arg_value)":
        kwargs_by = "KwByArgName"
    elif cond == "keep_arg(arg_name if arg_name in kw_param_names else var_kw_param_name, arg_value)" \
            and "kw_param_names" in names:
        kwargs_by = "KwByBoundParam"
    else:
        fail(f"kwargs2: unrecognised filter {cond!r}", s_kw)
    if norm(s_ret) != RETURN:
        fail(f"hash_args_eval: unrecognised final statement {norm(s_ret)!r}", s_ret)
    uses_hashed = "hashed_arg" in src(s_args) + src(s_ext)
    if uses_hashed and not has_hashed:
        fail("hash_args_eval: hashed_arg is used but not defined in the recognised form", fn)
    # `inspect` and `typing` must be the stdlib modules
    for m in ("inspect",):
        if not any(isinstance(n, ast.Import) and any(a.name == m and a.asname is None for a in n.names) for n in mod.body):
            fail(f"task.py: `import {m}` not found")
    return dict(args_pairing=pairing, zip_info=zip_info, extras_info=extras_info, kwargs_by=kwargs_by)


# ------------------------------------------------------------------ get_arg_defaults
DEFAULTS_TESTS = {
    "i < len(args)": "PairAllParams",
    "i < len(args) and param.kind in (param.POSITIONAL_ONLY, param.POSITIONAL_OR_KEYWORD)": "PairPositional",
}


def tr_get_arg_defaults(mod):
    fn = find_func(mod, "get_arg_defaults")
    if [a.arg for a in fn.args.args] != ["task", "args", "kwargs"] or fn.decorator_list:
        fail("get_arg_defaults: signature changed", fn)
    b = body_nodoc(fn)
    if not (len(b) == 4 and norm(b[0]) == "default_kwargs = {}" and norm(b[1]) == "sig = task.signature"
            and isinstance(b[2], ast.For) and norm(b[3]) == "return default_kwargs"):
        fail("get_arg_defaults: unexpected statements", fn)
    loop = b[2]
    if src(loop.target) != "(i, param)" or src(loop.iter) != "enumerate(sig.parameters.values())" or loop.orelse \
            or len(loop.body) != 1 or not isinstance(loop.body[0], ast.If):
        fail("get_arg_defaults: unexpected loop", loop)
    n1 = loop.body[0]
    t1 = src(n1.test)
    if t1 not in DEFAULTS_TESTS or [src(s) for s in n1.body] != ["continue"]:
        fail(f"get_arg_defaults: unrecognised first test {t1!r}", n1)
    if not (len(n1.orelse) == 1 and isinstance(n1.orelse[0], ast.If)):
        fail("get_arg_defaults: expected elif chain", n1)
    n2 = n1.orelse[0]
    if src(n2.test) != "param.name in kwargs" or [src(s) for s in n2.body] != ["continue"] \
            or not (len(n2.orelse) == 1 and isinstance(n2.orelse[0], ast.If)):
        fail("get_arg_defaults: unrecognised second branch", n2)
    n3 = n2.orelse[0]
    if src(n3.test) != "param.default is not param.empty" \
            or [src(s) for s in n3.body] != ["default_kwargs[param.name] = param.default"] or n3.orelse:
        fail("get_arg_defaults: unrecognised third branch", n3)
    return DEFAULTS_TESTS[t1]


# ------------------------------------------------------------------ hashing.py layouts
def tr_layouts(mod):
    fn = find_func(mod, "hash_arguments")
    b = body_nodoc(fn)
    if [a.arg for a in fn.args.args] != ["type_registry", "args", "kwargs"] or len(b) != 1 \
            or not isinstance(b[0], ast.Return) or not astutil.is_call(b[0].value, "hash_struct", 1) \
            or not isinstance(b[0].value.args[0], ast.List):
        fail("hash_arguments: unexpected shape", fn)
    elts = b[0].value.args[0].elts
    if not (elts and isinstance(elts[0], ast.Constant) and isinstance(elts[0].value, str)):
        fail("hash_arguments: leading tag is not a string constant", fn)
    tag_args = elts[0].value
    fm = {"hash_positional_args(type_registry, args)": 0, "hash_kwargs(type_registry, kwargs)": 1}
    fields = [src(e) for e in elts[1:]]
    if any(f not in fm for f in fields):
        fail(f"hash_arguments: unrecognised fields {fields}", fn)
    args_fields = [fm[f] for f in fields]

    fn = find_func(mod, "hash_eval")
    b = [norm(s) for s in body_nodoc(fn)]
    if [a.arg for a in fn.args.args] != ["type_registry", "task_hash", "args", "kwargs"] or len(b) != 2 \
            or b[0] != "args_hash = hash_arguments(type_registry, args, kwargs)":
        fail("hash_eval: unexpected shape", fn)
    ret = body_nodoc(fn)[1]
    if not (isinstance(ret, ast.Return) and isinstance(ret.value, ast.Tuple) and len(ret.value.elts) == 2
            and src(ret.value.elts[1]) == "args_hash" and astutil.is_call(ret.value.elts[0], "hash_struct", 1)
            and isinstance(ret.value.elts[0].args[0], ast.List)):
        fail("hash_eval: unexpected return", ret)
    elts = ret.value.elts[0].args[0].elts
    if not (elts and isinstance(elts[0], ast.Constant) and isinstance(elts[0].value, str)):
        fail("hash_eval: leading tag is not a string constant", fn)
    tag_eval = elts[0].value
    fm = {"task_hash": 0, "args_hash": 1}
    fields = [src(e) for e in elts[1:]]
    if any(f not in fm for f in fields):
        fail(f"hash_eval: unrecognised fields {fields}", fn)
    eval_fields = [fm[f] for f in fields]

    fn = find_func(mod, "hash_positional_args")
    if [norm(s) for s in body_nodoc(fn)] != ["return [type_registry.get_hash(arg) for arg in args]"]:
        fail("hash_positional_args: unexpected shape", fn)
    fn = find_func(mod, "hash_kwargs")
    if [norm(s) for s in body_nodoc(fn)] != ["return {key: type_registry.get_hash(arg) for key, arg in kwargs.items()}"]:
        fail("hash_kwargs: unexpected shape", fn)
    return dict(tag_args=tag_args, args_fields=args_fields, tag_eval=tag_eval, eval_fields=eval_fields)


# ------------------------------------------------------------------ scheduler call sites
def tr_call_sites(mod):
    found = {}
    for n in ast.walk(mod):
        if isinstance(n, ast.FunctionDef) and n.name == "args_then":
            found.setdefault("args_then", []).append(n)
    if len(found.get("args_then", [])) != 1:
        fail("scheduler.py: expected exactly one inner function `args_then`")
    text = src(mod)
    for needle, what in [
        ("get_arg_defaults(job.task, expr.args, expr.kwargs)", "default arguments are computed from the expression's own args/kwargs"),
        ("job.eval_hash, job.args_hash = hash_args_eval(self.type_registry, job.task, args, kwargs)",
         "the job's eval/args hash comes from hash_args_eval on the preprocessed arguments"),
        ("args, kwargs = job.args = self._preprocess_args(job, args, kwargs)", "arguments are preprocessed once before hashing"),
    ]:
        if text.count(needle) != 1:
            fail(f"scheduler.py: expected exactly one occurrence of `{needle}` ({what}); found {text.count(needle)}")
    return {"scheduler.args_then": pin(found["args_then"][0])}


# ------------------------------------------------------------------ tag sites
def class_attr_strings(cls, attr):
    for n in cls.body:
        if isinstance(n, ast.Assign) and len(n.targets) == 1 and isinstance(n.targets[0], ast.Name) \
                and n.targets[0].id == attr and isinstance(n.value, ast.Constant) and isinstance(n.value.value, str):
            return n.value.value
        if isinstance(n, ast.AnnAssign) and isinstance(n.target, ast.Name) and n.target.id == attr \
                and isinstance(n.value, ast.Constant) and isinstance(n.value.value, str):
            return n.value.value
    return None


def leading_elt(node):
    """First element of a list display, looking through `[...] + x + y`."""
    while isinstance(node, ast.BinOp) and isinstance(node.op, ast.Add):
        node = node.left
    if isinstance(node, ast.List) and node.elts:
        return node.elts[0]
    return None


def tr_tag_sites(files: dict[str, ast.Module]):
    """-> list of (site, form, tag). form: FStruct / FTagBytes / FUntagged."""
    sites = []
    for rel in sorted(files):
        mod = files[rel]
        modname = rel[:-3].replace("/", ".")
        classes = {n.name: n for n in ast.walk(mod) if isinstance(n, ast.ClassDef)}

        def subclasses(name):
            out, todo = [], [name]
            while todo:
                c = todo.pop(0)
                if c in out:
                    continue
                out.append(c)
                for k in sorted(classes):
                    bases = [src(b).split("[")[0] for b in classes[k].bases]
                    if c in bases and k not in out:
                        todo.append(k)
            return out

        def resolve_attr(cname, attr):
            """class attribute by the MRO restricted to this module (single inheritance chains)."""
            seen = set()
            while cname in classes and cname not in seen:
                seen.add(cname)
                v = class_attr_strings(classes[cname], attr)
                if v is not None:
                    return v
                bases = [src(b).split("[")[0] for b in classes[cname].bases if src(b).split("[")[0] in classes]
                if len(bases) != 1:
                    return None
                cname = bases[0]
            return None

        def visit(node, qual, cls):
            for child in ast.iter_child_nodes(node):
                if isinstance(child, ast.ClassDef):
                    visit(child, qual + [child.name], child.name)
                elif isinstance(child, (ast.FunctionDef, ast.AsyncFunctionDef)):
                    visit(child, qual + [child.name], cls)
                else:
                    if isinstance(child, ast.Call) and src(child.func) in ("hash_struct", "hash_tag_bytes"):
                        record(child, qual, cls)
                    visit(child, qual, cls)

        def record(call, qual, cls):
            site = modname + ":" + ".".join(qual)
            fname = src(call.func)
            if not call.args or call.keywords:
                fail(f"{site}: unrecognised {fname} call", call)
            if fname == "hash_tag_bytes":
                t = call.args[0]
                if not (isinstance(t, ast.Constant) and isinstance(t.value, str)):
                    fail(f"{site}: hash_tag_bytes tag is not a string constant", call)
                sites.append((site, "FTagBytes", t.value))
                return
            if modname == "redun.hashing" and qual == ["hash_struct"]:
                return
            e = leading_elt(call.args[0])
            if e is None:
                sites.append((site, "FUntagged", src(call.args[0])))
            elif isinstance(e, ast.Constant) and isinstance(e.value, str):
                sites.append((site, "FStruct", e.value))
            elif isinstance(e, ast.Attribute) and src(e.value) == "self" and e.attr in ("type_basename", "type_name") \
                    and cls is not None:
                for sub in subclasses(cls):
                    v = resolve_attr(sub, e.attr)
                    if v is None:
                        fail(f"{site}: cannot resolve self.{e.attr} for class {sub}", call)
                    sites.append((f"{site}@{sub}", "FStruct", v))
            else:
                fail(f"{site}: leading element {src(e)!r} of the hashed structure is not a recognisable type tag", call)

        visit(mod, [], None)
    # several call sites in one function with the same tag collapse
    out = []
    for s in sites:
        if s not in out:
            out.append(s)
    return out


def load_all():
    files = {}
    root = astutil.REPO / "redun"
    for p in sorted(root.rglob("*.py")):
        rel = str(p.relative_to(astutil.REPO))
        if "/tests/" in rel or rel.startswith("redun/tests"):
            continue
        text = p.read_text()
        if "hash_struct" not in text and "hash_tag_bytes" not in text:
            continue
        files[rel] = ast.parse(text, filename=rel)
    return files


# ------------------------------------------------------------------ driver
def cq_string(s: str) -> str:
    if not all(32 <= ord(c) < 127 for c in s):
        fail(f"non-ASCII or control character in {s!r}")
    return '"' + s.replace('"', '""') + '"'


def translate(pins: dict | None = None):
    task_mod = load("redun/task.py")
    sched_mod = load("redun/scheduler.py")
    hash_mod = load("redun/hashing.py")
    cfg = {}
    cfg.update(tr_hash_args_eval(task_mod))
    cfg["defaults_pairing"] = tr_get_arg_defaults(sched_mod)
    cfg.update(tr_layouts(hash_mod))
    got_pins = tr_call_sites(sched_mod)
    got_pins["hashing.hash_struct"] = pin(find_func(hash_mod, "hash_struct"))
    got_pins["hashing.hash_tag_bytes"] = pin(find_func(hash_mod, "hash_tag_bytes"))
    got_pins["hashing.Hash"] = pin(find_class(hash_mod, "Hash"))
    if pins is not None:
        for name, exp in pins.items():
            if got_pins.get(name) != exp:
                fail(f"{name}: shape changed (pin {got_pins.get(name)} != {exp}); the hand-written glue model is no "
                     f"longer known to match")
    sites = tr_tag_sites(load_all())
    variant = "shipped" if cfg == SHIPPED else "fixed" if cfg == FIXED else "other"

    def nats(l):
        return "[" + "; ".join(f"{x}%nat" for x in l) + "]"

    v = []
    v.append("(* GENERATED by translate/tr_evalkey.py from /repo/redun/{task,scheduler,hashing}.py -- do not edit *)")
    v.append("From Coq Require Import List NArith Ascii String.")
    v.append("From RV Require Import Model.EvalKey Model.EvalKeyTags.")
    v.append("Import ListNotations.")
    v.append("Local Open Scope string_scope.")
    v.append("Definition gen : evalkey_cfg := {|")
    v.append(f"  args_pairing := {cfg['args_pairing']}; zip_info := {cfg['zip_info']}; extras_info := {cfg['extras_info']};")
    v.append(f"  kwargs_by := {cfg['kwargs_by']}; defaults_pairing := {cfg['defaults_pairing']};")
    v.append(f"  tag_args := list_ascii_of_string {cq_string(cfg['tag_args'])}; args_fields := {nats(cfg['args_fields'])};")
    v.append(f"  tag_eval := list_ascii_of_string {cq_string(cfg['tag_eval'])}; eval_fields := {nats(cfg['eval_fields'])} |}}.")
    v.append("Definition gen_sites : list (string * pre_form * string) := [")
    v.append(";\n".join(f"  ({cq_string(s)}, {f}, {cq_string(t)})" for s, f, t in sites))
    v.append("]%list.")
    t = []
    t.append("(* GENERATED by translate/tr_evalkey.py -- do not edit *)")
    t.append("From Coq Require Import List String.")
    t.append("From RV Require Import Model.EvalKey Model.EvalKeyTags Gen.C15Gen.")
    t.append(f"(* The theorems of Props/C15.v are about [shipped] and [fixed]; the code is the [{variant}] variant. *)")
    if variant == "other":
        t.append("(* neither of the two configurations the theorems cover: this tie does not compile *)")
        t.append("Lemma C15_tie : gen = shipped \\/ gen = fixed.")
        t.append("Proof. vm_compute. first [left; reflexivity | right; reflexivity]. Qed.")
    else:
        t.append(f"Lemma C15_tie : gen = {variant}.")
        t.append("Proof. vm_compute. reflexivity. Qed.")
    t.append("(* every hash_struct / hash_tag_bytes call site and its leading tag, as the kind table assumes *)")
    t.append("(* a site is a row of the table, or a class-resolved site ...@K whose (K, form, tag) is already a row *)")
    t.append("Lemma C15_tie_sites : sites_covered gen_sites shipped_sites = true.")
    t.append("Proof. vm_compute. reflexivity. Qed.")
    return "\n".join(v) + "\n", "\n".join(t) + "\n", got_pins, cfg, variant, sites


if __name__ == "__main__":
    text, tie, pins, cfg, variant, sites = translate()
    sys.stdout.write(text)
    sys.stdout.write(tie)
    print(pins, cfg, variant, file=sys.stderr)
