"""Translator for the remote-job scratch protocol (C32) -> coq/Gen/C32Gen.v  (fail closed).

Extracted statement by statement (closed set of shapes):
  redun/executors/scratch.py   SCRATCH_* constants, get_job_scratch_file, get_array_scratch_file,
                               write_array_job_scratch_files
  redun/job_array.py           *_ARRAY_VAR constants, get_job_array_index (lookup order),
                               JobDescription (__init__ key fields, __hash__, __eq__)
  redun/executors/aws_batch.py ARRAY_JOB_SUFFIX, is_array_job_name, get_batch_job_name,
                               get_hash_from_job_name (suffix strip + the regex literal)
Hand-modelled in coq/Model/Scratch.v and pinned by shape (tied by the correspondence run):
  scratch.parse_job_result, scratch.parse_job_error, command.get_oneshot_command (all but the
  input-staging statement, which is extracted: Overwrite | IfAbsent),
  cli.RedunClient.oneshot_command (all but the cache / stale-output block before the task call, which
  is extracted: ClearCached | ClearAlways | ClearNever), aws_batch.AWSBatchExecutor.gather_inflight_jobs / _submit /
  _submit_array_job / _process_job_status / _submit_jobs, aws_batch.submit_task,
  job_array.JobArrayer.add_job / submit_pending_jobs
"""
from __future__ import annotations

import ast
import copy
import re
import sys

from .astutil import TranslateError, body_nodoc, fail, find_assign, find_class, find_func, load, pin, src

PINNED = [
    ("redun/executors/scratch.py", None, "parse_job_result"),
    ("redun/executors/scratch.py", None, "parse_job_error"),
    ("redun/executors/aws_batch.py", "AWSBatchExecutor", "gather_inflight_jobs"),
    ("redun/executors/aws_batch.py", "AWSBatchExecutor", "_submit"),
    ("redun/executors/aws_batch.py", "AWSBatchExecutor", "_submit_array_job"),
    ("redun/executors/aws_batch.py", "AWSBatchExecutor", "_process_job_status"),
    ("redun/executors/aws_batch.py", "AWSBatchExecutor", "_submit_jobs"),
    ("redun/executors/aws_batch.py", "AWSBatchExecutor", "_can_override_failed"),
    ("redun/executors/docker.py", None, "iter_job_status"),
    ("redun/executors/aws_batch.py", None, "submit_task"),
    ("redun/job_array.py", "JobArrayer", "add_job"),
    ("redun/job_array.py", "JobArrayer", "submit_pending_jobs"),
]

# get_hash_from_job_name: the only regex the hand model of `re_hash_go` stands for
HASH_REGEX = ".*-(?P<hash>[^-]+)"

K = r"(?P<%s>SCRATCH_[A-Z]+)"
WRITE_ARRAY_SHAPE = [
    r"all_args = \[\]",
    r"all_kwargs = \[\]",
    r"for job in jobs:\n    assert job\.args\n    all_args\.append\(job\.args\[0\]\)\n    all_kwargs\.append\(job\.args\[1\]\)",
    r"input_file = get_array_scratch_file\(scratch_prefix, array_id, " + K % "f_input" + r"\)",
    r"with File\(input_file\)\.open\('wb'\) as out:\n    pickle_dump\(\[all_args, all_kwargs\], out\)",
    r"output_file = get_array_scratch_file\(scratch_prefix, array_id, " + K % "f_output" + r"\)",
    r"output_paths = \[get_job_scratch_file\(scratch_prefix, job, " + K % "arr_out_elem" + r"\) for job in jobs\]",
    r"with File\(output_file\)\.open\('w'\) as ofile:\n    json\.dump\(output_paths, ofile\)",
    r"error_file = get_array_scratch_file\(scratch_prefix, array_id, " + K % "f_error" + r"\)",
    r"error_paths = \[get_job_scratch_file\(scratch_prefix, job, " + K % "arr_err_elem" + r"\) for job in jobs\]",
    r"with File\(error_file\)\.open\('w'\) as efile:\n    json\.dump\(error_paths, efile\)",
    r"if include_eval_hash:\n    eval_file = get_array_scratch_file\(scratch_prefix, array_id, " + K % "f_hashes" + r"\)\n"
    r"    with File\(eval_file\)\.open\('w'\) as eval_f:\n"
    r"        eval_f\.write\('\\n'\.join\(\[cast\(str, job\.eval_hash\) for job in jobs\]\)\)\nelse:\n    eval_file = None",
    r"return ArrayJobScratchFiles\(input_file=input_file, output_file=output_file, error_file=error_file, eval_file=eval_file\)",
]


def str_const(mod, name, what):
    v = find_assign(mod, name)
    if not (isinstance(v, ast.Constant) and isinstance(v.value, str)):
        fail(f"{what}: {name} is not a string constant", v)
    if not all(32 <= ord(ch) < 127 for ch in v.value):
        fail(f"{what}: {name} is not printable ASCII", v)
    return v.value


def single_return(fn, what, allow_assert=None):
    b = body_nodoc(fn)
    if allow_assert is not None and b and src(b[0]) == allow_assert:
        b = b[1:]
    if len(b) != 1 or not isinstance(b[0], ast.Return):
        fail(f"{what}: expected a single return statement", fn)
    return b[0].value


def path_join_dir(call, args_before, args_after, what):
    """`os.path.join(<args_before...>, "<dir>", <args_after...>)` -> dir"""
    if not (isinstance(call, ast.Call) and src(call.func) == "os.path.join" and not call.keywords):
        fail(f"{what}: not an os.path.join call", call)
    a = call.args
    if len(a) != len(args_before) + 1 + len(args_after):
        fail(f"{what}: unexpected number of path components", call)
    got_before = [src(x) for x in a[:len(args_before)]]
    got_after = [src(x) for x in a[len(args_before) + 1:]]
    d = a[len(args_before)]
    if got_before != args_before or got_after != args_after:
        fail(f"{what}: unexpected path components {src(call)!r}", call)
    if not (isinstance(d, ast.Constant) and isinstance(d.value, str)):
        fail(f"{what}: directory component is not a string literal", call)
    return d.value


def translate(pins: dict | None = None):
    # ------------------------------------------------------------------ scratch.py
    sc = load("redun/executors/scratch.py")
    consts = {n: str_const(sc, n, "scratch.py") for n in
              ("SCRATCH_INPUT", "SCRATCH_OUTPUT", "SCRATCH_ERROR", "SCRATCH_HASHES", "SCRATCH_STATUS")}
    fn = find_func(sc, "get_job_scratch_file")
    if [a.arg for a in fn.args.args] != ["scratch_prefix", "job", "filename"]:
        fail("get_job_scratch_file: signature changed", fn)
    d_jobs = path_join_dir(single_return(fn, "get_job_scratch_file", "assert job.eval_hash"),
                           ["scratch_prefix"], ["job.eval_hash", "filename"], "get_job_scratch_file")
    fn = find_func(sc, "get_array_scratch_file")
    if [a.arg for a in fn.args.args] != ["scratch_prefix", "job_array_id", "filename"]:
        fail("get_array_scratch_file: signature changed", fn)
    d_array = path_join_dir(single_return(fn, "get_array_scratch_file"),
                            ["scratch_prefix"], ["job_array_id", "filename"], "get_array_scratch_file")

    fn = find_func(sc, "write_array_job_scratch_files")
    if [a.arg for a in fn.args.args] != ["jobs", "scratch_prefix", "array_id", "include_eval_hash"]:
        fail("write_array_job_scratch_files: signature changed", fn)
    body = body_nodoc(fn)
    if len(body) != len(WRITE_ARRAY_SHAPE):
        fail(f"write_array_job_scratch_files: {len(body)} statements, expected {len(WRITE_ARRAY_SHAPE)}", fn)
    fields = {}
    for stmt, pat in zip(body, WRITE_ARRAY_SHAPE):
        m = re.fullmatch(pat, src(stmt))
        if not m:
            fail(f"write_array_job_scratch_files: unrecognised statement {src(stmt)!r}", stmt)
        for k, name in m.groupdict().items():
            if name not in consts:
                fail(f"write_array_job_scratch_files: unknown constant {name}", stmt)
            fields[k] = consts[name]

    # the single-job command must use the same three names; get_oneshot_command is pinned, but the
    # names it passes are extracted so that a renamed constant cannot silently diverge
    cm = load("redun/executors/command.py")
    fn = find_func(cm, "get_oneshot_command")
    # input staging of a single job: must be an unconditional overwrite before the command is built
    top = body_nodoc(fn)
    if not (top and isinstance(top[0], ast.If) and src(top[0].test) == "array_uuid"):
        fail("get_oneshot_command: expected `if array_uuid:` first", fn)
    els = top[0].orelse
    if len(els) != 5 or src(els[3]) != "input_file = File(input_path)":
        fail("get_oneshot_command: unrecognised single-job branch", top[0])
    stagings = {
        "with input_file.open('wb') as out:\n    pickle_dump([args, kwargs], out)": "Overwrite",
        "if not input_file.exists():\n    with input_file.open('wb') as out:\n        pickle_dump([args, kwargs], out)": "IfAbsent",
    }
    if src(els[4]) not in stagings:
        fail(f"get_oneshot_command: unrecognised input staging {src(els[4])!r}", els[4])
    stage_input = stagings[src(els[4])]
    if any("exists" in src(x) or "pickle_dump" in src(x) for x in top[0].body):
        fail("get_oneshot_command: the array branch must not stage or test files", top[0])
    fn_norm = copy.deepcopy(fn)
    body_nodoc(fn_norm)[0].orelse[4] = ast.Pass()
    oneshot_command_pin = pin(fn_norm)        # everything but the staging statement, by shape
    text = src(fn)
    for nm in ("SCRATCH_INPUT", "SCRATCH_OUTPUT", "SCRATCH_ERROR"):
        for getter, idv in (("get_array_scratch_file", "array_uuid"), ("get_job_scratch_file", "job")):
            if f"{getter}(scratch_prefix, {idv}, {nm})" not in text:
                fail(f"get_oneshot_command: expected {getter}(scratch_prefix, {idv}, {nm})", fn)
    if (fields["f_input"], fields["f_output"], fields["f_error"]) != (
            consts["SCRATCH_INPUT"], consts["SCRATCH_OUTPUT"], consts["SCRATCH_ERROR"]):
        fail("write_array_job_scratch_files and get_oneshot_command disagree on the array file names")

    # ------------------------------------------------------------------ cli.py: oneshot_command
    # the block between reading the arguments and calling the task: cache short-circuit and the
    # removal of a previous output file (extracted: ClearCached | ClearAlways | ClearNever); the rest
    # of the function is pinned by shape with that block blanked
    cli = load("redun/cli.py")
    osc = find_func(cli, "oneshot_command", "RedunClient")
    tries = [n for n in body_nodoc(osc) if isinstance(n, ast.Try)]
    if len(tries) != 1:
        fail("oneshot_command: expected exactly one try block", osc)
    tb = tries[0].body
    calls = [i for i, n in enumerate(tb) if src(n) == "result = task.func(*task_args, **task_kwargs)"]
    if len(calls) != 1 or calls[0] == 0:
        fail("oneshot_command: the task call `result = task.func(*task_args, **task_kwargs)` was not found", osc)
    hit = """
        with output_file.open("rb") as infile:
            result = pickle.load(infile)
        if get_type_registry().is_valid_nested(result):
            logger.info("Existing output found in {ofile}".format(ofile=output_path))
            return result
"""
    shapes = {
        "ClearCached": "if output_path and not args.no_cache:\n    output_file = BaseFile(output_path)\n"
                       "    if output_file.exists():" + hit + "    output_file.remove()\n",
        "ClearNever": "if output_path and not args.no_cache:\n    output_file = BaseFile(output_path)\n"
                      "    if output_file.exists():" + hit,
        "ClearAlways": "if output_path:\n    output_file = BaseFile(output_path)\n"
                       "    if not args.no_cache and output_file.exists():" + hit + "    output_file.remove()\n",
    }
    block = src(tb[calls[0] - 1])
    clear_output = None
    for name, text in shapes.items():
        if src(ast.parse(text).body[0]) == block:
            clear_output = name
    if clear_output is None:
        fail(f"oneshot_command: unrecognised cache / stale-output block before the task call: {block!r}", tb[calls[0] - 1])
    osc_norm = copy.deepcopy(osc)
    [t2] = [n for n in body_nodoc(osc_norm) if isinstance(n, ast.Try)]
    t2.body[calls[0] - 1] = ast.Pass()
    if any("remove" in src(n) for n in t2.body) or any("remove" in src(n) for h_ in t2.handlers for n in h_.body):
        fail("oneshot_command: unexpected remove() inside the try block", osc)
    oneshot_pin = pin(osc_norm)

    # ------------------------------------------------------------------ job_array.py
    ja = load("redun/job_array.py")
    fn = find_func(ja, "get_job_array_index")
    if [a.arg for a in fn.args.args] != ["env", "env_var"] or [src(d) for d in fn.args.defaults] != [
            "cast(dict, os.environ)", "None"]:
        fail("get_job_array_index: signature/defaults changed", fn)
    body = body_nodoc(fn)
    if len(body) != 1 or not isinstance(body[0], ast.If):
        fail("get_job_array_index: expected one if/elif chain", fn)
    node = body[0]
    if not (src(node.test) == "env_var" and [src(x) for x in node.body] == ["return int(env[env_var])"]):
        fail("get_job_array_index: first branch must be `if env_var: return int(env[env_var])`", node)
    env_vars = []
    while True:
        if len(node.orelse) == 1 and isinstance(node.orelse[0], ast.If):
            node = node.orelse[0]
            t = node.test
            if not (isinstance(t, ast.Compare) and len(t.ops) == 1 and isinstance(t.ops[0], ast.In)
                    and isinstance(t.left, ast.Name) and src(t.comparators[0]) == "env"):
                fail(f"get_job_array_index: unrecognised test {src(t)!r}", node)
            var = t.left.id
            if [src(x) for x in node.body] != [f"return int(env[{var}])"]:
                fail(f"get_job_array_index: unrecognised branch for {var}", node)
            env_vars.append(str_const(ja, var, "job_array.py"))
            continue
        if [src(x) for x in node.orelse] != ["return None"]:
            fail("get_job_array_index: final else must `return None`", node)
        break
    if not env_vars:
        fail("get_job_array_index: no environment variables recognised", fn)

    # JobDescription: the arrayer's grouping key
    jd = find_class(ja, "JobDescription")
    init = find_func(ja, "__init__", "JobDescription")
    if [a.arg for a in init.args.args] != ["self", "job"]:
        fail("JobDescription.__init__: signature changed", init)
    got = [src(x) for x in body_nodoc(init)]
    key_fields = {"self.task_name = job.task.fullname": "KFullname", "self.task_name = job.task.name": "KName"}
    key_shapes = {"self.key = self.task_name + ' ' + str(sorted(self.options.items()))": "OItems",
                  "self.key = f'{self.task_name} {sorted(self.options.items())}'": "OItems",
                  "self.key = self.task_name + ' ' + str(sorted(self.options))": "ONames",
                  "self.key = f'{self.task_name} {sorted(self.options)}'": "ONames"}
    if len(got) != 3 or got[0] not in key_fields or got[1] != "self.options = job.get_options()" \
            or got[2] not in key_shapes:
        fail(f"JobDescription.__init__: unrecognised body {got!r}", init)
    key_task = key_fields[got[0]]
    key_opts = key_shapes[got[2]]
    if [src(x) for x in body_nodoc(find_func(ja, "__hash__", "JobDescription"))] != ["return hash(self.key)"]:
        fail("JobDescription.__hash__: must hash the key")
    if [src(x) for x in body_nodoc(find_func(ja, "__eq__", "JobDescription"))] != [
            "return isinstance(other, JobDescription) and self.key == other.key"]:
        fail("JobDescription.__eq__: must compare the key")
    if jd.bases or jd.keywords:
        fail("JobDescription: unexpected base classes", jd)

    # ------------------------------------------------------------------ aws_batch.py
    ab = load("redun/executors/aws_batch.py")
    suffix = str_const(ab, "ARRAY_JOB_SUFFIX", "aws_batch.py")
    fn = find_func(ab, "is_array_job_name")
    if src(single_return(fn, "is_array_job_name")) != "job_name.endswith(f'-{ARRAY_JOB_SUFFIX}')":
        fail("is_array_job_name: unexpected body", fn)
    fn = find_func(ab, "get_batch_job_name")
    if [a.arg for a in fn.args.args] != ["prefix", "job_hash", "array"]:
        fail("get_batch_job_name: signature changed", fn)
    if src(single_return(fn, "get_batch_job_name")) != \
            "'{}-{}{}'.format(prefix, job_hash, f'-{ARRAY_JOB_SUFFIX}' if array else '')":
        fail("get_batch_job_name: unexpected body", fn)
    fn = find_func(ab, "get_hash_from_job_name")
    got = [src(x) for x in body_nodoc(fn)]
    want = ["array_suffix = '-' + ARRAY_JOB_SUFFIX",
            "if job_name.endswith(array_suffix):\n    job_name = job_name[:-len(array_suffix)]",
            f"match = re.match({HASH_REGEX!r}, job_name)",
            "if match:\n    return match['hash']",
            "return None"]
    if got != want:
        fail(f"get_hash_from_job_name: unexpected body {got!r}", fn)
    if not any(isinstance(n, ast.Import) and any(a.name == "re" and a.asname is None for a in n.names) for n in ab.body):
        fail("aws_batch.py: `re` is not the standard module")

    # ------------------------------------------------------------------ pins
    got_pins = {}
    for rel, cls, name in PINNED:
        mod = {"redun/executors/scratch.py": sc, "redun/executors/command.py": cm,
               "redun/executors/aws_batch.py": ab, "redun/job_array.py": ja}.get(rel) or load(rel)
        key = f"{rel.split('/')[-1][:-3]}.{(cls + '.') if cls else ''}{name}"
        got_pins[key] = pin(find_func(mod, name, cls))
    got_pins["command.get_oneshot_command"] = oneshot_command_pin
    got_pins["cli.RedunClient.oneshot_command"] = oneshot_pin
    if pins is not None:
        for key, exp in pins.items():
            if got_pins.get(key) != exp:
                fail(f"{key}: shape changed (pin {got_pins.get(key)} != {exp}); the hand-written model of this "
                     f"function in coq/Model/Scratch.v is no longer known to match")
        missing = set(got_pins) - set(pins)
        if missing:
            fail(f"pins missing for {sorted(missing)}")

    def cs(x):
        return "(bs [" + ";".join(str(ord(ch)) for ch in x) + "]%N)"

    cfg = dict(fields, d_jobs=d_jobs, d_array=d_array, arr_suffix=suffix)
    v = ["(* GENERATED by translate/tr_scratch.py from /repo/redun/{executors/scratch.py,job_array.py,"
         "executors/aws_batch.py} -- do not edit *)",
         "From Coq Require Import List NArith Ascii.",
         "From RV Require Import Base.Decimal Base.Lit Model.Scratch.",
         "Import ListNotations.",
         "Definition gen : cfg := {|"]
    for k in ("f_input", "f_output", "f_error", "f_hashes", "d_jobs", "d_array", "arr_out_elem", "arr_err_elem",
              "arr_suffix"):
        v.append(f"  {k} := {cs(cfg[k])};  (* {cfg[k]!r} *)")
    v.append("  env_vars := [" + "; ".join(cs(x) for x in env_vars) + "];")
    v.append(f"  key_task := {key_task};  (* JobDescription.task_name *)")
    v.append(f"  stage_input := {stage_input};  (* get_oneshot_command, single-job input staging *)")
    v.append(f"  clear_output := {clear_output};  (* oneshot_command, removal of a previous output file *)")
    v.append(f"  key_opts := {key_opts}  (* JobDescription.key, option component *)")
    v.append("|}.")
    v.append("(* The theorems of Props/C32.v are about [shipped] (the code as it is, with the known defect of")
    v.append("   C32_stale_output_no_cache_refuted) and [fixed] (previous output always removed); this is the tie. *)")
    if clear_output == "ClearAlways":
        v.append("From RV Require Import Proofs.ScratchClear.")
        v.append("Lemma C32_tie : gen = fixed.")
    else:
        v.append("Lemma C32_tie : gen = shipped.")
    v.append("Proof. vm_compute. reflexivity. Qed.")
    return "\n".join(v) + "\n", got_pins, dict(cfg, env_vars=env_vars, key_task=key_task, stage_input=stage_input, clear_output=clear_output, key_opts=key_opts)


if __name__ == "__main__":
    text, pins, cfg = translate()
    sys.stdout.write(text)
    import json
    print(json.dumps(pins, indent=1), file=sys.stderr)
