"""Translator for the record-transfer code (C23) -> coq/Gen/C23Gen.v  (fail closed).

Extracted structurally (closed set of shapes, anything else -> TranslateError):
  * serializers.py: per serializer the keys that `serialize` writes and `deserialize` reads
    (-> gen_carried, tied to Model.Transfer.carried_keys); the expression behind the CallNode
    "children" key (-> cfg_child_order); whether subtree rows are carried (only "no" is known)
  * db/__init__.py: the CallNode.child_edges relationship (order_by or not); the `yield` tuples
    of the six get_*_child_edges functions (-> gen_edges, tied to edge_table); `_model_pks`
    (-> gen_pks); the condition of the `current_call_nodes` comprehension in `_get_call_node`
    (-> cfg_require_own)
Pinned by shape (hand-modelled, tied by the correspondence run): iter_record_ids,
_get_record_types, get_child_record_ids, get_records, has_records, put_records,
_postprocess_new_records, the edge functions, the serializer classes and `_get_call_node`
(variant sites masked), cli._sync_records / export_command / import_command / push / pull.
"""
from __future__ import annotations

import ast
import copy
import json
import sys
from pathlib import Path

from .astutil import TranslateError, body_nodoc, fail, find_assign, find_class, find_func, load, pin, src

DB = "redun/backends/db/__init__.py"
SER = "redun/backends/db/serializers.py"
CLI = "redun/cli.py"
PINS_FILE = Path(__file__).with_name("pins_C23.json")

SERIALIZERS = ["Execution", "Job", "Value", "CallNode", "Tag"]
EDGE_FUNCS = [("get_execution_child_edges", "Execution"), ("get_job_child_edges", "Job"),
              ("get_call_node_child_edges", "CallNode"), ("get_value_child_edges", "Value"),
              ("get_tag_child_edges", "Tag"), ("get_tag_entity_child_edges", "*")]
MASK = ast.Constant(value="__C23_VARIANT_SITE__")


# --------------------------------------------------------------------------- serializers
def returned_dict(fn, what):
    """The single dict display that the function returns or yields."""
    found = []
    for n in ast.walk(fn):
        if isinstance(n, (ast.Return, ast.Yield)) and isinstance(n.value, ast.Dict):
            found.append(n.value)
    if len(found) != 1:
        fail(f"{what}: expected exactly one returned/yielded dict display, found {len(found)}", fn)
    d = found[0]
    keys = []
    for k in d.keys:
        if not (isinstance(k, ast.Constant) and isinstance(k.value, str)):
            fail(f"{what}: non-literal key in the record dict", d)
        keys.append(k.value)
    if len(set(keys)) != len(keys):
        fail(f"{what}: duplicate key in the record dict", d)
    return d, keys


def spec_reads(fn, what):
    """Keys read as spec["k"] / spec.get("k") (outermost subscripts of the parameter `spec`)."""
    keys = []
    for n in ast.walk(fn):
        if isinstance(n, ast.Subscript) and isinstance(n.value, ast.Name) and n.value.id == "spec":
            if not (isinstance(n.slice, ast.Constant) and isinstance(n.slice.value, str)):
                fail(f"{what}: spec[...] with a non-literal key", n)
            if n.slice.value not in keys:
                keys.append(n.slice.value)
        if isinstance(n, ast.Call) and isinstance(n.func, ast.Attribute) and n.func.attr == "get" \
                and isinstance(n.func.value, ast.Name) and n.func.value.id == "spec":
            if not (n.args and isinstance(n.args[0], ast.Constant) and isinstance(n.args[0].value, str)):
                fail(f"{what}: spec.get(...) with a non-literal key", n)
            if n.args[0].value not in keys:
                keys.append(n.args[0].value)
    return keys


def dict_value(d, key):
    for k, v in zip(d.keys, d.values):
        if k.value == key:
            return v
    return None


def children_shape(expr):
    """-> 'plain' | 'sorted' for the CallNode "children" value."""
    if not (isinstance(expr, ast.ListComp) and len(expr.generators) == 1):
        fail('CallNodeSerializer "children": expected a list comprehension', expr)
    g = expr.generators[0]
    if g.ifs or g.is_async or not isinstance(g.target, ast.Name):
        fail('CallNodeSerializer "children": unexpected comprehension clause', expr)
    v = g.target.id
    if src(expr.elt) != f"{v}.child_id":
        fail('CallNodeSerializer "children": element is not <edge>.child_id', expr)
    it = g.iter
    if src(it) == "call_node.child_edges":
        return "plain"
    if isinstance(it, ast.Call) and isinstance(it.func, ast.Name) and it.func.id == "sorted" \
            and len(it.args) == 1 and src(it.args[0]) == "call_node.child_edges" \
            and len(it.keywords) == 1 and it.keywords[0].arg == "key":
        k = it.keywords[0].value
        if isinstance(k, ast.Lambda) and len(k.args.args) == 1 and not k.args.defaults \
                and src(k.body) == f"{k.args.args[0].arg}.call_order":
            return "sorted"
        if src(k) in ("attrgetter('call_order')", "operator.attrgetter('call_order')"):
            return "sorted"
    fail('CallNodeSerializer "children": unrecognised iteration over the child edges', expr)


def mask_dict_value(tree, fn_name, key):
    """Copy of a class node with the value of `key` in fn_name's record dict replaced."""
    tree = copy.deepcopy(tree)
    for n in tree.body:
        if isinstance(n, ast.FunctionDef) and n.name == fn_name:
            for m in ast.walk(n):
                if isinstance(m, ast.Dict):
                    for j, k in enumerate(m.keys):
                        if isinstance(k, ast.Constant) and k.value == key:
                            m.values[j] = MASK
    return tree


def do_serializers(mod, pins_out):
    carried = {}
    children = None
    for name in SERIALIZERS:
        cls = find_class(mod, name + "Serializer")
        ser = find_func(mod, "serialize", cls.name)
        d, keys = returned_dict(ser, f"{cls.name}.serialize")
        if name == "Job":
            # the bulk path yields its own dict: same keys required
            d2, keys2 = returned_dict(find_func(mod, "serialize_query", cls.name), "JobSerializer.serialize_query")
            if keys2 != keys:
                fail("JobSerializer.serialize and serialize_query write different keys", cls)
        for fixed_key, val in (("_type", name),):
            v = dict_value(d, fixed_key)
            if not (isinstance(v, ast.Constant) and v.value == val):
                fail(f"{cls.name}: _type is not {val!r}", cls)
        reads = spec_reads(find_func(mod, "deserialize", cls.name), f"{cls.name}.deserialize")
        for k in reads:
            if k not in keys:
                fail(f"{cls.name}.deserialize reads key {k!r} that serialize does not write", cls)
        carried[name] = [k for k in keys if k in reads and not k.startswith("_")]
        if name == "CallNode":
            if any("subtree" in k for k in keys):
                fail("CallNodeSerializer writes a subtree key: shape not known to this translator", cls)
            children = children_shape(dict_value(d, "children"))
            pins_out["serializers.CallNodeSerializer"] = pin(mask_dict_value(cls, "serialize", "children"))
        else:
            pins_out[f"serializers.{cls.name}"] = pin(cls)
    rs = find_class(mod, "RecordSerializer")
    pins_out["serializers.RecordSerializer"] = pin(rs)
    pins_out["serializers.timestamps"] = pin(find_func(mod, "serialize_timestamp")) + pin(find_func(mod, "deserialize_timestamp"))
    pins_out["serializers.Serializer"] = pin(find_class(mod, "Serializer"))
    return carried, children


# --------------------------------------------------------------------------- db module
def relationship_order(mod):
    cls = find_class(mod, "CallNode")
    call = find_assign(cls.body, "child_edges")
    if not (isinstance(call, ast.Call) and src(call.func) == "relationship" and len(call.args) == 1
            and isinstance(call.args[0], ast.Constant) and call.args[0].value == "CallEdge"):
        fail("CallNode.child_edges is not relationship('CallEdge', ...)", call)
    kws = {k.arg: k.value for k in call.keywords}
    if set(kws) - {"primaryjoin", "back_populates", "order_by"}:
        fail("CallNode.child_edges: unknown relationship keyword " + ", ".join(sorted(set(kws))), call)
    if src(kws.get("primaryjoin", ast.Constant(value=None))) != "call_hash == CallEdge.parent_id":
        fail("CallNode.child_edges: unexpected primaryjoin", call)
    if "order_by" not in kws:
        return "none"
    ob = kws["order_by"]
    if src(ob) in ("CallEdge.call_order", "'CallEdge.call_order'"):
        return "call_order"
    fail("CallNode.child_edges: unrecognised order_by " + src(ob), call)


def do_edges(mod, pins_out):
    edges = []
    for fname, source in EDGE_FUNCS:
        fn = find_func(mod, fname)
        pins_out[f"db.{fname}"] = pin(fn)
        for n in ast.walk(fn):
            if isinstance(n, ast.YieldFrom):
                fail(f"{fname}: yield from", n)
            if isinstance(n, ast.Yield):
                t = n.value
                if not (isinstance(t, ast.Tuple) and len(t.elts) == 3 and isinstance(t.elts[0], ast.Constant)
                        and isinstance(t.elts[0].value, str) and isinstance(t.elts[1], ast.Name)):
                    fail(f"{fname}: yield is not (label, Model, id)", n)
                edges.append((n.lineno, t.elts[0].value, source, t.elts[1].id))
    edges.sort()
    return [(lab, s, tgt) for _, lab, s, tgt in edges]


def do_model_pks(mod):
    cls = find_class(mod, "RedunBackendDb")
    v = find_assign(cls.body, "_model_pks")
    if not isinstance(v, ast.List):
        fail("_model_pks is not a list display", v)
    out = []
    for e in v.elts:
        if not (isinstance(e, ast.Tuple) and len(e.elts) == 2 and isinstance(e.elts[0], ast.Name)
                and isinstance(e.elts[1], ast.Attribute) and src(e.elts[1].value) == e.elts[0].id):
            fail("_model_pks: entry is not (Model, Model.pk)", e)
        out.append((e.elts[0].id, e.elts[1].attr))
    return out


def do_edge_dispatch(mod):
    fn = find_func(mod, "get_child_record_ids", "RedunBackendDb")
    d = None
    for n in ast.walk(fn):
        if isinstance(n, ast.Assign) and len(n.targets) == 1 and src(n.targets[0]) == "model2edge_method":
            d = n.value
    if not isinstance(d, ast.Dict):
        fail("get_child_record_ids: model2edge_method dict not found", fn)
    got = [(src(k), src(v)) for k, v in zip(d.keys, d.values)]
    want = [(m, f) for f, m in EDGE_FUNCS if m != "*"]
    if got != want:
        fail(f"get_child_record_ids: model2edge_method is {got}, expected {want}", d)


def flatten_and(e):
    if isinstance(e, ast.BoolOp) and isinstance(e.op, ast.And):
        out = []
        for v in e.values:
            out += flatten_and(v)
        return out
    return [e]


def do_get_call_node(mod, pins_out):
    fn = find_func(mod, "_get_call_node", "RedunBackendDb")
    comp = None
    for n in ast.walk(fn):
        if isinstance(n, ast.Assign) and len(n.targets) == 1 and src(n.targets[0]) == "current_call_nodes":
            comp = n.value
    if not (isinstance(comp, ast.ListComp) and len(comp.generators) == 1):
        fail("_get_call_node: current_call_nodes is not a single list comprehension", fn)
    g = comp.generators[0]
    if src(comp.elt) != "call_node" or src(g.target) != "call_node" or src(g.iter) != "call_nodes":
        fail("_get_call_node: unexpected comprehension over call_nodes", comp)
    conj = []
    for c in g.ifs:
        conj += flatten_and(c)
    rows = "call_node2task_hashes[call_node.call_hash]"
    subset = own = False
    for c in conj:
        s = src(c)
        if s == f"{rows} <= scheduler_task_hashes":
            subset = True
        elif s in (f"task_hash in {rows}", f"call_node.task_hash in {rows}"):
            own = True
        else:
            fail(f"_get_call_node: unrecognised currency condition `{s}`", c)
    if not subset:
        fail("_get_call_node: the subset test against scheduler_task_hashes is missing", comp)
    masked = copy.deepcopy(fn)
    for n in ast.walk(masked):
        if isinstance(n, ast.Assign) and len(n.targets) == 1 and src(n.targets[0]) == "current_call_nodes":
            n.value.generators[0].ifs = [MASK]
    pins_out["db._get_call_node"] = pin(masked)
    return own


PINNED_METHODS = ["iter_record_ids", "_get_record_types", "get_child_record_ids", "get_records", "has_records",
                  "put_records", "_postprocess_new_records", "get_subtree_tasks"]
PINNED_CLI = ["_sync_records", "export_command", "import_command", "push_command", "pull_command"]


# --------------------------------------------------------------------------- Coq output
def cq_s(s):
    assert all(32 <= ord(c) < 127 and c != '"' for c in s), s
    return '"' + s + '"'


def translate(check_pins=True):
    ser = load(SER)
    dbm = load(DB)
    cli = load(CLI)
    pins = {}
    carried, children = do_serializers(ser, pins)
    rel = relationship_order(dbm)
    edges = do_edges(dbm, pins)
    pks = do_model_pks(dbm)
    do_edge_dispatch(dbm)
    own = do_get_call_node(dbm, pins)
    for m in PINNED_METHODS:
        pins[f"db.{m}"] = pin(find_func(dbm, m, "RedunBackendDb"))
    for m in PINNED_CLI:
        pins[f"cli.{m}"] = pin(find_func(cli, m, "RedunClient"))
    for t in ("CallEdge", "CallSubtreeTask", "TagEdit", "Subvalue", "ArgumentResult", "Argument"):
        pins[f"db.class.{t}"] = pin(find_class(dbm, t))

    if children == "sorted" or rel == "call_order":
        order = "ByCallOrder"
    else:
        order = "DbIndexOrder"
    info = {"child_order": order, "require_own": own, "carry_subtree": False, "pins": pins,
            "carried": carried, "edges": edges, "pks": pks}

    if check_pins:
        want = json.loads(PINS_FILE.read_text())["pins"] if PINS_FILE.exists() else {}
        bad = [k for k in sorted(set(want) | set(pins)) if want.get(k) != pins.get(k)]
        if bad:
            raise TranslateError("C23: shape of hand-modelled code changed (pins differ): " + ", ".join(bad)
                                 + " — re-read the code against Model/Transfer.v, then re-pin with "
                                   "`python3 -m translate.tr_transfer --pin`")

    L = []
    L.append("(* generated by translate/tr_transfer.py from redun/backends/db/{__init__,serializers}.py, redun/cli.py — do not edit *)")
    L.append("From Coq Require Import List NArith Bool String.")
    L.append("From RV Require Import Model.Transfer Proofs.TransferMain Proofs.TransferCache Props.C23.")
    L.append("Import ListNotations.\nOpen Scope string_scope.\nOpen Scope list_scope.\n")
    L.append(f"Definition gen_cfg : config := mkConfig {order} false {'true' if own else 'false'}.")
    L.append("Definition gen_carried : list (string * list string) :=\n  [ " + ";\n    ".join(
        f"({cq_s(n)}, [{'; '.join(cq_s(k) for k in carried[n])}])" for n in SERIALIZERS) + " ].")
    L.append("Definition gen_edges : list (string * string * string) :=\n  [ " + ";\n    ".join(
        f"({cq_s(a)}, {cq_s(b)}, {cq_s(c)})" for a, b, c in edges) + " ].")
    L.append("Definition gen_pks : list (string * string) :=\n  [ " + "; ".join(
        f"({cq_s(a)}, {cq_s(b)})" for a, b in pks) + " ].\n")
    L.append("(* the structure the theorems are about is the structure the code has now *)")
    L.append("Lemma C23_tie_carried : gen_carried = carried_keys. Proof. reflexivity. Qed.")
    L.append("Lemma C23_tie_edges : gen_edges = edge_table. Proof. reflexivity. Qed.")
    L.append("Lemma C23_tie_pks : gen_pks = model_pks. Proof. reflexivity. Qed.")
    if order == "DbIndexOrder" and not own:
        L.append("Lemma C23_tie_cfg : gen_cfg = shipped. Proof. reflexivity. Qed.")
    elif order == "ByCallOrder" and own:
        L.append("Lemma C23_tie_cfg : gen_cfg = fixed. Proof. reflexivity. Qed.")
    if order == "ByCallOrder":
        L.append("Lemma C23_now_preserves : forall src dst roots d n l i e, compat gen_cfg src dst ->\n"
                 "  sync gen_cfg src dst roots = Synced d n -> iter_record_ids src roots = WalkIds l ->\n"
                 "  In i l -> find src i = Some e -> exists e', find d i = Some e' /\\ equiv gen_cfg i e e'.\n"
                 "Proof. intros src dst roots d n l i e. apply (C23_transfer_preserves gen_cfg). reflexivity. Qed.")
        L.append("Lemma C23_now_children : children_in_call_order (synced gen_cfg w_src [] [1%N]) 10%N = Some [12; 11]%N.\n"
                 "Proof. vm_compute. reflexivity. Qed.")
    else:
        L.append("(* shipped: child edges are not serialised in call order *)")
        L.append("Lemma C23_now_children_refuted : children_in_call_order (synced gen_cfg w_src [] [1%N]) 10%N = Some [11; 12]%N.\n"
                 "Proof. vm_compute. reflexivity. Qed.")
    if own:
        L.append("Lemma C23_now_cache : forall src dst roots d n reg t a i, NoDup (ids dst) ->\n"
                 "  sync gen_cfg src dst roots = Synced d n -> get_call_node gen_cfg d reg t a = Some i -> ~ In i (ids dst) ->\n"
                 "  exists c, find src i = Some (ECall c) /\\ c_task c = t /\\ c_argsh c = a /\\ current gen_cfg reg c = true.\n"
                 "Proof. intros src dst roots d n reg t a i. apply (C23_cache_fixed gen_cfg). left. reflexivity. Qed.")
    else:
        L.append("(* shipped: the destination serves a transferred node the source refuses *)")
        L.append("Lemma C23_now_cache_refuted : get_call_node gen_cfg w_src w_reg w_task_main 40%N = None\n"
                 "  /\\ get_call_node gen_cfg (synced gen_cfg w_src [] [1%N]) w_reg w_task_main 40%N = Some 10%N.\n"
                 "Proof. split; vm_compute; reflexivity. Qed.")
    return "\n".join(L) + "\n", info


if __name__ == "__main__":
    if "--pin" in sys.argv:
        _, info = translate(check_pins=False)
        PINS_FILE.write_text(json.dumps({
            "_comment": "C23: shapes of the hand-modelled transfer code (Model/Transfer.v). Variant sites "
                        "(CallNodeSerializer 'children' expression, the currency condition in _get_call_node) are "
                        "masked and recognised structurally by tr_transfer.py.",
            "pins": info["pins"]}, indent=1) + "\n")
        print("pinned", len(info["pins"]))
    else:
        text, info = translate()
        print(text)
