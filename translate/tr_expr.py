"""Translator for the validity of expressions (redun/expression.py) -> part of coq/Gen/C04Gen.v  (fail closed).

A cached result can be an expression (a task returning `other(x, data=f)`).  To the scheduler's validity
check an Expression is one leaf Value; which of the values nested in it are compared with the outside world is
decided by the `is_valid` methods of the expression classes.  Extracted:
  * for TaskExpression (inherited by SchedulerExpression) and SimpleExpression, which argument containers the
    validity walk `all(not isinstance(value, Value) or value.is_valid() for value in iter_nested_value(X))`
    covers -- X = (self.args, self.kwargs) or X = self.args -- whether the method is the class's own or
    inherited from ApplyExpression (Model/FileVal.v `evariant`);
  * that TaskExpression first requires the task name to be registered.
Anything else (another container, a class of the hierarchy overriding is_valid, no walk at all) -> TranslateError.
Pinned by shape (pins_C04.json, keys expr.*): the constructors and (de)serialisation of these classes.
"""
from __future__ import annotations

import ast
import sys

from .astutil import TranslateError, body_nodoc, fail, find_class, load, pin, src

WALKS = {
    "all((not isinstance(value, Value) or value.is_valid() for value in iter_nested_value((self.args, self.kwargs))))": True,
    "all((not isinstance(value, Value) or value.is_valid() for value in iter_nested_value(self.args)))": False,
}
KNOWN = "bool(get_task_registry().get(self.task_name))"
BASES = {"ApplyExpression": "Expression", "TaskExpression": "ApplyExpression", "SimpleExpression": "ApplyExpression",
         "SchedulerExpression": "TaskExpression", "ValueExpression": "Expression"}
PINNED = [("ApplyExpression", "__init__"), ("TaskExpression", "__init__"), ("TaskExpression", "__getstate__"),
          ("TaskExpression", "__setstate__"), ("SimpleExpression", "__init__"), ("SimpleExpression", "__getstate__"),
          ("SimpleExpression", "__setstate__"), ("Expression", "__getstate__"),
          ("Expression", "__setstate__")]


def methods(cls):
    return {n.name: n for n in cls.body if isinstance(n, (ast.FunctionDef, ast.AsyncFunctionDef))}


def walk_of(expr_src, what):
    if expr_src not in WALKS:
        fail(f"{what}: unrecognised validity walk {expr_src[:160]!r}")
    return WALKS[expr_src]


def plain_walk(fn, what):
    """`return <walk>` -> covers kwargs?"""
    body = body_nodoc(fn)
    if fn.decorator_list or len(body) != 1 or not isinstance(body[0], ast.Return):
        fail(f"{what}: expected a single return of the validity walk", fn)
    return walk_of(src(body[0].value), what)


def extract(source: str | None = None):
    mod = load("redun/expression.py", source)
    imp = {}
    for n in mod.body:
        if isinstance(n, ast.ImportFrom):
            for a in n.names:
                imp[a.asname or a.name] = (n.module, a.name)
    if imp.get("iter_nested_value") != ("redun.utils", "iter_nested_value"):
        fail("`iter_nested_value` is not imported from redun.utils")
    if imp.get("Value") != ("redun.value", "Value"):
        fail("`Value` is not imported from redun.value")
    top = [n.name for n in mod.body if isinstance(n, (ast.ClassDef, ast.FunctionDef))]
    cls = {}
    for name in ["Expression"] + list(BASES):
        if top.count(name) != 1:
            fail(f"class {name} defined {top.count(name)} times")
        cls[name] = find_class(mod, name)
    for name, base in BASES.items():
        got = [src(b).split("[")[0] for b in cls[name].bases]
        if got != [base]:
            fail(f"class {name}: bases {got}, expected [{base}]")
    for n in ast.walk(mod):            # no patching of is_valid from outside the class bodies
        if isinstance(n, (ast.Assign, ast.AugAssign)):
            for t in (n.targets if isinstance(n, ast.Assign) else [n.target]):
                if isinstance(t, ast.Attribute) and t.attr == "is_valid":
                    fail("is_valid assigned outside a class body", n)
    for name in ("Expression", "SchedulerExpression", "ValueExpression"):
        if "is_valid" in methods(cls[name]):
            fail(f"class {name} defines is_valid: not a recognised shape", cls[name])
    apply_walk = None
    if "is_valid" in methods(cls["ApplyExpression"]):
        apply_walk = plain_walk(methods(cls["ApplyExpression"])["is_valid"], "ApplyExpression.is_valid")

    # TaskExpression: [from redun.task import get_task_registry;] return bool(registry.get(name)) and <walk | super()>
    tm = methods(cls["TaskExpression"])
    if "is_valid" not in tm:
        fail("TaskExpression.is_valid not found (the registered-task test is part of the model)")
    body = list(body_nodoc(tm["is_valid"]))
    if body and isinstance(body[0], ast.ImportFrom):
        if src(body[0]) != "from redun.task import get_task_registry":
            fail("TaskExpression.is_valid: unexpected import", body[0])
        body = body[1:]
    if len(body) != 1 or not isinstance(body[0], ast.Return) or not isinstance(body[0].value, ast.BoolOp) \
            or not isinstance(body[0].value.op, ast.And) or len(body[0].value.values) != 2 \
            or src(body[0].value.values[0]) != KNOWN:
        fail("TaskExpression.is_valid: expected `return bool(get_task_registry().get(self.task_name)) and <walk>`",
             tm["is_valid"])
    second = src(body[0].value.values[1])
    if second == "super().is_valid()":
        if apply_walk is None:
            fail("TaskExpression.is_valid defers to super().is_valid() but ApplyExpression defines none")
        task_kw = apply_walk
    else:
        task_kw = walk_of(second, "TaskExpression.is_valid")

    sm = methods(cls["SimpleExpression"])
    if "is_valid" in sm:
        simple_kw = plain_walk(sm["is_valid"], "SimpleExpression.is_valid")
    elif apply_walk is not None:
        simple_kw = apply_walk
    else:
        fail("SimpleExpression has no validity walk (neither its own nor ApplyExpression's)")
    pins = {}
    for c, m in PINNED:
        fn = methods(cls[c]).get(m)
        if fn is None:
            fail(f"{c}.{m} not found")
        pins[f"expr.{c}.{m}"] = pin(fn)
    return {"task_walks_kwargs": task_kw, "simple_walks_kwargs": simple_kw}, pins


def translate(source: str | None = None, pins: dict | None = None):
    ev, got = extract(source)
    if pins is not None:
        for k, exp in pins.items():
            if k.startswith("expr.") and got.get(k) != exp:
                fail(f"{k}: shape changed (pin {got.get(k)} != {exp}); the hand-written model of expression leaves "
                     f"(Model/FileVal.v LExpr) is no longer known to match")
    b = lambda x: "true" if x else "false"
    v = ["(* GENERATED by translate/tr_expr.py from /repo/redun/expression.py -- do not edit *)",
         f"Definition gen_ev : evariant := mkEV {b(ev['task_walks_kwargs'])} {b(ev['simple_walks_kwargs'])}."]
    if ev["task_walks_kwargs"] and ev["simple_walks_kwargs"]:
        v.append("(* the validity walk of expressions covers positional and keyword arguments: the theorems with premise\n"
                 "   [full ev] apply *)\nLemma C04_tie_expr : gen_ev = full_ev.\nProof. reflexivity. Qed.")
    else:
        v.append("(* the validity walk of some expression class covers the positional arguments only:\n"
                 "   C04_refuted_expr_args_only / C04_expr_kwargs_unchecked_when_args_only apply *)")
        for k in ("task_walks_kwargs", "simple_walks_kwargs"):
            v.append(f"Lemma C04_site_{k} : {k} gen_ev = {b(ev[k])}.\nProof. reflexivity. Qed.")
    return "\n".join(v) + "\n", ev, got


if __name__ == "__main__":
    text, ev, pins = translate()
    sys.stdout.write(text)
    import json
    print(json.dumps(pins, indent=1), file=sys.stderr)
