"""Translator for the Handle fork key (redun/scheduler.py `_preprocess_args` and its call site in
`_exec_job_main_thread`, redun/handle.py `Handle.preprocess`) -> the `cfg` record of
coq/Model/Timing.v (coq/Gen/C07Gen.v).  Fail closed.

Extracted (structure, not digest):
  * whether `_preprocess_args` does its work on EVERY call or once per job (memo on the job) — the
    call site in `_exec_job_main_thread` must be the single, unconditional one on the entry path;
  * the counter: `job.parent_job.handle_forks[value.get_hash()]`, incremented before / after the read,
    the call order of a job without parent;
  * the scope of the counter: every Job creates its own `handle_forks` (a child uses its PARENT's), or
    Execution creates one that every Job aliases (one counter per execution);
  * the lifetime of a `_pending_expr[parent_job]` entry (`_evaluate_apply` / `_finalize_job`): until the parent job is
    finalized, or deleted when the entry's promise settles (Model/PendingExpr.v);
  * `Handle.preprocess`: `self.fork(self.__handle__.key or str(call_order))` (key reuse) or
    `self.fork(str(call_order))`;
  * `_done_job_main_thread` postprocesses the result of a job that was not cached with `job.eval_hash`.
Pinned by shape (hand-modelled in Model/Timing.v, tied by the correspondence run): see PINNED.
"""
from __future__ import annotations

import ast
import json
import sys

from .astutil import TranslateError, body_nodoc, fail, find_class, find_func, load, pin, src

PINNED = [
    ("redun/handle.py", "Handle", "postprocess"),
    ("redun/handle.py", "Handle", "fork"),
    ("redun/handle.py", "Handle", "apply_call"),
    ("redun/handle.py", "Handle", "get_hash"),
    ("redun/handle.py", "Handle.HandleInfo", "fork"),
    ("redun/handle.py", "Handle.HandleInfo", "apply_call"),
    ("redun/handle.py", "Handle.HandleInfo", "get_hash"),
    ("redun/scheduler.py", "Scheduler", "_postprocess_result"),
    ("redun/scheduler.py", "Scheduler", "_resolve_job_main_thread"),
    ("redun/scheduler.py", "Job", "collapse"),
    ("redun/hashing.py", None, "hash_call_node"),
    ("redun/utils.py", None, "map_nested_value"),
]


def _find(mod, cls, name):
    if cls is None:
        return find_func(mod, name)
    scope = mod
    for part in cls.split("."):
        scope = find_class(scope, part)
    for n in scope.body:
        if isinstance(n, (ast.FunctionDef, ast.AsyncFunctionDef)) and n.name == name:
            return n
    fail(f"{cls}.{name} not found")


COUNTER = "job.parent_job.handle_forks[value.get_hash()]"


def _preprocess_value(fn):
    """The inner function `preprocess_value` of `_preprocess_args`: returns (read_after_incr, root_order)."""
    b = body_nodoc(fn)
    if [a.arg for a in fn.args.args] != ["value"] or len(b) != 4:
        fail("_preprocess_args.preprocess_value: unexpected signature / length", fn)
    first, second, third, last = b
    if not (isinstance(first, ast.If) and src(first.test) == "isinstance(value, Handle)"
            and len(first.body) == 2 and len(first.orelse) == 1):
        fail("preprocess_value: expected `if isinstance(value, Handle): ... else: ...`", first)
    inner, pa = first.body
    if src(pa) != "preprocess_args = {'call_order': call_order}" or src(first.orelse[0]) != "preprocess_args = {}":
        fail("preprocess_value: preprocess_args not as expected", pa)
    if not (isinstance(inner, ast.If) and src(inner.test) == "job.parent_job" and len(inner.body) == 2
            and len(inner.orelse) == 1):
        fail("preprocess_value: expected `if job.parent_job: <2 statements> else: <1 statement>`", inner)
    stm = [src(s) for s in inner.body]
    incr = f"{COUNTER} += 1"
    read = f"call_order = {COUNTER}"
    if stm == [incr, read]:
        read_after_incr = True
    elif stm == [read, incr]:
        read_after_incr = False
    else:
        fail(f"preprocess_value: unrecognised counter handling {stm}", inner)
    el = inner.orelse[0]
    if not (isinstance(el, ast.Assign) and src(el.targets[0]) == "call_order" and isinstance(el.value, ast.Constant)
            and isinstance(el.value.value, int) and not isinstance(el.value.value, bool) and el.value.value >= 0):
        fail("preprocess_value: call order of a job without parent is not a literal natural number", el)
    root_order = el.value.value
    if src(second) != "value2 = self.type_registry.preprocess(value, preprocess_args)":
        fail("preprocess_value: unexpected preprocess call", second)
    if not (isinstance(third, ast.If) and src(third.test) == "isinstance(value, Handle)" and not third.orelse
            and [src(s) for s in third.body] == ["assert value2 != value", "self.backend.advance_handle([value], value2)"]):
        fail("preprocess_value: unexpected Handle recording block", third)
    if src(last) != "return value2":
        fail("preprocess_value: unexpected return", last)
    return read_after_incr, root_order


def translate(sources: dict | None = None, pins: dict | None = None):
    sources = sources or {}
    mods = {rel: load(rel, sources.get(rel)) for rel in
            ("redun/scheduler.py", "redun/handle.py", "redun/hashing.py", "redun/utils.py")}
    sched = mods["redun/scheduler.py"]

    # ---- _preprocess_args ---------------------------------------------------------------
    fn = find_func(sched, "_preprocess_args", "Scheduler")
    if [a.arg for a in fn.args.args] != ["self", "job", "args", "kwargs"]:
        fail("_preprocess_args: signature changed", fn)
    b = body_nodoc(fn)
    work = "map_nested_value(preprocess_value, (args, kwargs))"
    memo = None
    if len(b) == 2 and isinstance(b[0], ast.FunctionDef) and src(b[1]) == f"return {work}":
        every_entry = True
        inner = b[0]
    elif (len(b) == 4 and isinstance(b[0], ast.If) and isinstance(b[1], ast.FunctionDef)
          and isinstance(b[0].test, ast.Compare)):
        # once per job:  if job.<memo> is not None: return job.<memo> / def ... / job.<memo> = work / return job.<memo>
        t = b[0].test
        if not (isinstance(t.left, ast.Attribute) and src(t.left.value) == "job" and len(t.ops) == 1
                and isinstance(t.ops[0], ast.IsNot) and src(t.comparators[0]) == "None"):
            fail("_preprocess_args: unrecognised guard", b[0])
        memo = t.left.attr
        if b[0].orelse or [src(s) for s in b[0].body] != [f"return job.{memo}"]:
            fail("_preprocess_args: unrecognised guard body", b[0])
        if src(b[2]) != f"job.{memo} = {work}" or src(b[3]) != f"return job.{memo}":
            fail("_preprocess_args: memo not stored / returned as expected", b[2])
        every_entry = False
        inner = b[1]
    else:
        fail("_preprocess_args: unrecognised shape", fn)
    if inner.name != "preprocess_value":
        fail("_preprocess_args: inner function renamed", inner)
    read_after_incr, root_order = _preprocess_value(inner)

    if memo is not None:
        # the memo must start as None and only be assigned here (or reset to None)
        init = find_func(sched, "__init__", "Job")
        inits = [s for s in ast.walk(init) if isinstance(s, (ast.Assign, ast.AnnAssign))
                 and src(s.targets[0] if isinstance(s, ast.Assign) else s.target) == f"self.{memo}"]
        if len(inits) != 1 or src(inits[0].value) != "None":
            fail(f"Job.__init__ does not initialise {memo} to None")
        for n in ast.walk(sched):
            if isinstance(n, (ast.Assign, ast.AnnAssign, ast.AugAssign)):
                tg = n.targets[0] if isinstance(n, ast.Assign) else n.target
                if isinstance(tg, ast.Attribute) and tg.attr == memo:
                    s_ = src(n)
                    ok = (src(tg.value) == "self" and src(n.value) == "None") or s_ == f"job.{memo} = {work}"
                    if not ok:
                        fail(f"unexpected assignment to the memo: {s_}", n)

    # ---- the call site ------------------------------------------------------------------
    calls = [n for n in ast.walk(sched) if isinstance(n, ast.Call) and src(n.func).endswith("._preprocess_args")]
    if len(calls) != 1:
        fail(f"expected exactly one call of _preprocess_args, found {len(calls)}")
    ex = find_func(sched, "_exec_job_main_thread", "Scheduler")
    top = [src(s) for s in body_nodoc(ex)]
    want = ["job.eval_args = eval_args", "args, kwargs = job.eval_args",
            "args, kwargs = job.args = self._preprocess_args(job, args, kwargs)",
            "job.eval_hash, job.args_hash = hash_args_eval(self.type_registry, job.task, args, kwargs)"]
    try:
        i = top.index(want[0])
    except ValueError:
        fail("_exec_job_main_thread: `job.eval_args = eval_args` not found at top level", ex)
    if top[i:i + 4] != want:
        fail(f"_exec_job_main_thread: call site of _preprocess_args changed: {top[i:i + 4]}", ex)
    for s in body_nodoc(ex)[:i]:
        if not isinstance(s, ast.Assert):
            fail(f"_exec_job_main_thread: unexpected statement before the call site: {src(s)}", s)

    # ---- waiting jobs re-enter with the UNPREPROCESSED arguments -------------------------
    dry = [n for n in body_nodoc(ex) if isinstance(n, ast.If) and src(n.test) == "not self._dryrun"]
    if len(dry) != 1 or "self._add_job_pending_limits(job, eval_args)" not in src(dry[0]):
        fail("_exec_job_main_thread: a waiting job is not queued with its eval_args", ex)
    chk = find_func(sched, "_check_jobs_pending_limits", "Scheduler")
    if "self._exec_job(job, eval_args)" not in src(chk):
        fail("_check_jobs_pending_limits: does not re-enter through _exec_job(job, eval_args)", chk)

    # ---- postprocess ----------------------------------------------------------------------
    done = find_func(sched, "_done_job_main_thread", "Scheduler")
    posts = [n for n in ast.walk(done) if isinstance(n, ast.If) and src(n.test) == "not job.was_cached"
             and any(src(s) == "result = self._postprocess_result(job, result, job.eval_hash)" for s in n.body)]
    if len(posts) != 1:
        fail("_done_job_main_thread: postprocess of a non-cached result with job.eval_hash not found", done)

    # ---- Handle.preprocess ----------------------------------------------------------------
    hp = _find(mods["redun/handle.py"], "Handle", "preprocess")
    hb = [src(s) for s in body_nodoc(hp)]
    if hb == ["call_order = preprocess_args['call_order']", "return self.fork(self.__handle__.key or str(call_order))"]:
        key_reuse = True
    elif hb == ["call_order = preprocess_args['call_order']", "return self.fork(str(call_order))"]:
        key_reuse = False
    else:
        fail(f"Handle.preprocess: unrecognised body {hb}", hp)

    # ---- scope of the fork counter ----------------------------------------------------------
    # every assignment to an attribute `handle_forks` in scheduler.py: either each Job makes its own
    # dict, or Execution makes one and every Job aliases it
    sites = []
    for cls_name in ("Job", "Execution"):
        cls_node = find_class(sched, cls_name)
        for n in ast.walk(cls_node):
            if isinstance(n, (ast.Assign, ast.AnnAssign)):
                tg = n.targets[0] if isinstance(n, ast.Assign) else n.target
                if isinstance(tg, ast.Attribute) and tg.attr == "handle_forks":
                    sites.append((cls_name, src(tg), src(n.value)))
    all_sites = [n for n in ast.walk(sched) if isinstance(n, (ast.Assign, ast.AnnAssign))
                 and isinstance(n.targets[0] if isinstance(n, ast.Assign) else n.target, ast.Attribute)
                 and (n.targets[0] if isinstance(n, ast.Assign) else n.target).attr == "handle_forks"]
    if len(all_sites) != len(sites):
        fail("handle_forks is assigned outside Job / Execution")
    if sites == [("Job", "self.handle_forks", "defaultdict(int)")]:
        per_parent = True
    elif sorted(sites) == [("Execution", "self.handle_forks", "defaultdict(int)"),
                           ("Job", "self.handle_forks", "execution.handle_forks if execution else defaultdict(int)")]:
        per_parent = False
    else:
        fail(f"unrecognised creation of the handle_forks counters: {sites}")
    for n in ast.walk(sched):
        if isinstance(n, ast.Attribute) and n.attr == "handle_forks":
            owner = src(n.value)
            if owner not in ("self", "job.parent_job", "execution"):
                fail(f"handle_forks read through an unexpected object: {owner}", n)

    # ---- lifetime of a `_pending_expr` entry -------------------------------------------------
    ea = find_func(sched, "_evaluate_apply", "Scheduler")
    tail = [src(x) for x in body_nodoc(ea)]
    reg = "self._pending_expr[parent_job][expr.get_hash()] = (promise, expr)"
    if tail[-2:] == [reg, "return promise"]:
        # nothing else may delete entries: only whole per-parent tables are popped
        dels = [n for n in ast.walk(sched) if isinstance(n, ast.Delete) and "_pending_expr" in src(n)]
        pops = [src(n) for n in ast.walk(sched) if isinstance(n, ast.Call) and src(n.func).endswith("_pending_expr.pop")]
        if dels or pops != ["self._pending_expr.pop(job, None)"]:
            fail(f"_pending_expr entries are removed in unexpected places: {pops} {[src(d) for d in dels]}")
        fin = find_func(sched, "_finalize_job", "Scheduler")
        if "self._pending_expr.pop(job, None)" not in [src(x) for x in body_nodoc(fin)]:
            fail("_finalize_job does not drop the job's _pending_expr table", fin)
        until_finalized = True
    else:
        # recognised alternative: the entry of a task expression is deleted when its promise settles
        rel = [n for n in body_nodoc(ea) if isinstance(n, ast.FunctionDef)
               and any(isinstance(d, ast.Delete) for d in ast.walk(n))]
        hooks = [x for x in tail if ".then(" in x and rel and rel[-1].name in x]
        if tail[-1] == "return promise" and len(rel) == 1 and hooks and any("pending_exprs[expr_hash] = (promise, expr)" == x
                                                                          or reg == x for x in tail):
            until_finalized = False
        else:
            fail(f"_evaluate_apply: registration in _pending_expr not recognised: {tail[-4:]}", ea)

    got = {}
    for rel, cls, name in PINNED:
        got[f"{cls + '.' if cls else ''}{name}"] = pin(_find(mods[rel], cls, name))
    if pins is not None:
        for k, v in pins.items():
            if got.get(k) != v:
                fail(f"{k}: shape changed (pin {got.get(k)} != {v}); the hand-written model (Model/Timing.v) may no longer match")

    bb = lambda x: "true" if x else "false"
    cfg = {"pre_every_entry": every_entry, "read_after_incr": read_after_incr, "root_order": root_order,
           "key_reuse": key_reuse, "forks_per_parent": per_parent,
           "pending_until_finalized": until_finalized}
    text = ("(* GENERATED by translate/tr_timing.py from /repo/redun/scheduler.py and /repo/redun/handle.py *)\n"
            "From RV Require Import Model.Timing.\n"
            f"Definition gen_cfg : cfg := {{| pre_every_entry := {bb(every_entry)}; read_after_incr := {bb(read_after_incr)}; "
            f"root_order := {root_order}%nat; key_reuse := {bb(key_reuse)}; forks_per_parent := {bb(per_parent)} |}}.\n"
            f"Definition gen_pending_until_finalized : bool := {bb(until_finalized)}.\n")
    return text, cfg, got


if __name__ == "__main__":
    t, c, p = translate()
    sys.stdout.write(t)
    print(json.dumps(c), file=sys.stderr)
    print(json.dumps(p, indent=1), file=sys.stderr)
