"""Translator for redun/file.py (File / FileSet / Dir families) -> coq/Gen/C30Gen.v  (fail closed).

Extracted structurally (closed set of shapes, anything else -> TranslateError):
  * the class table: for File, FileSet, Dir, IFile, IFileSet, IDir, ContentFile, ContentFileSet,
    ContentDir the base class, `type_basename`, the family named by `classes = ...()`, and the
    meaning of `_calc_hash` / `is_valid` if the class defines them itself;
  * the three `*FileClasses.__getattr__` family maps;
  * where `update_hash()` is called: close hook of File.open, File.copy_to, Dir.copy_to,
    Dir.mkdir, Dir.rmdir, and that File.remove / File.touch do not re-hash;
  * the three repair sites (Model/FileVal.v `variant`): Dir.copy_to ends with
    dest_dir.update_hash(); ContentFile._calc_hash gives a hash for a missing path;
    ContentDir overrides _calc_hash hashing its members through `self` (ContentFile).
Hand-modelled and pinned by shape (translate/pins_C30.json): the `hash` properties, update_hash,
FileSet.__iter__, Dir.__init__/file/rel_path, Staging*.stage/unstage, LocalFileSystem.get_hash /
remove / touch / rmdir / copy / _open / glob / isfile, FileSystem.iter_file_hashes.
"""
from __future__ import annotations

import ast
import sys

from .astutil import TranslateError, body_nodoc, fail, find_class, find_func, load, pin, src

CLASSES = ["File", "FileSet", "Dir", "IFile", "IFileSet", "IDir", "ContentFile", "ContentFileSet", "ContentDir"]
FAMILIES = {
    "FileClasses": {"File": "File", "FileSet": "FileSet", "Dir": "Dir", "StagingFile": "StagingFile",
                    "StagingDir": "StagingDir"},
    "IFileClasses": {"File": "IFile", "FileSet": "IFileSet", "Dir": "IDir", "StagingFile": "IStagingFile",
                     "StagingDir": "IStagingDir"},
    "ContentFileClasses": {"File": "ContentFile", "FileSet": "ContentFileSet", "Dir": "ContentDir",
                           "StagingFile": "ContentStagingFile", "StagingDir": "ContentStagingDir"},
}
STAGING = {"StagingFile": ("Staging", "FileClasses"), "StagingDir": ("Staging", "FileClasses"),
           "IStagingFile": ("StagingFile", "IFileClasses"), "IStagingDir": ("StagingDir", "IFileClasses"),
           "ContentStagingFile": ("StagingFile", "ContentFileClasses"),
           "ContentStagingDir": ("StagingDir", "ContentFileClasses")}

# ---- recognised bodies (list of unparsed statements, docstring and comments stripped) -------------
CALC = {
    ("return self.filesystem.get_hash(self.path)",): "CkFsGetHash",
    ("if files is None:\n    files = list(self)",
     "return hash_struct([self.type_basename, self.pattern] + sorted((file.hash for file in files)))"): "CkSetMembers",
    ("file_hashes = self.filesystem.iter_file_hashes(self.path)",
     "return hash_struct([self.type_basename, self.path] + sorted(file_hashes))"): "CkDirFsIter",
    ("return hash_struct([self.type_basename, self.path])",): "CkPathOnly",
    ("return hash_struct([self.type_basename, self.pattern])",): "CkPatternOnly",
    ("with self.filesystem.open(self.path, mode='rb') as infile:\n    content_hash = hash_stream(infile)",
     "return hash_struct([self.type_basename, self.path, content_hash])"): "CkContentStream",
    # repaired: a missing path hashes as [basename, path, -1]
    ("try:\n    with self.filesystem.open(self.path, mode='rb') as infile:\n        content_hash = hash_stream(infile)\n"
     "except FileNotFoundError:\n    return hash_struct([self.type_basename, self.path, -1])",
     "return hash_struct([self.type_basename, self.path, content_hash])"): "CkContentStreamTotal",
    ("if not self.filesystem.exists(self.path):\n    return hash_struct([self.type_basename, self.path, -1])",
     "with self.filesystem.open(self.path, mode='rb') as infile:\n    content_hash = hash_stream(infile)",
     "return hash_struct([self.type_basename, self.path, content_hash])"): "CkContentStreamTotal",
    # repaired ContentDir: members hashed through self.classes.File
    ("if files is None:\n    files = list(self)",
     "return hash_struct([self.type_basename, self.path] + sorted((file.hash for file in files)))"): "CkDirMembers",
}
# which class may carry which meaning (a known body in the wrong class is not a known shape)
CALC_ALLOWED = {
    "File": {"CkFsGetHash"}, "FileSet": {"CkSetMembers"}, "Dir": {"CkDirFsIter"},
    "IFile": {"CkPathOnly"}, "IFileSet": {"CkPatternOnly"}, "IDir": {"CkPathOnly"},
    "ContentFile": {"CkContentStream", "CkContentStreamTotal"}, "ContentFileSet": set(),
    "ContentDir": {"CkDirMembers"},
}
VALID = {
    ("if not self._hash:\n    self.update_hash()\n    return True\nelse:\n    return self.hash == self._calc_hash()",): "VkCompare",
    ("return True",): "VkAlwaysTrue",
}
VALID_ALLOWED = {"File": {"VkCompare"}, "FileSet": {"VkCompare"}, "IFile": {"VkAlwaysTrue"},
                 "IFileSet": {"VkAlwaysTrue"}}

OPEN_BODY = (
    "stream = self.filesystem.open(self.path, mode, encoding=encoding, **kwargs)",
    "if set(mode) & {'w', 'a', 'x', '+'}:\n    original_close = stream.close\n\n"
    "    def close() -> None:\n        original_close()\n        self.update_hash()\n        stream.close = original_close\n"
    "    stream.close = close",
    "return stream",
)
FILE_COPY_BODY = (
    "if skip_if_exists and dest_file.exists():\n    return dest_file",
    "if self.filesystem.name == 'local' and dest_file.filesystem.name != 'local':\n"
    "    dest_file.filesystem.copy(self.path, dest_file.path)\nelse:\n    self.filesystem.copy(self.path, dest_file.path)",
    "dest_file.update_hash()",
    "return dest_file",
)
DIR_COPY_LOOP = ("for src_file in self:\n    rel_path = self.rel_path(src_file.path)\n    dest_file = dest_dir.file(rel_path)\n"
                 "    src_file.copy_to(dest_file, skip_if_exists=skip_if_exists)")
DIR_COPY = {
    (DIR_COPY_LOOP, "return dest_dir"): False,
    (DIR_COPY_LOOP, "dest_dir.update_hash()", "return dest_dir"): True,
}
SIMPLE = {
    ("Dir", "mkdir"): ("self.filesystem.mkdir(self.path)", "self.update_hash()"),
    ("Dir", "rmdir"): ("self.filesystem.rmdir(self.path, recursive)", "self.update_hash()"),
    ("File", "remove"): ("return self.filesystem.remove(self.path)",),
    ("File", "touch"): ("self.filesystem.touch(self.path, time)",),
    ("File", "write"): ("with self.open(mode=mode, encoding=encoding) as out:\n    out.write(data)",),
}

# hand-modelled, pinned
PINNED = [("File", "__init__"), ("File", "hash"), ("File", "update_hash"), ("File", "get_hash"),
          ("File", "__getstate__"), ("File", "__setstate__"), ("File", "stage"),
          ("FileSet", "__init__"), ("FileSet", "hash"), ("FileSet", "update_hash"), ("FileSet", "__iter__"),
          ("FileSet", "__getstate__"), ("FileSet", "__setstate__"), ("FileSet", "get_hash"),
          ("Dir", "__init__"), ("Dir", "hash"), ("Dir", "file"), ("Dir", "rel_path"), ("Dir", "stage"),
          ("Dir", "__getstate__"), ("Dir", "__setstate__"),
          ("StagingFile", "__init__"), ("StagingFile", "stage"), ("StagingFile", "unstage"),
          ("StagingDir", "__init__"), ("StagingDir", "stage"), ("StagingDir", "unstage"),
          ("FileSystem", "open"), ("FileSystem", "iter_file_hashes"),
          ("LocalFileSystem", "_ensure_dir"), ("LocalFileSystem", "_open"), ("LocalFileSystem", "exists"),
          ("LocalFileSystem", "remove"), ("LocalFileSystem", "touch"), ("LocalFileSystem", "mkdir"),
          ("LocalFileSystem", "rmdir"), ("LocalFileSystem", "get_hash"), ("LocalFileSystem", "copy"),
          ("LocalFileSystem", "glob"), ("LocalFileSystem", "isfile"), ("LocalFileSystem", "isdir"),
          (None, "glob_file"), (None, "get_filesystem"), (None, "get_proto"), (None, "get_filesystem_class")]


def stmts(fn):
    return tuple(src(s) for s in body_nodoc(fn))


def methods(cls):
    return {n.name: n for n in cls.body if isinstance(n, (ast.FunctionDef, ast.AsyncFunctionDef))}


def class_attr(cls, name):
    for n in cls.body:
        if isinstance(n, ast.Assign) and len(n.targets) == 1 and isinstance(n.targets[0], ast.Name) \
                and n.targets[0].id == name:
            return n.value
        if isinstance(n, ast.AnnAssign) and isinstance(n.target, ast.Name) and n.target.id == name and n.value:
            return n.value
    return None


def family_map(cls):
    """FileClasses.__getattr__: an if/elif chain `attr == "X": return Y`, final else raises AttributeError."""
    fn = methods(cls).get("__getattr__")
    if fn is None:
        fail(f"{cls.name}.__getattr__ not found", cls)
    body = body_nodoc(fn)
    if len(body) != 1 or not isinstance(body[0], ast.If):
        fail(f"{cls.name}.__getattr__: expected one if/elif chain", fn)
    out = {}
    node = body[0]
    while True:
        t = node.test
        if not (isinstance(t, ast.Compare) and src(t.left) == "attr" and len(t.ops) == 1 and isinstance(t.ops[0], ast.Eq)
                and isinstance(t.comparators[0], ast.Constant) and isinstance(t.comparators[0].value, str)):
            fail(f"{cls.name}.__getattr__: unrecognised test {src(t)!r}", t)
        if not (len(node.body) == 1 and isinstance(node.body[0], ast.Return) and isinstance(node.body[0].value, ast.Name)):
            fail(f"{cls.name}.__getattr__: unrecognised branch", node)
        key = t.comparators[0].value
        if key in out:
            fail(f"{cls.name}.__getattr__: duplicate key {key}", t)
        out[key] = node.body[0].value.id
        if len(node.orelse) == 1 and isinstance(node.orelse[0], ast.If):
            node = node.orelse[0]
            continue
        if not (len(node.orelse) == 1 and isinstance(node.orelse[0], ast.Raise)
                and src(node.orelse[0].exc) == "AttributeError(attr)"):
            fail(f"{cls.name}.__getattr__: final else must raise AttributeError(attr)", node)
        return out


def extract(source: str | None = None):
    mod = load("redun/file.py", source)
    # names that the recognised bodies rely on must be the expected imports, defined once
    imp = {}
    for n in mod.body:
        if isinstance(n, ast.ImportFrom):
            for a in n.names:
                imp[a.asname or a.name] = (n.module, a.name)
    for nm in ("hash_struct", "hash_stream"):
        if imp.get(nm) != ("redun.hashing", nm):
            fail(f"`{nm}` is not imported from redun.hashing")
    top_defs = [n.name for n in mod.body if isinstance(n, (ast.ClassDef, ast.FunctionDef))]
    for nm in CLASSES + list(FAMILIES) + list(STAGING):
        if top_defs.count(nm) != 1:
            fail(f"class {nm} defined {top_defs.count(nm)} times")
    for n in ast.walk(mod):          # no monkey-patching of the classes at module level
        if isinstance(n, (ast.Assign, ast.AugAssign, ast.Delete)):
            for t in (n.targets if isinstance(n, (ast.Assign, ast.Delete)) else [n.target]):
                if isinstance(t, ast.Attribute) and isinstance(t.value, ast.Name) and t.value.id in CLASSES + list(STAGING):
                    fail(f"class attribute assigned outside the class body: {src(t)}", n)

    fams = {}
    for fam, expect in FAMILIES.items():
        got = family_map(find_class(mod, fam))
        if got != expect:
            fail(f"{fam}.__getattr__ maps {got}, expected {expect}")
        fams[fam] = got
    for fam, base in (("IFileClasses", "FileClasses"), ("ContentFileClasses", "FileClasses")):
        if [src(b) for b in find_class(mod, fam).bases] != [base]:
            fail(f"{fam}: unexpected bases")

    rows = []
    for name in CLASSES:
        cls = find_class(mod, name)
        if cls.decorator_list or cls.keywords:
            fail(f"class {name}: decorators / metaclass not recognised", cls)
        bases = [src(b) for b in cls.bases]
        if len(bases) != 1:
            fail(f"class {name}: expected exactly one base, got {bases}", cls)
        bn = class_attr(cls, "type_basename")
        if not (isinstance(bn, ast.Constant) and isinstance(bn.value, str)):
            fail(f"class {name}: type_basename is not a string constant", cls)
        fam = class_attr(cls, "classes")
        if not (isinstance(fam, ast.Call) and isinstance(fam.func, ast.Name) and not fam.args and not fam.keywords
                and fam.func.id in FAMILIES):
            fail(f"class {name}: `classes` is not one of the known families", cls)
        ms = methods(cls)
        calc = "CkInherit"
        if "_calc_hash" in ms:
            calc = CALC.get(stmts(ms["_calc_hash"]))
            if calc is None or calc not in CALC_ALLOWED[name]:
                fail(f"{name}._calc_hash: unrecognised body", ms["_calc_hash"])
            if ms["_calc_hash"].decorator_list:
                fail(f"{name}._calc_hash: decorated", ms["_calc_hash"])
        valid = "VkInherit"
        if "is_valid" in ms:
            valid = VALID.get(stmts(ms["is_valid"]))
            if valid is None or valid not in VALID_ALLOWED.get(name, set()):
                fail(f"{name}.is_valid: unrecognised body", ms["is_valid"])
            if ms["is_valid"].decorator_list:
                fail(f"{name}.is_valid: decorated", ms["is_valid"])
        # a subclass must not redefine the hand-modelled methods of its base
        if name not in ("File", "FileSet", "Dir"):
            extra = set(ms) - {"_calc_hash", "is_valid"}
            if extra:
                fail(f"class {name} defines further methods {sorted(extra)}: not modelled", cls)
        for forbidden in ("__getattribute__", "__getattr__", "__setattr__"):
            if forbidden in ms:
                fail(f"class {name} defines {forbidden}", cls)
        rows.append((name, bases[0], bn.value, fam.func.id, calc, valid))
    for name, (base, fam) in STAGING.items():
        cls = find_class(mod, name)
        if [src(b).split("[")[0] for b in cls.bases] != [base]:
            fail(f"class {name}: unexpected bases")
        f = class_attr(cls, "classes")
        if not (isinstance(f, ast.Call) and src(f) == f"{fam}()"):
            fail(f"class {name}: unexpected `classes`")
        if name not in ("StagingFile", "StagingDir") and methods(cls):
            fail(f"class {name} defines methods: not modelled")

    fm, dm = methods(find_class(mod, "File")), methods(find_class(mod, "Dir"))
    if stmts(fm["open"]) != OPEN_BODY:
        fail("File.open: unrecognised body (close hook of writable streams)", fm["open"])
    if stmts(fm["copy_to"]) != FILE_COPY_BODY:
        fail("File.copy_to: unrecognised body", fm["copy_to"])
    dc = DIR_COPY.get(stmts(dm["copy_to"]))
    if dc is None:
        fail("Dir.copy_to: unrecognised body", dm["copy_to"])
    for (c, m), body in SIMPLE.items():
        fn = methods(find_class(mod, c)).get(m)
        if fn is None or stmts(fn) != body:
            fail(f"{c}.{m}: unrecognised body", fn)
    for c, m in (("File", "copy_to"), ("Dir", "copy_to"), ("File", "write"), ("File", "open")):
        fn = methods(find_class(mod, c))[m]
        if fn.decorator_list:
            fail(f"{c}.{m}: decorated", fn)
        d = [src(x) for x in fn.args.defaults]
        exp = {"copy_to": ["False"], "write": ["'w'", "None"], "open": ["'r'", "None"]}[m]
        if d != exp:
            fail(f"{c}.{m}: default arguments {d}, expected {exp}", fn)

    # how the local filesystem provides Dir._calc_hash with the member hashes: only the inherited generic
    # FileSystem.iter_file_hashes (iterate Dir(path), i.e. the same listing that iterating a Dir uses) is
    # recognised; an own LocalFileSystem.iter_file_hashes may hash other files than the Dir lists
    lfs = methods(find_class(mod, "LocalFileSystem"))
    if [src(b) for b in find_class(mod, "LocalFileSystem").bases] != ["FileSystem"]:
        fail("LocalFileSystem: unexpected bases")
    if "iter_file_hashes" in lfs:
        fail("LocalFileSystem defines its own iter_file_hashes: the files it hashes are not known to be the files "
             "a Dir lists (Model/FileVal.v local_hash_walk = WalkListing)", lfs["iter_file_hashes"])
    for forbidden in ("__getattr__", "__getattribute__"):
        if forbidden in lfs:
            fail(f"LocalFileSystem defines {forbidden}")
    gen_ifh = methods(find_class(mod, "FileSystem")).get("iter_file_hashes")
    if gen_ifh is None or gen_ifh.decorator_list or stmts(gen_ifh) != ("for file in Dir(path):\n    yield file.hash",):
        fail("FileSystem.iter_file_hashes: unrecognised body (expected `for file in Dir(path): yield file.hash`)", gen_ifh)

    row = {r[0]: r for r in rows}
    variant = {
        "dir_copy_updates": dc,
        "content_missing_total": row["ContentFile"][4] == "CkContentStreamTotal",
        "contentdir_by_content": row["ContentDir"][4] == "CkDirMembers",
    }
    sites = {"us_open_close": True, "us_file_copy": True, "us_dir_copy": dc, "us_mkdir": True, "us_rmdir": True,
             "us_remove": False, "us_touch": False}
    pins = {}
    for c, m in PINNED:
        fn = find_func(mod, m, c)
        pins[f"file.{c + '.' if c else ''}{m}"] = pin(fn)
    return rows, variant, sites, pins


def cqb(b):
    return "true" if b else "false"


def translate(source: str | None = None, pins: dict | None = None):
    rows, variant, sites, got = extract(source)
    if pins is not None:
        for k, exp in pins.items():
            if k.startswith("file.") and got.get(k) != exp:
                fail(f"{k}: shape changed (pin {got.get(k)} != {exp}); the hand-written model in "
                     f"Model/FileVal.v is no longer known to match")
    v = ["(* GENERATED by translate/tr_file.py from /repo/redun/file.py -- do not edit *)",
         "From Coq Require Import List String.", "From RV Require Import Model.FileVal.", "Import ListNotations.",
         "Open Scope string_scope.",
         f"Definition gen_variant : variant := mkVar {cqb(variant['dir_copy_updates'])} "
         f"{cqb(variant['content_missing_total'])} {cqb(variant['contentdir_by_content'])}.",
         "Definition gen_table : list class_row := ["]
    v.append(";\n".join(f'  mkRow "{n}" "{b}" "{bn}" "{fam}" {c} {vk}' for n, b, bn, fam, c, vk in rows))
    v.append("].")
    v.append("Definition gen_sites : update_sites := mkSites " + " ".join(
        cqb(sites[k]) for k in ("us_open_close", "us_file_copy", "us_dir_copy", "us_mkdir", "us_rmdir", "us_remove",
                                "us_touch")) + ".")
    v.append("(* The theorems of Props/C30.v and Props/C04.v are about the model at [gen_variant]; the class table\n"
             "   and the update sites the model describes for that variant must be what the source says. *)")
    v.append("Lemma C30_tie_table : gen_table = class_table gen_variant.\nProof. reflexivity. Qed.")
    v.append("Lemma C30_tie_sites : gen_sites = sites_of gen_variant.\nProof. reflexivity. Qed.")
    v.append("(* LocalFileSystem inherits FileSystem.iter_file_hashes, which iterates Dir(path): the hashing walk of a\n"
             "   Dir is its listing (C30_dir_hash_is_over_the_listing) *)\n"
             "Definition gen_local_hash_walk : hash_walk := WalkListing.\n"
             "Lemma C30_tie_hash_walk : gen_local_hash_walk = local_hash_walk.\nProof. reflexivity. Qed.")
    return "\n".join(v) + "\n", variant, got


if __name__ == "__main__":
    text, variant, pins = translate()
    sys.stdout.write(text)
    import json
    print(json.dumps(pins, indent=1), file=sys.stderr)
