"""Translator for the scheduler's job bookkeeping (redun/scheduler.py, backends/db/__init__.py)
-> the `variant` record of coq/Model/JobMachine.v.  Fail closed.

Extracted (structure, not digest):
  * the guard of every `_release_resources` call site and where `_consume_resources` is called
  * whether the collapse / cache-hit early returns of `_exec_job_main_thread` re-check waiting jobs
  * whether `_finalize_job` pops `_pending_jobs` unconditionally
  * whether the CSE / call-node lookups filter on context only when the job has one
Pinned by shape (hand-modelled, tied by the trace correspondence): the helpers listed in PINNED.
"""
from __future__ import annotations

import ast
import json
import sys
from pathlib import Path

from .astutil import TranslateError, body_nodoc, fail, find_class, find_func, is_call, load, pin, src

PINNED = [
    ("redun/scheduler.py", "Scheduler", "_is_job_within_limits"),
    ("redun/scheduler.py", "Scheduler", "_consume_resources"),
    ("redun/scheduler.py", "Scheduler", "_release_resources"),
    ("redun/scheduler.py", "Scheduler", "_add_job_pending_limits"),
    ("redun/scheduler.py", "Scheduler", "_add_limits"),
    ("redun/scheduler.py", "Scheduler", "_check_jobs_pending_limits"),
    ("redun/scheduler.py", "Scheduler", "_check_pending_job"),
    ("redun/scheduler.py", "Scheduler", "_exec_job"),
    ("redun/scheduler.py", "Scheduler", "done_job"),
    ("redun/scheduler.py", "Scheduler", "reject_job"),
    ("redun/scheduler.py", "Scheduler", "_resolve_job"),
    ("redun/scheduler.py", "Job", "collapse"),
    ("redun/scheduler.py", "Job", "get_limits"),
]


def calls_in(node, name):
    return [n for n in ast.walk(node) if isinstance(n, ast.Call) and src(n.func) == name]


def release_guard(fn, flagname_out):
    """Return 'not_cached' or 'holds' for the single release site of fn."""
    sites = [n for n in ast.walk(fn) if isinstance(n, ast.If) and any(
        isinstance(s, ast.Expr) and isinstance(s.value, ast.Call) and src(s.value.func) == "self._release_resources"
        for s in n.body)]
    if len(sites) != 1 or len(calls_in(fn, "self._release_resources")) != 1:
        fail(f"{fn.name}: expected exactly one guarded _release_resources call", fn)
    site = sites[0]
    body = [src(s) for s in site.body]
    if site.orelse:
        fail(f"{fn.name}: release guard has an else branch", site)
    test = src(site.test)
    core = ["self._release_resources(job.get_limits())", "self._check_jobs_pending_limits()"]
    if test == "not job.was_cached":
        if body != core:
            fail(f"{fn.name}: unexpected body under `if not job.was_cached`: {body}", site)
        return "not_cached"
    if isinstance(site.test, ast.Attribute) and src(site.test.value) == "job":
        flag = site.test.attr
        if body != [f"job.{flag} = False"] + core:
            fail(f"{fn.name}: unexpected body under `if job.{flag}`: {body}", site)
        flagname_out.append(flag)
        return "holds"
    fail(f"{fn.name}: unrecognised release guard {test!r}", site)


def translate(sources: dict | None = None, pins: dict | None = None):
    sources = sources or {}
    mod = load("redun/scheduler.py", sources.get("redun/scheduler.py"))
    sched = find_class(mod, "Scheduler")

    # ---- release / consume call sites -------------------------------------------------
    all_release = [n for n in ast.walk(mod) if isinstance(n, ast.Call) and src(n.func).endswith("._release_resources")]
    all_consume = [n for n in ast.walk(mod) if isinstance(n, ast.Call) and src(n.func).endswith("._consume_resources")]
    if len(all_release) != 2 or len(all_consume) != 1:
        fail(f"expected 2 release sites and 1 consume site in scheduler.py, found {len(all_release)}/{len(all_consume)}")
    flags: list[str] = []
    g1 = release_guard(find_func(mod, "_done_job_main_thread", "Scheduler"), flags)
    g2 = release_guard(find_func(mod, "_reject_job_main_thread", "Scheduler"), flags)
    if g1 != g2 or len(set(flags)) > 1:
        fail(f"release guards differ between done ({g1}) and reject ({g2})")

    ex = find_func(mod, "_exec_job_main_thread", "Scheduler")
    # the consume site: `if not self._dryrun:` ... limits test ... consume
    dry = [n for n in ex.body if isinstance(n, ast.If) and src(n.test) == "not self._dryrun"]
    if len(dry) != 1:
        fail("_exec_job_main_thread: `if not self._dryrun:` block not found", ex)
    stm = [src(s) for s in dry[0].body]
    want = ["self._perform_rollbacks(args, kwargs)", "job_limits = job.get_limits()",
            "if not self._is_job_within_limits(job_limits):\n    self._add_job_pending_limits(job, eval_args)\n    return",
            "self._consume_resources(job_limits)"]
    if g1 == "holds":
        want.append(f"job.{flags[0]} = True")
    if stm != want:
        fail(f"_exec_job_main_thread: consume block changed: {stm}", dry[0])
    if g1 == "holds":
        # the flag must not be assigned anywhere else
        assigns = [n for n in ast.walk(mod) if (isinstance(n, ast.Assign) and any(
            isinstance(t, ast.Attribute) and t.attr == flags[0] for t in n.targets)) or (
            isinstance(n, ast.AnnAssign) and isinstance(n.target, ast.Attribute) and n.target.attr == flags[0])]
        okplaces = 0
        for a in assigns:
            s_ = src(a)
            if s_ in (f"job.{flags[0]} = True", f"job.{flags[0]} = False") or s_.startswith(f"self.{flags[0]}") and s_.endswith("= False"):
                okplaces += 1
            else:
                fail(f"unexpected assignment to the holds flag: {s_}", a)
        if okplaces != 4:
            fail(f"holds flag assigned in {okplaces} places, expected 4 (init, consume, 2 releases)")

    # ---- the context of a call: hashed from the value, recorded as a tag on the CallNode once it exists --------
    ctx_assign = [src(n) for n in ast.walk(ex) if isinstance(n, ast.Assign) and src(n.targets[0]) == "job.context_hash"]
    if ctx_assign != ["job.context_hash = self.type_registry.get_hash(context)"]:
        fail(f"_exec_job_main_thread: the context hash is computed as {ctx_assign} "
             "(expected the value hash of the context: an injective key for C05/C06)", ex)
    for fname in ("_resolve_job_main_thread", "_reject_job_main_thread"):
        fn = find_func(mod, fname, "Scheduler")
        rec = [n.lineno for n in ast.walk(fn) if isinstance(n, ast.Call) and src(n.func) == "self.backend.record_call_node"]
        tag = [n.lineno for n in ast.walk(fn) if isinstance(n, ast.Call) and src(n.func) == "self.backend.record_call_node_context"]
        helper = [n for n in ast.walk(fn) if isinstance(n, ast.Call) and "record_call_node_context" in src(n.func)
                  and src(n.func) != "self.backend.record_call_node_context"]
        if len(rec) != 1 or len(tag) != 1 or helper or not tag[0] > rec[0]:
            fail(f"{fname}: expected one record_call_node call followed by one record_call_node_context call "
                 f"(found lines {rec} / {tag}); a failed or finished call's node must get its context tag", fn)

    # ---- early returns of _exec_job_main_thread ---------------------------------------
    col = [n for n in ex.body if isinstance(n, ast.If) and src(n.test) == "self._check_pending_job(job) is not None"]
    hit = [n for n in ex.body if isinstance(n, ast.If) and src(n.test) == "job.was_cached"]
    if len(col) != 1 or len(hit) != 1:
        fail("_exec_job_main_thread: collapse / cache-hit blocks not found", ex)
    r1 = bool(calls_in(col[0], "self._check_jobs_pending_limits"))
    r2 = bool(calls_in(hit[0], "self._check_jobs_pending_limits"))
    if r1 != r2:
        fail("only one of the collapse / cache-hit early returns re-checks waiting jobs")
    order = [src(n.test) for n in ex.body if isinstance(n, ast.If)]
    exp_order = ["context", "self._check_pending_job(job) is not None", "job.was_cached", "not self._dryrun",
                 "job.recording_provenance()", "not executor", "job.task.is_async() and (not executor.supports_async())",
                 "self._dryrun", "not job.task.script"]
    order = [t for t in order if t != "job.get_option('cache_scope', CacheScope.BACKEND, as_type=CacheScope) != CacheScope.NONE"]
    if order != exp_order:
        fail(f"_exec_job_main_thread: order of decisions changed: {order}", ex)
    reg_overwrite = any(src(s) == "self._pending_jobs[job.eval_hash, job.context_hash] = job" for s in ex.body)
    reg_absent = any(
        isinstance(s, ast.If) and not s.orelse
        and src(s.test) == "job.get_option('cache_scope', CacheScope.BACKEND, as_type=CacheScope) != CacheScope.NONE"
        and [src(b) for b in s.body] == ["self._pending_jobs[job.eval_hash, job.context_hash] = job"]
        for s in ex.body)
    if reg_overwrite == reg_absent:
        fail("_exec_job_main_thread: registration in _pending_jobs not recognised", ex)

    # ---- _finalize_job ------------------------------------------------------------------
    fin = find_func(mod, "_finalize_job", "Scheduler")
    fb = [src(s) for s in body_nodoc(fin)]
    base = ["self._jobs.remove(job)", "self._finalized_jobs[job.task.fullname][job.status] += 1",
            "self._pending_expr.pop(job, None)"]
    if fb[:3] != base or len(fb) != 4:
        fail(f"_finalize_job: unexpected body {fb}", fin)
    if fb[3] == "self._pending_jobs.pop((job.eval_hash, job.context_hash), None)":
        pop_own = False
    elif fb[3] == ("if self._pending_jobs.get((job.eval_hash, job.context_hash)) is job:\n"
                   "    self._pending_jobs.pop((job.eval_hash, job.context_hash), None)"):
        pop_own = True
    else:
        fail(f"_finalize_job: unrecognised pop {fb[3]!r}", fin)
    if pop_own != reg_absent:
        fail("_pending_jobs: registration and removal disagree (one is owner-safe, the other is not)")

    # ---- context filter of the CSE / call-node lookups -------------------------------
    db = load("redun/backends/db/__init__.py", sources.get("redun/backends/db/__init__.py"))
    cc = find_func(db, "check_cache", "RedunBackendDb")
    gc = find_func(db, "_get_call_node", "RedunBackendDb")
    filt = []
    for fn in (cc, gc):
        ifs = [n for n in ast.walk(fn) if isinstance(n, ast.If) and "context_hash" in src(n.test)]
        if len(ifs) != 1:
            fail(f"{fn.name}: expected one context_hash test, found {len(ifs)}", fn)
        t = src(ifs[0].test)
        has_else = bool(ifs[0].orelse)
        if t == "context_hash" and not has_else:
            filt.append(False)
        elif t == "context_hash" and has_else and "CONTEXT_KEY" in src(ifs[0].orelse[0]):
            filt.append(True)     # context-free lookups exclude call nodes that carry a context tag
        else:
            fail(f"{fn.name}: unrecognised context filter `{t}`", ifs[0])
    if filt[0] != filt[1]:
        fail("check_cache and _get_call_node filter contexts differently")

    got = {}
    for rel, cls, name in PINNED:
        m = mod if rel.endswith("scheduler.py") else db
        got[f"{cls}.{name}"] = pin(find_func(m, name, cls))
    if pins is not None:
        for k, v in pins.items():
            if got.get(k) != v:
                fail(f"{k}: shape changed (pin {got.get(k)} != {v}); the hand-written job machine may no longer match")

    b = lambda x: "true" if x else "false"
    # ctx_exact: the recognised strict filter works on CallNode tags (`~exists(Tag on CallNode.call_hash)`), and a CallNode
    # is shared by every call with the same call hash, so a context-free look-up also skips the node of a context-free
    # call once a twin under a context tagged it: not exact. Without the else-branch nothing is skipped.
    variant = {"release_if_holds": g1 == "holds", "recheck_on_skip": r1, "ctx_strict": filt[0], "pending_owner_safe": pop_own,
               "ctx_exact": not filt[0]}
    text = ("(* GENERATED by translate/tr_sched.py from /repo/redun/scheduler.py and backends/db/__init__.py *)\n"
            "From RV Require Import Model.JobMachine.\n"
            f"Definition gen_variant : variant := {{| release_if_holds := {b(variant['release_if_holds'])}; "
            f"recheck_on_skip := {b(variant['recheck_on_skip'])}; ctx_strict := {b(variant['ctx_strict'])}; "
            f"pending_owner_safe := {b(variant['pending_owner_safe'])}; ctx_exact := {b(variant['ctx_exact'])} |}}.\n")
    return text, variant, got


if __name__ == "__main__":
    t, v, p = translate()
    sys.stdout.write(t)
    print(json.dumps(p, indent=1), file=sys.stderr)
