"""Helpers for fail-closed ast translators (stdlib `ast` only)."""
from __future__ import annotations

import ast
import copy
import hashlib
import os
from pathlib import Path

REPO = Path(os.environ.get("VERIF_REPO", "/repo"))


class TranslateError(Exception):
    pass


def fail(msg, node=None):
    where = f" (line {getattr(node, 'lineno', '?')})" if node is not None else ""
    raise TranslateError(msg + where)


def load(relpath: str, source: str | None = None) -> ast.Module:
    if source is None:
        source = (REPO / relpath).read_text()
    return ast.parse(source, filename=relpath)


def strip_docstrings(node):
    node = copy.deepcopy(node)
    for n in ast.walk(node):
        if isinstance(n, (ast.FunctionDef, ast.AsyncFunctionDef, ast.ClassDef, ast.Module)):
            if n.body and isinstance(n.body[0], ast.Expr) and isinstance(n.body[0].value, ast.Constant) \
                    and isinstance(n.body[0].value.value, str):
                n.body = n.body[1:] or [ast.Pass()]
    return node


def strip_annotations(node):
    node = copy.deepcopy(node)
    for n in ast.walk(node):
        if isinstance(n, (ast.FunctionDef, ast.AsyncFunctionDef)):
            n.returns = None
            for a in n.args.posonlyargs + n.args.args + n.args.kwonlyargs:
                a.annotation = None
            if n.args.vararg:
                n.args.vararg.annotation = None
            if n.args.kwarg:
                n.args.kwarg.annotation = None
    return node


def shape(node) -> str:
    """Formatting-, comment-, docstring- and annotation-insensitive dump of a node."""
    return ast.dump(strip_annotations(strip_docstrings(node)), annotate_fields=False)


def pin(node) -> str:
    return hashlib.sha256(shape(node).encode()).hexdigest()[:16]


def body_nodoc(fn):
    b = fn.body
    if b and isinstance(b[0], ast.Expr) and isinstance(b[0].value, ast.Constant) and isinstance(b[0].value.value, str):
        b = b[1:]
    return b


def find_func(mod, name, cls=None):
    scope = mod.body
    if cls is not None:
        for n in mod.body:
            if isinstance(n, ast.ClassDef) and n.name == cls:
                scope = n.body
                break
        else:
            fail(f"class {cls} not found")
    for n in scope:
        if isinstance(n, (ast.FunctionDef, ast.AsyncFunctionDef)) and n.name == name:
            return n
    fail(f"function {(cls + '.') if cls else ''}{name} not found")


def find_class(mod, name):
    for n in mod.body:
        if isinstance(n, ast.ClassDef) and n.name == name:
            return n
    fail(f"class {name} not found")


def find_assign(mod_or_body, name):
    body = mod_or_body.body if hasattr(mod_or_body, "body") else mod_or_body
    for n in body:
        if isinstance(n, ast.Assign) and len(n.targets) == 1 and isinstance(n.targets[0], ast.Name) \
                and n.targets[0].id == name:
            return n.value
        if isinstance(n, ast.AnnAssign) and isinstance(n.target, ast.Name) and n.target.id == name:
            return n.value
    fail(f"assignment to {name} not found")


def src(node) -> str:
    return ast.unparse(node)


def is_call(node, fname=None, nargs=None):
    if not isinstance(node, ast.Call):
        return False
    if fname is not None and src(node.func) != fname:
        return False
    if nargs is not None and (len(node.args) != nargs or node.keywords):
        return False
    return True


def expect_pin(node, expected: str, what: str):
    got = pin(node)
    if got != expected:
        fail(f"{what}: shape changed (pin {got}, expected {expected}); hand-written model may no longer match", node)
