"""Translator for redun/config.py (+ the two call sites in redun/scheduler.py) -> coq/Gen/C35Gen.v.

Fail closed: every anchored function must have one of the recognised shapes.  What is extracted:
the section separator, the `if path else key` join rule, the environment overlay of
RedunExtendedInterpolation, the identity optionxform, the guard of substitute_config_dir and
whether get_config_dict escapes '$' in the values it emits (as shipped: no; repaired: yes).
Pinned by shape (hand-modelled, tied by the correspondence run): Config.__init__ and the
configparser (CPython stdlib) functions the model re-implements.
"""
from __future__ import annotations

import ast
import sys

from .astutil import TranslateError, body_nodoc, fail, find_class, find_func, is_call, load, pin, src

STDLIB_PINS = [
    ("ExtendedInterpolation", None),
    ("RawConfigParser", "read_dict"), ("RawConfigParser", "set"), ("ConfigParser", "set"),
    ("RawConfigParser", "get"), ("RawConfigParser", "_unify_values"), ("RawConfigParser", "items"),
    ("RawConfigParser", "options"), ("RawConfigParser", "has_option"), ("RawConfigParser", "add_section"),
    ("ConfigParser", "add_section"), ("RawConfigParser", "sections"), ("RawConfigParser", "__getitem__"),
    ("SectionProxy", "__getitem__"), ("SectionProxy", "__setitem__"), ("SectionProxy", "__contains__"),
    ("SectionProxy", "_options"), ("SectionProxy", "__iter__"),
]


def binding_names(fn):
    """Names bound inside `fn` (parameters, assigned names, loop / comprehension targets, nested function
    names and their parameters) in order of their first binding site."""
    out = []

    def add(n):
        if n not in out:
            out.append(n)

    def visit(node):
        if isinstance(node, (ast.FunctionDef, ast.AsyncFunctionDef, ast.Lambda)):
            if node is not fn and hasattr(node, "name"):
                add(node.name)
            a = node.args
            for x in a.posonlyargs + a.args + ([a.vararg] if a.vararg else []) + a.kwonlyargs + ([a.kwarg] if a.kwarg else []):
                add(x.arg)
        elif isinstance(node, ast.Name) and isinstance(node.ctx, ast.Store):
            add(node.id)
        for c in ast.iter_child_nodes(node):
            visit(c)

    visit(fn)
    return out


def normalize_locals(fn, expected):
    """Rename the local names of `fn` to the names the recognisers below are written with (pairing them
    by binding order), so that renaming a local variable is not a change of shape. Anything that does
    not pair up is left alone and fails closed later."""
    got = binding_names(fn)
    if len(got) != len(expected) or got == expected:
        return fn
    ren = {g: e for g, e in zip(got, expected) if g != e}
    used = {n.id for n in ast.walk(fn) if isinstance(n, ast.Name)} | {a.arg for a in ast.walk(fn) if isinstance(a, ast.arg)}
    if any(e in used and e not in ren for e in ren.values()):
        return fn
    for n in ast.walk(fn):
        if isinstance(n, ast.Name) and n.id in ren:
            n.id = ren[n.id]
        elif isinstance(n, ast.arg) and n.arg in ren:
            n.arg = ren[n.arg]
        elif isinstance(n, (ast.FunctionDef, ast.AsyncFunctionDef)) and n is not fn and n.name in ren:
            n.name = ren[n.name]
    return fn


LOCALS = {
    "before_get": ["self", "parser", "section", "option", "value", "defaults"],
    "optionxform": ["self", "optionstr"],
    "RedunConfigParser.__init__": ["self", "args", "config", "kwargs"],
    "read_dict": ["self", "config_dict"],
    "read_string": ["self", "string"],
    "keys": ["self"],
    "__getitem__": ["self", "section_name"],
    "_parse_sections": ["self", "parser", "full_sections", "nested_sections", "full_section", "parts", "ptr", "part"],
    "get_config_dict": ["self", "replace_config_dir", "result", "local_config_dir", "substitute_config_dir", "s",
                        "convert_to_dict", "path", "obj", "k", "v", "key"],
}


def get_func(mod, name, cls):
    fn = find_func(mod, name, cls)
    key = f"{cls}.{name}" if f"{cls}.{name}" in LOCALS else name
    return normalize_locals(fn, LOCALS[key]) if key in LOCALS else fn


def stmts(fn):
    return [src(s) for s in body_nodoc(fn)]


def expect_body(fn, expected, what):
    got = stmts(fn)
    if got != expected:
        fail(f"{what}: unexpected body {got!r}", fn)


def stdlib_pins():
    import configparser
    mod = ast.parse(open(configparser.__file__).read())
    out = {}
    for cls, meth in STDLIB_PINS:
        c = find_class(mod, cls)
        if meth is None:
            out[f"configparser.{cls}"] = pin(c)
        else:
            out[f"configparser.{cls}.{meth}"] = pin(find_func(mod, meth, cls))
    if configparser.MAX_INTERPOLATION_DEPTH != 10:
        fail(f"configparser.MAX_INTERPOLATION_DEPTH is {configparser.MAX_INTERPOLATION_DEPTH}, the model has 10")
    if configparser.DEFAULTSECT != "DEFAULT":
        fail("configparser.DEFAULTSECT is not 'DEFAULT'")
    return out


def one_char(node, what):
    if not (isinstance(node, ast.Constant) and isinstance(node.value, str) and len(node.value) == 1
            and ord(node.value) < 128):
        fail(f"{what}: expected a one-character ASCII constant, got {src(node)!r}", node)
    return node.value


def translate(source: str | None = None, sched_source: str | None = None, pins: dict | None = None):
    mod = load("redun/config.py", source)

    # --- imports the shapes below rely on -------------------------------------------------
    ok = any(isinstance(n, ast.ImportFrom) and n.module == "configparser"
             and {"ConfigParser", "ExtendedInterpolation", "SectionProxy"} <= {a.name for a in n.names if a.asname is None}
             for n in mod.body)
    if not ok:
        fail("ConfigParser/ExtendedInterpolation/SectionProxy are not imported from configparser")
    if not any(isinstance(n, ast.Import) and any(a.name == "os" and a.asname is None for a in n.names) for n in mod.body):
        fail("`import os` not found")

    # --- RedunExtendedInterpolation.before_get --------------------------------------------------
    cls = find_class(mod, "RedunExtendedInterpolation")
    if [src(b) for b in cls.bases] != ["ExtendedInterpolation"]:
        fail("RedunExtendedInterpolation: unexpected bases", cls)
    meths = [n.name for n in cls.body if isinstance(n, (ast.FunctionDef, ast.AsyncFunctionDef))]
    if meths != ["before_get"]:
        fail(f"RedunExtendedInterpolation: unexpected methods {meths}", cls)
    fn = get_func(mod, "before_get", "RedunExtendedInterpolation")
    if [a.arg for a in fn.args.args] != ["self", "parser", "section", "option", "value", "defaults"]:
        fail("before_get: signature changed", fn)
    expect_body(fn, ["defaults = {**defaults, **os.environ}",
                     "return super().before_get(parser, section, option, value, defaults)"], "before_get")
    env_over = True

    # --- RedunConfigParser ---------------------------------------------------------------------------
    cls = find_class(mod, "RedunConfigParser")
    if [src(b) for b in cls.bases] != ["ConfigParser"]:
        fail("RedunConfigParser: unexpected bases", cls)
    meths = [n.name for n in cls.body if isinstance(n, (ast.FunctionDef, ast.AsyncFunctionDef))]
    if meths != ["__init__", "optionxform"]:
        fail(f"RedunConfigParser: unexpected methods {meths}", cls)
    expect_body(get_func(mod, "__init__", "RedunConfigParser"),
                ["super().__init__(*args, **kwargs)", "self.config = config"], "RedunConfigParser.__init__")
    fn = get_func(mod, "optionxform", "RedunConfigParser")
    if [a.arg for a in fn.args.args] != ["self", "optionstr"]:
        fail("optionxform: signature changed", fn)
    expect_body(fn, ["return optionstr"], "optionxform")
    case_sensitive = True

    # --- Config: read_dict / keys / __getitem__ ----------------------------------------------------
    find_class(mod, "Config")
    expect_body(get_func(mod, "read_dict", "Config"),
                ["self.parser.read_dict(config_dict)", "self._sections = self._parse_sections(self.parser)"],
                "Config.read_dict")
    expect_body(get_func(mod, "read_string", "Config"),
                ["self.parser.read_string(string)", "self._sections = self._parse_sections(self.parser)"],
                "Config.read_string")
    expect_body(get_func(mod, "keys", "Config"), ["return self._sections.keys()"], "Config.keys")
    expect_body(get_func(mod, "__getitem__", "Config"), ["return self._sections[section_name]"], "Config.__getitem__")
    init = find_func(mod, "__init__", "Config")
    if "self.parser = RedunConfigParser(config=self, interpolation=RedunExtendedInterpolation())" not in stmts(init):
        fail("Config.__init__: parser is not built with RedunExtendedInterpolation()", init)

    # --- Config._parse_sections ---------------------------------------------------------------------
    fn = get_func(mod, "_parse_sections", "Config")
    if [a.arg for a in fn.args.args] != ["self", "parser"]:
        fail("_parse_sections: signature changed", fn)
    b = body_nodoc(fn)
    if not (len(b) == 4 and src(b[0]) == "full_sections = parser.sections()"
            and src(b[1]).replace(" ", "") in ("nested_sections:dict={}", "nested_sections={}")
            and isinstance(b[2], ast.For) and src(b[2].target) == "full_section" and src(b[2].iter) == "full_sections"
            and not b[2].orelse and src(b[3]) == "return nested_sections"):
        fail("_parse_sections: unexpected outer shape", fn)
    lb = b[2].body
    if not (len(lb) == 4 and isinstance(lb[0], ast.Assign) and src(lb[0].targets[0]) == "parts"
            and is_call(lb[0].value, "full_section.split", 1)):
        fail("_parse_sections: expected `parts = full_section.split(<sep>)`", b[2])
    split_sep = one_char(lb[0].value.args[0], "_parse_sections separator")
    rest = [src(s) for s in lb[1:]]
    if rest != ["ptr = nested_sections",
                "for part in parts[:-1]:\n    if part not in ptr:\n        ptr[part] = {}\n    ptr = ptr[part]",
                "ptr[parts[-1]] = parser[full_section]"]:
        fail(f"_parse_sections: unexpected loop body {rest!r}", b[2])

    # --- Config.get_config_dict ----------------------------------------------------------------------
    fn = get_func(mod, "get_config_dict", "Config")
    if [a.arg for a in fn.args.args] != ["self", "replace_config_dir"] or src(fn.args.defaults[0]) != "None":
        fail("get_config_dict: signature changed", fn)
    b = body_nodoc(fn)
    if not (len(b) == 7 and src(b[0]) == "from redun.cli import get_config_dir" and src(b[1]) == "result = {}"
            and src(b[2]) == "local_config_dir = get_config_dir()"
            and isinstance(b[3], ast.FunctionDef) and b[3].name == "substitute_config_dir"
            and isinstance(b[4], ast.FunctionDef) and b[4].name == "convert_to_dict"
            and src(b[5]) == "convert_to_dict('', self)" and src(b[6]) == "return result"):
        fail("get_config_dict: unexpected outer shape", fn)
    sub = b[3]
    if [a.arg for a in sub.args.args] != ["s"]:
        fail("substitute_config_dir: signature changed", sub)
    expect_body(sub, ["if replace_config_dir is not None and isinstance(s, str):\n"
                      "    return s.replace(local_config_dir, replace_config_dir)", "return s"],
                "substitute_config_dir")
    subst_guarded = True
    conv = b[4]
    if [a.arg for a in conv.args.args] != ["path", "obj"]:
        fail("convert_to_dict: signature changed", conv)
    cb = body_nodoc(conv)
    if not (len(cb) == 2 and isinstance(cb[0], ast.If) and src(cb[0].test) == "isinstance(obj, SectionProxy)"
            and not cb[0].orelse and len(cb[0].body) == 2 and src(cb[0].body[1]) == "return"
            and isinstance(cb[0].body[0], ast.Assign) and src(cb[0].body[0].targets[0]) == "result[path]"
            and isinstance(cb[0].body[0].value, ast.DictComp)):
        fail("convert_to_dict: unexpected leaf branch", conv)
    dc = cb[0].body[0].value
    if not (src(dc.key) == "k" and len(dc.generators) == 1 and src(dc.generators[0].target) == "(k, v)"
            and src(dc.generators[0].iter) == "obj.items()" and not dc.generators[0].ifs):
        fail(f"convert_to_dict: unexpected comprehension {src(dc)!r}", dc)
    val = src(dc.value)
    if val == "substitute_config_dir(v)":
        escape_dollar = False
    elif val == "substitute_config_dir(v).replace('$', '$$')":
        escape_dollar = True
    else:
        fail(f"convert_to_dict: unrecognised emitted value {val!r}", dc)
    loop = cb[1]
    if not (isinstance(loop, ast.For) and src(loop.target) == "key" and src(loop.iter) == "obj.keys()"
            and not loop.orelse and len(loop.body) == 1 and isinstance(loop.body[0], ast.Expr)
            and is_call(loop.body[0].value, "convert_to_dict", 2) and src(loop.body[0].value.args[1]) == "obj[key]"):
        fail("convert_to_dict: unexpected recursion", conv)
    arg = loop.body[0].value.args[0]
    join_guard = None
    if (isinstance(arg, ast.IfExp) and src(arg.test) == "path" and src(arg.orelse) == "key"
            and isinstance(arg.body, ast.JoinedStr)):
        js = arg.body
        join_guard = True
    elif isinstance(arg, ast.JoinedStr):
        js = arg
        join_guard = False
    else:
        fail(f"convert_to_dict: unrecognised path expression {src(arg)!r}", arg)
    v = js.values
    if not (len(v) == 3 and isinstance(v[0], ast.FormattedValue) and src(v[0].value) == "path" and v[0].conversion == -1
            and v[0].format_spec is None and isinstance(v[2], ast.FormattedValue) and src(v[2].value) == "key"
            and v[2].conversion == -1 and v[2].format_spec is None):
        fail(f"convert_to_dict: unrecognised path format {src(js)!r}", js)
    join_sep = one_char(v[1], "convert_to_dict separator")
    if join_sep != split_sep:
        fail(f"separator used to join ({join_sep!r}) differs from the one used to split ({split_sep!r})", js)

    # --- the two call sites in scheduler.py ---------------------------------------------------------
    smod = load("redun/scheduler.py", sched_source)
    sub_fn = find_func(smod, "subrun")
    hit = [n for n in ast.walk(sub_fn) if isinstance(n, ast.If) and src(n.test) == "not config"
           and [src(s) for s in n.body] == ["config = scheduler.config.get_config_dict(replace_config_dir='.')"]]
    if len(hit) != 1:
        fail("subrun: `config = scheduler.config.get_config_dict(replace_config_dir='.')` under `elif not config` not found", sub_fn)
    root_fn = find_func(smod, "_subrun_root_task")
    hit = [n for n in ast.walk(root_fn) if isinstance(n, ast.Assign) and src(n) == "config_obj = Config(config_dict=config)"]
    if len(hit) != 1:
        fail("_subrun_root_task: `config_obj = Config(config_dict=config)` not found", root_fn)

    # --- pins -------------------------------------------------------------------------------------------
    got_pins = {"config.Config.__init__": pin(init)}
    got_pins.update(stdlib_pins())
    if pins is not None:
        for name, exp in pins.items():
            if got_pins.get(name) != exp:
                fail(f"{name}: shape changed (pin {got_pins.get(name)} != {exp}); the hand-written model of it is "
                     f"no longer known to match")

    def b2(x):
        return "true" if x else "false"

    variant = "fixed" if escape_dollar else "shipped"
    out = []
    out.append("(* GENERATED by translate/tr_config.py from /repo/redun/config.py -- do not edit *)")
    out.append("From Coq Require Import List NArith Ascii.")
    out.append("From RV Require Import Model.Config.")
    out.append("Import ListNotations.")
    out.append("Definition gen : config_cfg := {|")
    out.append(f"  sep := Ascii.ascii_of_N {ord(split_sep)}; join_guard := {b2(join_guard)}; env_over := {b2(env_over)};")
    out.append(f"  case_sensitive := {b2(case_sensitive)}; subst_guarded := {b2(subst_guarded)}; escape_dollar := {b2(escape_dollar)}")
    out.append("|}.")
    out.append(f"(* The theorems of Props/C35.v are about [shipped] (refuted) and [fixed]; the code is in the "
               f"[{variant}] variant. *)")
    out.append(f"Lemma C35_tie : gen = {variant}.")
    out.append("Proof. vm_compute. reflexivity. Qed.")
    return "\n".join(out) + "\n", got_pins, variant


if __name__ == "__main__":
    text, pins, variant = translate()
    sys.stdout.write(text)
    import json
    print(json.dumps(pins, indent=1), file=sys.stderr)
