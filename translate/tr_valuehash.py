"""Translator for the value-hash path (C16):
redun/value.py  ProxyValue.get_hash, Set.get_hash, the ProxyValue registrations;
redun/utils.py  PICKLE_PROTOCOL, pickle_dumps (and the set-ordering pickler of the repaired code)
-> coq/Gen/C16Gen.v  (fail closed).

Extracted into a `vh_cfg` (Model/ValueHash.v): the two tags, whether Set.get_hash applies
sorted(), whether it starts from the pickle-ordered elements, whether pickle_dumps orders
set elements by their own pickle, the pickle protocol.  Recognised shapes are a closed
set (the shipped code and the repaired code); anything else raises TranslateError.
Hand-modelled and only pinned by shape (tied by the bit-exact correspondence run):
TypeRegistry.get_hash / get_value / register (the _get_proxy_type loop is recognised structurally:
full MRO or bases only -> gen_depth), MetaValue.__init__,
ProxyValue.__init__, ProxyValue.serialize, RedunBackendDb.record_value (hands get_hash the
*unsorted* serialization as `data`; Set.get_hash must not use it), hashing.hash_tag_bytes, hashing.Hash.
"""
from __future__ import annotations

import ast
import sys

from .astutil import TranslateError, body_nodoc, fail, find_assign, find_class, find_func, load, pin, src

# raw types of the model universe (and their bases): a ProxyValue registered for one of
# them changes the dispatch the model assumes
UNIVERSE = {"bool", "int", "float", "str", "bytes", "tuple", "list", "dict", "set", "frozenset", "object",
            "NoneType", "type(None)"}
PINNED = [("redun/value.py", "TypeRegistry", "get_hash"), ("redun/value.py", "TypeRegistry", "get_value"),
          ("redun/value.py", "TypeRegistry", "register"),
          ("redun/value.py", "MetaValue", "__init__"), ("redun/value.py", "ProxyValue", "__init__"),
          ("redun/value.py", "ProxyValue", "serialize"),
          ("redun/backends/db/__init__.py", "RedunBackendDb", "record_value"),
          ("redun/hashing.py", None, "hash_tag_bytes"), ("redun/hashing.py", "Hash", "__init__"),
          ("redun/hashing.py", "Hash", "update"), ("redun/hashing.py", "Hash", "hexdigest")]

SET_GLOBALS = (b"cbuiltins\nset\n", b"cbuiltins\nfrozenset\n")


def stmts(fn):
    return [src(s) for s in body_nodoc(fn) if not isinstance(s, ast.Pass)]


def imported_from(mod, module, name):
    """`name` is bound exactly once at module level, by `from <module> import ... name ...`."""
    n_bind = 0
    ok = False
    for n in ast.walk(mod):
        if isinstance(n, ast.ImportFrom):
            for a in n.names:
                if (a.asname or a.name) == name:
                    n_bind += 1
                    ok = n in mod.body and n.module == module and a.name == name and a.asname is None
        elif isinstance(n, ast.Import):
            for a in n.names:
                if (a.asname or a.name).split(".")[0] == name:
                    n_bind += 1
        elif isinstance(n, (ast.FunctionDef, ast.AsyncFunctionDef, ast.ClassDef)) and n.name == name:
            n_bind += 1
        elif isinstance(n, ast.Name) and n.id == name and isinstance(n.ctx, (ast.Store, ast.Del)):
            n_bind += 1
        elif isinstance(n, ast.arg) and n.arg == name:
            n_bind += 1
    if not (ok and n_bind == 1):
        fail(f"`{name}` is not bound exactly once by `from {module} import {name}`")


def str_const(node, what):
    if not (isinstance(node, ast.Constant) and isinstance(node.value, str) and node.value.isascii()):
        fail(f"{what}: expected an ASCII string constant, got {src(node)!r}", node)
    return node.value


def tr_utils(mod):
    proto = find_assign(mod, "PICKLE_PROTOCOL")
    if not (isinstance(proto, ast.Constant) and type(proto.value) is int):
        fail("PICKLE_PROTOCOL is not an integer constant", proto)
    for n in ast.walk(mod):
        if isinstance(n, ast.Name) and n.id == "PICKLE_PROTOCOL" and isinstance(n.ctx, (ast.Store, ast.Del)) \
                and not any(isinstance(b, (ast.Assign, ast.AnnAssign)) and n in ast.walk(b) for b in mod.body):
            fail("PICKLE_PROTOCOL is rebound", n)
    ok = any(isinstance(n, ast.ImportFrom) and n.module == "pickle" and
             any(a.name == "dumps" and a.asname == "allowed_dumps_func" for a in n.names) for n in mod.body)
    if not ok:
        fail("allowed_dumps_func is not `from pickle import dumps as allowed_dumps_func`")
    fn = find_func(mod, "pickle_dumps")
    if [a.arg for a in fn.args.args] != ["obj"] or fn.args.vararg or fn.args.kwarg or fn.args.kwonlyargs or fn.decorator_list:
        fail("pickle_dumps: signature changed", fn)
    body = stmts(fn)
    call = "allowed_dumps_func(obj, protocol=PICKLE_PROTOCOL)"
    if body == [f"return {call}"]:
        return proto.value, False
    # the repaired shape
    want = [f"data = {call}",
            "if any((set_global in data for set_global in _SET_GLOBALS)):\n"
            "    file = io.BytesIO()\n"
            "    _StableSetPickler(file, protocol=PICKLE_PROTOCOL).dump(obj)\n"
            "    data = file.getvalue()",
            "return data"]
    if body != want:
        fail("pickle_dumps: unrecognised body (neither the plain pickle.dumps call nor the set-ordering variant): "
             + " | ".join(body)[:300], fn)
    g = find_assign(mod, "_SET_GLOBALS")
    if not (isinstance(g, ast.Tuple) and all(isinstance(e, ast.Constant) for e in g.elts)
            and tuple(e.value for e in g.elts) == SET_GLOBALS):
        fail("_SET_GLOBALS is not the pair of protocol-3 GLOBAL opcodes of set and frozenset", g)
    if proto.value != 3:
        fail("the set-ordering pickle_dumps detects sets by their protocol-3 GLOBAL opcode, but PICKLE_PROTOCOL != 3")
    if not any(isinstance(n, ast.Import) and any(a.name == "pickle" and a.asname is None for a in n.names) for n in mod.body) \
            or not any(isinstance(n, ast.Import) and any(a.name == "io" and a.asname is None for a in n.names) for n in mod.body):
        fail("`pickle` / `io` are not imported as modules")
    cls = find_class(mod, "_StableSetPickler")
    if [src(b) for b in cls.bases] != ["pickle._Pickler"] or cls.keywords or cls.decorator_list:
        fail("_StableSetPickler: bases changed", cls)
    cbody = stmts(cls)
    cwant = ["dispatch = dict(pickle._Pickler.dispatch)",
             "def save_stable_set(self, obj):\n"
             "    self.save_reduce(type(obj), (sorted(obj, key=pickle_dumps),), obj=obj)",
             "dispatch[set] = save_stable_set",
             "dispatch[frozenset] = save_stable_set"]
    if cbody != cwant:
        fail("_StableSetPickler: unrecognised body: " + " | ".join(cbody)[:300], cls)
    return proto.value, True


def tr_value(mod):
    imported_from(mod, "redun.hashing", "hash_tag_bytes")
    imported_from(mod, "redun.utils", "pickle_dumps")
    for b in ("sorted", "set", "frozenset", "bool"):
        for n in ast.walk(mod):
            if (isinstance(n, ast.Name) and n.id == b and isinstance(n.ctx, (ast.Store, ast.Del))) or \
                    (isinstance(n, (ast.FunctionDef, ast.ClassDef)) and n.name == b):
                fail(f"builtin `{b}` is rebound in value.py", n)
    # --- ProxyValue.get_hash ------------------------------------------------------
    fn = find_func(mod, "get_hash", "ProxyValue")
    if [a.arg for a in fn.args.args] != ["self", "data"] or fn.decorator_list:
        fail("ProxyValue.get_hash: signature changed", fn)
    b = body_nodoc(fn)
    if not (len(b) == 2 and src(b[0]) == "if data is None:\n    data = pickle_dumps(self.instance)"
            and isinstance(b[1], ast.Return) and isinstance(b[1].value, ast.Call)
            and src(b[1].value.func) == "hash_tag_bytes" and len(b[1].value.args) == 2 and not b[1].value.keywords
            and src(b[1].value.args[1]) == "data"):
        fail("ProxyValue.get_hash: expected `if data is None: data = pickle_dumps(self.instance)` and "
             "`return hash_tag_bytes(<tag>, data)`", fn)
    default_tag = str_const(b[1].value.args[0], "ProxyValue.get_hash tag")
    # --- proxy registrations ------------------------------------------------------------
    proxies = []
    for c in mod.body:
        if isinstance(c, ast.ClassDef) and any(src(x) == "ProxyValue" for x in c.bases):
            ty = None
            for s in c.body:
                if isinstance(s, ast.Assign) and len(s.targets) == 1 and src(s.targets[0]) == "type":
                    ty = src(s.value)
                elif isinstance(s, ast.AnnAssign) and src(s.target) == "type" and s.value is not None:
                    ty = src(s.value)
            own = [s.name for s in c.body if isinstance(s, (ast.FunctionDef, ast.AsyncFunctionDef))]
            proxies.append((c.name, ty, "get_hash" in own, "__init__" in own))
    in_universe = {(n, t) for n, t, _, _ in proxies if t in UNIVERSE}
    if in_universe != {("Bool", "bool"), ("Set", "set")}:
        fail(f"ProxyValue registrations for builtin value types changed: {sorted(in_universe)} "
             "(the model dispatches bool -> default hash, set -> Set.get_hash, everything else -> default hash)")
    for n, t, gh, init in proxies:
        if n == "Bool" and (gh or init):
            fail("Bool overrides get_hash/__init__")
        if n == "Set" and init:
            fail("Set overrides __init__")
    own_set = [s.name for s in find_class(mod, "Set").body if isinstance(s, (ast.FunctionDef, ast.AsyncFunctionDef))]
    if own_set != ["get_hash"]:
        fail(f"Set defines {own_set}; the model assumes it overrides get_hash only (serialize is ProxyValue's, and "
             "get_hash must ignore the serialized `data` it is handed by RedunBackendDb.record_value)")
    # --- Set.get_hash ----------------------------------------------------------------------
    fn = find_func(mod, "get_hash", "Set")
    if [a.arg for a in fn.args.args] != ["self", "data"] or fn.decorator_list:
        fail("Set.get_hash: signature changed", fn)
    b = body_nodoc(fn)
    if not (len(b) == 2 and isinstance(b[0], ast.Assign) and len(b[0].targets) == 1
            and isinstance(b[0].targets[0], ast.Name) and isinstance(b[0].value, ast.Call)
            and src(b[0].value.func) == "pickle_dumps" and len(b[0].value.args) == 1 and not b[0].value.keywords
            and isinstance(b[1], ast.Return) and isinstance(b[1].value, ast.Call)
            and src(b[1].value.func) == "hash_tag_bytes" and len(b[1].value.args) == 2 and not b[1].value.keywords
            and src(b[1].value.args[1]) == b[0].targets[0].id):
        fail("Set.get_hash: expected `<x> = pickle_dumps(<elements>)` and `return hash_tag_bytes(<tag>, <x>)`", fn)
    set_tag = str_const(b[1].value.args[0], "Set.get_hash tag")
    elems = src(b[0].value.args[0])
    if elems == "sorted(self.instance)":
        set_sorted, set_presort = True, False
    elif elems == "sorted(sorted(self.instance, key=pickle_dumps))":
        set_sorted, set_presort = True, True
    else:
        fail(f"Set.get_hash: unrecognised element order {elems!r}", fn)
    return default_tag, set_tag, set_sorted, set_presort, proxies


def tr_dispatch(mod):
    """TypeRegistry._get_proxy_type: which classes are searched for a registered proxy."""
    fn = find_func(mod, "_get_proxy_type", "TypeRegistry")
    if [a.arg for a in fn.args.args] != ["self", "raw_type"] or fn.decorator_list:
        fail("_get_proxy_type: signature changed", fn)
    b = body_nodoc(fn)
    if not (len(b) == 2 and isinstance(b[0], ast.For) and not b[0].orelse and src(b[0].target) == "super_raw_type"
            and [src(x) for x in b[0].body] == [
                "proxy_type = self._raw2proxy_type.get(super_raw_type)",
                "if proxy_type:\n    self._raw2proxy_type[raw_type] = proxy_type\n    return proxy_type"]
            and src(b[1]) == "return None"):
        fail("_get_proxy_type: expected `for super_raw_type in <classes>: proxy_type = self._raw2proxy_type.get("
             "super_raw_type); if proxy_type: memoise and return` then `return None`", fn)
    it = src(b[0].iter)
    if it == "raw_type.__class__.mro(raw_type)":
        return "FullMRO"
    if it == "(raw_type, *raw_type.__bases__)":
        return "BasesOnly"
    fail(f"_get_proxy_type: unrecognised search order {it!r}", b[0])


def cq_ascii_bytes(s: str) -> str:
    return "(s2b \"" + s.replace('"', '""') + "\"%string)"


def translate(pins: dict | None = None):
    umod = load("redun/utils.py")
    vmod = load("redun/value.py")
    hmod = load("redun/hashing.py")
    proto, canon_sets = tr_utils(umod)
    default_tag, set_tag, set_sorted, set_presort, proxies = tr_value(vmod)
    depth = tr_dispatch(vmod)
    mods = {"redun/utils.py": umod, "redun/value.py": vmod, "redun/hashing.py": hmod,
            "redun/backends/db/__init__.py": load("redun/backends/db/__init__.py")}
    got = {}
    for f, c, n in PINNED:
        got[f"{c + '.' if c else ''}{n}"] = pin(find_func(mods[f], n, c))
    if pins is not None:
        for k, exp in pins.items():
            if got.get(k) != exp:
                fail(f"{k}: shape changed (pin {got.get(k)} != {exp}); the hand-written dispatch / framing model "
                     "is no longer known to match")
    cfg = (default_tag, set_tag, set_sorted, set_presort, canon_sets, proto)
    shipped = ("Value", "Value.set", True, False, False, 3)
    fixed = ("Value", "Value.set", True, True, True, 3)
    variant = "shipped" if cfg == shipped else "fixed" if cfg == fixed else "other"
    b = lambda x: "true" if x else "false"
    v = []
    v.append("(* GENERATED by translate/tr_valuehash.py from /repo/redun/{value,utils}.py -- do not edit *)")
    v.append("From Coq Require Import List NArith Ascii String.")
    v.append("From RV Require Import Model.ValueHash Model.ProxyDispatch.")
    v.append("Definition gen : vh_cfg := {|")
    v.append(f"  default_tag := {cq_ascii_bytes(default_tag)}; set_tag := {cq_ascii_bytes(set_tag)};")
    v.append(f"  set_sorted := {b(set_sorted)}; set_presort := {b(set_presort)}; canon_sets := {b(canon_sets)}; "
             f"proto := {proto}%N |}}.")
    v.append("(* the classes TypeRegistry._get_proxy_type searches for a registered proxy *)")
    v.append(f"Definition gen_depth : search_depth := {depth}.")
    v.append("(* proxies seen in value.py: " + "; ".join(f"{n}:{t}:{'own get_hash' if g else 'default'}"
                                                         for n, t, g, _ in proxies) + " *)")
    if variant == "fixed":
        v.append("(* The current code is the repaired variant; C16_order_independent_fixed is about [fixed]. *)")
        v.append("Lemma C16_tie : gen = fixed.")
    else:
        v.append("(* The current code is (expected to be) the shipped variant; the _refuted / _partial theorems are about [shipped]. *)")
        v.append("Lemma C16_tie : gen = shipped.")
    v.append("Proof. vm_compute. reflexivity. Qed.")
    tie = ("(* GENERATED by translate/tr_valuehash.py -- do not edit *)\n"
           "From RV Require Import Model.ProxyDispatch Gen.C16Gen.\n"
           "(* C16_dispatch_history_independent is about the full-MRO search; a bases-only search is refuted\n"
           "   (C16_dispatch_bases_only_refuted). *)\n"
           "Lemma C16_tie_dispatch : gen_depth = FullMRO.\nProof. reflexivity. Qed.\n")
    return "\n".join(v) + "\n", {"variant": variant, "pins": got, "cfg": cfg, "proxies": proxies, "depth": depth,
                                 "tie": tie}


if __name__ == "__main__":
    text, info = translate()
    sys.stdout.write(text)
    print(info, file=sys.stderr)
