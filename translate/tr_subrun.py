"""Translator for C38 (sub-scheduler runs): redun/backends/db/__init__.py (check_cache, record_job_start, get_job)
and redun/scheduler.py (_get_cache, subrun, _subrun_root_task, Scheduler.run / extend_run, _evaluate_apply)
-> coq/Gen/C38Gen.v  (fail closed).

Extracted (and tied by `reflexivity` to the configurations the theorems of Props/C38.v are about):
  gen_check_cache : list stmt      -- the body of RedunBackendDb.check_cache, statement by statement
  gen_getcache    : getcache_cfg   -- option defaults, script/async special cases, argument order of the
                                      check_cache call, the final if/elif chain of Scheduler._get_cache
  gen_subrun_opts : subrun_cfg     -- subrun's own defaults, the literal allowed_cache_results set, the
                                      cache_scope overrides for cache=False / prov=False, the guard around the
                                      cache=False override (none / definition-time scope is BACKEND: a variant the
                                      theorems refute) and the scope _subrun_root_task is defined with
  gen_handback    : handback_cfg   -- endings of Scheduler.run / extend_run, the dict of _subrun_root_task (incl. whether a
                                      failed extending sub-execution is raised or returned as a value: two variants), `then`
  gen_wiring      : wiring         -- where execution id / parent job of the sub-scheduler's jobs come from
  gen_config_args : list rtarg     -- @task(config_args=[...]) of _subrun_root_task: what is left out of its cache identity
  gen_root_parts  : list concrete_part -- needs_root_task: which parts of a top-level call must be concrete for it to be
                                      its own root job (args, kwargs, default args, task options, call-time options)
  gen_ctx_order   : ctx_order      -- Scheduler.run: merge_dicts([config-level context, context given to run()])
Pinned by shape (translate/pins_C38.json): small helpers the model takes as given (Job.get_raw_options /
get_options / get_option / recording_provenance / get_context, Execution.__init__, JobInfo.from_job, RedunBackendDb.get_job).
"""
from __future__ import annotations

import ast
import sys

from .astutil import TranslateError, body_nodoc, fail, find_class, find_func, load, pin, src

CR = ("CSE", "ULTIMATE", "SINGLE", "MISS")
SCOPES = {"NONE": "ScNONE", "CSE": "ScCSE", "BACKEND": "ScBACKEND"}
VALIDS = {"FULL": "CvFULL", "SHALLOW": "CvSHALLOW"}
KEYS = {"config": "KConfig", "result": "KResult", "error": "KError", "dryrun": "KDryrun", "job_id": "KJobId",
        "call_hash": "KCallHash", "run_config": "KRunConfig", "status": "KStatus"}


def enum_of(node, cls, table, what):
    """CacheScope.X / CacheCheckValid.X / CacheResult.X -> table[X]"""
    if isinstance(node, ast.Attribute) and isinstance(node.value, ast.Name) and node.value.id == cls \
            and node.attr in table:
        return table[node.attr]
    fail(f"{what}: expected {cls}.<member>, got {src(node)!r}", node)


def cr_of(node, what):
    return enum_of(node, "CacheResult", {k: k for k in CR}, what)


def coq_list(items):
    return "[" + "; ".join(items) + "]"


# ---------------------------------------------------------------------------------------------- check_cache
STATE_VARS = {"result", "is_cached", "call_hash", "cache_type", "allowed_cache_results"}
NODE_VARS = {"call_node": "LkCSE", "call_node2": "LkULT"}


def cc_cond(t):
    if isinstance(t, ast.BoolOp) and isinstance(t.op, ast.And):
        return "CAnd " + coq_list(["(" + cc_cond(v) + ")" if " " in cc_cond(v) else cc_cond(v) for v in t.values])
    if isinstance(t, ast.Name) and t.id == "is_cached":
        return "CCached"
    if isinstance(t, ast.UnaryOp) and isinstance(t.op, ast.Not) and isinstance(t.operand, ast.Name) \
            and t.operand.id == "is_cached":
        return "CNotCached"
    if isinstance(t, ast.Name) and t.id in NODE_VARS:
        return f"CFound {NODE_VARS[t.id]}"
    if isinstance(t, ast.Compare) and len(t.ops) == 1 and len(t.comparators) == 1:
        l, op, r = t.left, t.ops[0], t.comparators[0]
        if isinstance(op, ast.Eq) and isinstance(l, ast.Name) and l.id == "cache_scope":
            return "CScope " + enum_of(r, "CacheScope", SCOPES, "check_cache")
        if isinstance(op, ast.Eq) and isinstance(l, ast.Name) and l.id == "check_valid":
            return "CValid " + enum_of(r, "CacheCheckValid", VALIDS, "check_cache")
        if isinstance(op, ast.In) and isinstance(r, ast.Name) and r.id == "allowed_cache_results":
            return "CAllowed " + cr_of(l, "check_cache")
    fail(f"check_cache: unrecognised condition {src(t)!r}", t)


def mentions(node, names):
    return any(isinstance(n, ast.Name) and n.id in names for n in ast.walk(node))


def assigned_names(node):
    out = set()
    for n in ast.walk(node):
        if isinstance(n, ast.Name) and isinstance(n.ctx, ast.Store):
            out.add(n.id)
    return out


def is_query_stmt(s):
    """a statement that only builds the CSE query: assigns call_nodes / call_node and reads none of the state"""
    names = assigned_names(s)
    if not names or not names <= {"call_nodes", "call_node"}:
        return False
    if mentions(s, STATE_VARS - {"allowed_cache_results"}) or mentions(s, {"allowed_cache_results"}):
        return False
    for n in ast.walk(s):
        if isinstance(n, (ast.Return, ast.Raise)):
            return False
    return True


def cc_block(stmts):
    out = []
    i = 0
    while i < len(stmts):
        s = stmts[i]
        t = src(s)
        # the four initialisations, in any order, as one SInit
        if t in ("is_cached = False", "result = None", "cache_type = CacheResult.MISS") or \
                (isinstance(s, ast.AnnAssign) and src(s.target) == "call_hash" and s.value is not None
                 and src(s.value) == "None") or t == "call_hash = None":
            group = []
            while i < len(stmts):
                u = stmts[i]
                tu = src(u)
                if tu in ("is_cached = False", "result = None", "cache_type = CacheResult.MISS", "call_hash = None"):
                    group.append(tu.split(" ")[0].rstrip(":"))
                elif isinstance(u, ast.AnnAssign) and src(u.target) == "call_hash" and u.value is not None \
                        and src(u.value) == "None":
                    group.append("call_hash")
                else:
                    break
                i += 1
            if sorted(group) != ["cache_type", "call_hash", "is_cached", "result"]:
                fail(f"check_cache: the state is not initialised as expected (found {group})", s)
            out.append("SInit")
            continue
        if t == "assert self.session":
            i += 1
            continue
        if isinstance(s, ast.If) and src(s.test) == "allowed_cache_results is None":
            if [src(x) for x in s.body] != ["allowed_cache_results = set(CacheResult)"] or s.orelse:
                fail("check_cache: unrecognised default for allowed_cache_results", s)
            out.append("SDefaultAllowed")
            i += 1
            continue
        if is_query_stmt(s):
            j = i
            last = None
            while j < len(stmts) and is_query_stmt(stmts[j]):
                last = stmts[j]
                j += 1
            if not (isinstance(last, ast.Assign) and src(last.targets[0]) == "call_node"):
                fail("check_cache: the CSE query does not end by binding call_node", s)
            blob = " ".join(src(x) for x in stmts[i:j])
            for needed in ("Job.execution_id == execution_id", "Job.task_hash == task_hash",
                           "CallNode.args_hash == args_hash", ".first()"):
                if needed not in blob:
                    fail(f"check_cache: the CSE query no longer contains {needed!r}", s)
            out.append("SQuery LkCSE")
            i = j
            continue
        if t == "call_node2 = self._get_call_node(task_hash, args_hash, scheduler_task_hashes, context_hash)":
            out.append("SQuery LkULT")
        elif t == "result, is_cached = self.get_call_cache(call_node.call_hash)":
            out.append("SFetch LkCSE")
        elif t in ("call_hash = cast(str, call_node2.call_hash)", "call_hash = call_node2.call_hash"):
            out.append("SSetHash LkULT")
        elif t == "result, is_cached = self.get_call_cache(call_hash)":
            if not out or out[-1] != "SSetHash LkULT":
                fail("check_cache: get_call_cache(call_hash) is not directly preceded by call_hash = call_node2.call_hash", s)
            out.append("SFetch LkULT")
        elif t == "result, is_cached = self.get_call_cache(call_node2.call_hash)":
            out.append("SFetch LkULT")
        elif t == "result, is_cached = self.get_eval_cache(eval_hash)":
            out.append("SFetchEval")
        elif isinstance(s, ast.Assign) and src(s.targets[0]) == "cache_type" and len(s.targets) == 1:
            out.append("SSetType " + cr_of(s.value, "check_cache"))
        elif t in ("return (None, None, CacheResult.MISS)", "return None, None, CacheResult.MISS"):
            out.append("SRetMiss")
        elif t in ("return (result, call_hash, cache_type)", "return result, call_hash, cache_type"):
            out.append("SRetCur")
        elif isinstance(s, ast.Return) and isinstance(s.value, ast.Tuple) and len(s.value.elts) == 3 \
                and src(s.value.elts[0]) == "result" and src(s.value.elts[1]) in ("call_node.call_hash", "call_node2.call_hash"):
            lk = NODE_VARS[src(s.value.elts[1]).split(".")[0]]
            out.append(f"SRetNode {lk} {cr_of(s.value.elts[2], 'check_cache')}")
        elif isinstance(s, ast.If):
            out.append(f"SIf ({cc_cond(s.test)}) {coq_list(cc_block(s.body))} {coq_list(cc_block(s.orelse))}")
        else:
            fail(f"check_cache: unrecognised statement {t[:80]!r}", s)
        i += 1
    return out


def extract_check_cache(source=None):
    mod = load("redun/backends/db/__init__.py", source)
    fn = find_func(mod, "check_cache", "RedunBackendDb")
    params = [a.arg for a in fn.args.args]
    if fn.args.vararg or fn.args.kwarg or fn.args.kwonlyargs:
        fail("check_cache: unexpected parameter kinds", fn)
    return cc_block(body_nodoc(fn)), params


# ---------------------------------------------------------------------------------------------- _get_cache
TESTS = {
    "cache_type == CacheResult.CSE and self._has_valid_handles(result)": "TestCSEHandles",
    "cache_type == CacheResult.CSE": "TestCSE",
    "isinstance(result, ErrorValue)": "TestError",
    "cache_type == CacheResult.MISS": "TestMiss",
    "self._is_valid_value(result)": "TestValid",
}
HIT = "return (result, True, call_hash)"
MISS = "return (None, False, None)"
CHECK_ARGS = {"task_hash": "job.task.hash", "args_hash": "job.args_hash", "eval_hash": "job.eval_hash",
              "execution_id": "job.execution.id", "scheduler_task_hashes": "self.task_registry.task_hashes",
              "cache_scope": "cache_scope", "check_valid": "check_valid", "context_hash": "job.context_hash",
              "allowed_cache_results": "allowed_cache_results"}


def is_logging(s):
    if isinstance(s, ast.Expr) and isinstance(s.value, ast.Call) and src(s.value.func) == "self.log":
        return True
    if isinstance(s, ast.If) and src(s.test) == "self._dryrun" and not s.orelse and len(s.body) == 1 \
            and isinstance(s.body[0], ast.Expr) and isinstance(s.body[0].value, ast.Call) \
            and src(s.body[0].value.func) == "self._log_cache_miss":
        return True
    return False


def chain_outcome(body, where):
    if body and src(body[-1]) == HIT and len(body) == 1:
        return "OutHit"
    if body and src(body[-1]) == MISS and all(is_logging(s) for s in body[:-1]):
        return "OutMiss"
    fail(f"_get_cache: unrecognised branch body at {where}")


def get_option_default(node, key, cls, table):
    """job.get_option("<key>", <Cls>.<X>, as_type=<Cls>) -> table[X]"""
    if not (isinstance(node, ast.Call) and src(node.func) == "job.get_option" and len(node.args) == 2
            and src(node.args[0]) == repr(key) and [k.arg for k in node.keywords] == ["as_type"]
            and src(node.keywords[0].value) == cls):
        fail(f"_get_cache: option {key} is not read as job.get_option({key!r}, <default>, as_type={cls})", node)
    return enum_of(node.args[1], cls, table, "_get_cache")


def extract_getcache(cc_params, source=None):
    mod = load("redun/scheduler.py", source)
    fn = find_func(mod, "_get_cache", "Scheduler")
    body = body_nodoc(fn)
    cfg = {}
    seen = []
    chain = None
    for k, s in enumerate(body):
        t = src(s)
        if isinstance(s, ast.Assign) and src(s.targets[0]) == "check_valid" and "valid" not in cfg:
            cfg["valid"] = get_option_default(s.value, "check_valid", "CacheCheckValid", VALIDS)
            seen.append("valid")
        elif t == "is_script_task = job.task.fullname == 'redun.script_task'":
            seen.append("script")
        elif isinstance(s, ast.Assign) and src(s.targets[0]) == "cache_scope":
            v = s.value
            if not (isinstance(v, ast.IfExp) and src(v.test) == "is_script_task"):
                fail("_get_cache: cache_scope is not `<scope> if is_script_task else job.get_option(...)`", s)
            cfg["script_scope"] = enum_of(v.body, "CacheScope", SCOPES, "_get_cache")
            cfg["scope"] = get_option_default(v.orelse, "cache_scope", "CacheScope", SCOPES)
            seen.append("scope")
        elif t == "allowed_cache_results = job.get_option('allowed_cache_results', None)":
            seen.append("allowed")
        elif isinstance(s, ast.Assert):
            if mentions(s, {"x"}) or any(isinstance(n, (ast.Call,)) and src(n.func) not in ("isinstance",) for n in ast.walk(s.test)):
                fail("_get_cache: an assert with a call other than isinstance", s)
        elif isinstance(s, ast.If) and "job.task.is_async()" in src(s.test):
            tt = s.test
            if not (isinstance(tt, ast.BoolOp) and isinstance(tt.op, ast.And) and len(tt.values) == 2
                    and src(tt.values[0]) == "job.task.is_async()" and s.orelse == []):
                fail("_get_cache: unrecognised async guard", s)
            c = tt.values[1]
            if not (isinstance(c, ast.Compare) and src(c.left) == "cache_scope" and isinstance(c.ops[0], ast.Eq)):
                fail("_get_cache: unrecognised async guard", s)
            cfg["async_scope"] = enum_of(c.comparators[0], "CacheScope", SCOPES, "_get_cache")
            b = s.body
            if len(b) != 3 or not (isinstance(b[0], ast.If) and src(b[0].test) == "allowed_cache_results is None"
                                    and [src(x) for x in b[0].body] == ["allowed_cache_results = set(CacheResult)"]
                                    and not b[0].orelse):
                fail("_get_cache: unrecognised async branch", s)
            if not (isinstance(b[1], ast.AugAssign) and isinstance(b[1].op, ast.Sub) and src(b[1].target) == "allowed_cache_results"
                    and isinstance(b[1].value, ast.Set) and len(b[1].value.elts) == 1):
                fail("_get_cache: unrecognised async branch (set difference)", s)
            cfg["async_removes"] = cr_of(b[1].value.elts[0], "_get_cache")
            if not (isinstance(b[2], ast.Assign) and src(b[2].targets[0]) == "check_valid"):
                fail("_get_cache: unrecognised async branch (check_valid)", s)
            cfg["async_valid"] = enum_of(b[2].value, "CacheCheckValid", VALIDS, "_get_cache")
            seen.append("async")
        elif isinstance(s, ast.Assign) and src(s.targets[0]) == "(result, call_hash, cache_type)":
            call = s.value
            if not (isinstance(call, ast.Call) and src(call.func) == "self.backend.check_cache"):
                fail("_get_cache: (result, call_hash, cache_type) is not bound by self.backend.check_cache(...)", s)
            given = {}
            pos = [p for p in cc_params if p != "self"]
            if len(call.args) > len(pos):
                fail("_get_cache: too many positional arguments to check_cache", s)
            for p, a in zip(pos, call.args):
                given[p] = src(a)
            for kw in call.keywords:
                if kw.arg is None or kw.arg in given:
                    fail("_get_cache: unexpected keyword argument to check_cache", s)
                given[kw.arg] = src(kw.value)
            cfg["args_in_order"] = (given == CHECK_ARGS)
            if not cfg["args_in_order"]:
                wrong = {k: (given.get(k), v) for k, v in CHECK_ARGS.items() if given.get(k) != v}
                cfg["args_detail"] = f"check_cache receives {wrong}"
            seen.append("call")
        elif isinstance(s, ast.If) and k == len(body) - 1:
            chain = []
            node = s
            while True:
                tt = src(node.test)
                if tt not in TESTS:
                    fail(f"_get_cache: unrecognised test {tt!r}", node)
                chain.append((TESTS[tt], chain_outcome(node.body, tt)))
                if len(node.orelse) == 1 and isinstance(node.orelse[0], ast.If):
                    node = node.orelse[0]
                    continue
                if chain_outcome(node.orelse, "final else") != "OutMiss":
                    fail("_get_cache: the final else is not a miss", node)
                break
        else:
            fail(f"_get_cache: unrecognised statement {t[:80]!r}", s)
    if seen != ["valid", "script", "scope", "allowed", "async", "call"] or chain is None:
        fail(f"_get_cache: statements not in the expected order (found {seen}, chain={'yes' if chain else 'no'})", fn)
    cfg["chain"] = chain
    return cfg


# ---------------------------------------------------------------------------------------------- subrun
def decorator_kwargs(fn, deco_name):
    for d in fn.decorator_list:
        if isinstance(d, ast.Call) and src(d.func) == deco_name:
            return {k.arg: k.value for k in d.keywords}
    fail(f"{fn.name}: decorator @{deco_name}(...) not found", fn)


def dict_literal(node, what):
    if not isinstance(node, ast.Dict) or any(not (isinstance(k, ast.Constant) and isinstance(k.value, str)) for k in node.keys):
        fail(f"{what}: expected a dict literal with string keys", node)
    return {k.value: v for k, v in zip(node.keys, node.values)}


def then_chain(fn_then):
    body = body_nodoc(fn_then)
    if not body or not isinstance(body[-1], ast.If):
        fail("subrun.then: does not end with the if/elif chain on the result dict", fn_then)
    for s in body[:-1]:
        ok = (isinstance(s, ast.Expr) and isinstance(s.value, ast.Call) and src(s.value.func) in ("scheduler.log", "log_banner")) or \
             (isinstance(s, ast.For) and all(isinstance(x, ast.Expr) and isinstance(x.value, ast.Call)
                                             and src(x.value.func) == "scheduler.log" for x in s.body) and not s.orelse)
        if not ok:
            fail(f"subrun.then: unrecognised statement before the chain: {src(s)[:60]!r}", s)
    arg = fn_then.args.args[0].arg
    chain = []
    node = body[-1]
    while True:
        t = node.test
        if not (isinstance(t, ast.Compare) and isinstance(t.ops[0], ast.In) and isinstance(t.left, ast.Constant)
                and t.left.value in KEYS and src(t.comparators[0]) == arg):
            fail(f"subrun.then: unrecognised test {src(t)!r}", node)
        key = KEYS[t.left.value]
        if len(node.body) != 1:
            fail("subrun.then: a branch with more than one statement", node)
        b = node.body[0]
        tb = src(b)
        act = None
        for k, K in KEYS.items():
            if tb == f"return {arg}[{k!r}]":
                act = f"ActReturn {K}"
            elif tb == f"raise {arg}[{k!r}]":
                act = f"ActRaise {K}"
        if tb == "return Promise()":
            act = "ActPending"
        if act is None:
            fail(f"subrun.then: unrecognised branch {tb!r}", b)
        chain.append(f"({key}, {act})")
        if len(node.orelse) == 1 and isinstance(node.orelse[0], ast.If):
            node = node.orelse[0]
            continue
        if node.orelse:
            fail("subrun.then: unexpected final else", node)
        break
    return chain


def extract_subrun(mod):
    fn = find_func(mod, "subrun")
    deco = decorator_kwargs(fn, "scheduler_task")
    if "cache_scope" not in deco or "check_valid" not in deco:
        fail("subrun: the decorator no longer sets cache_scope / check_valid", fn)
    cfg = {"default_scope": enum_of(deco["cache_scope"], "CacheScope", SCOPES, "subrun"),
           "default_valid": enum_of(deco["check_valid"], "CacheCheckValid", VALIDS, "subrun")}
    body = body_nodoc(fn)
    recognised = []
    fn_then = None
    for s in body:
        t = src(s)
        if isinstance(s, (ast.Assign, ast.AnnAssign)) and src(s.targets[0] if isinstance(s, ast.Assign) else s.target) == "all_options":
            d = dict_literal(s.value, "subrun all_options")
            if set(d) != {"cache_scope", "check_valid", "allowed_cache_results"}:
                fail(f"subrun: all_options has keys {sorted(d)}", s)
            if src(d["cache_scope"]) != "CacheScope(sexpr._options.get('cache_scope', subrun.get_task_option('cache_scope')))":
                fail("subrun: cache_scope is not forwarded from the expression options / subrun's default", s)
            if src(d["check_valid"]) != "CacheCheckValid(sexpr._options.get('check_valid', subrun.get_task_option('check_valid')))":
                fail("subrun: check_valid is not forwarded from the expression options / subrun's default", s)
            a = d["allowed_cache_results"]
            if not isinstance(a, ast.Set):
                fail("subrun: allowed_cache_results is not a set literal", s)
            members = {cr_of(e, "subrun") for e in a.elts}
            cfg["allowed"] = [m for m in CR if m in members]
            recognised.append("all_options")
        elif t == "all_options.update(task_options)":
            recognised.append("update")
        elif isinstance(s, ast.Assign) and src(s.targets[0]) == "subrun_root_task_expr":
            want = ("_subrun_root_task.options(executor=executor, **all_options)(expr=quote(expr), config=config, "
                    "config_dir=config_dir, load_modules=sorted(load_modules_set), run_config=run_config, "
                    "export_options=parent_job.get_export_options(), new_execution=new_execution)")
            if src(s.value) != want:
                fail("subrun: the _subrun_root_task call changed", s)
            recognised.append("call")
        elif isinstance(s, (ast.Assign, ast.AnnAssign)) and src(s.targets[0] if isinstance(s, ast.Assign) else s.target) == "run_config":
            d = dict_literal(s.value, "subrun run_config")
            if {k: src(v) for k, v in d.items()} != {"dryrun": "scheduler._dryrun", "cache": "scheduler._use_cache",
                                                      "context": "parent_job.get_context()"}:
                fail("subrun: run_config changed", s)
            recognised.append("run_config")
        elif isinstance(s, ast.If) and src(s.test) == "not parent_job.recording_provenance()":
            if [src(x) for x in s.body] != ["new_execution = True"] or s.orelse:
                fail("subrun: unrecognised provenance guard", s)
            recognised.append("noprov")
        elif isinstance(s, ast.FunctionDef) and s.name == "then":
            fn_then = s
        elif t == "return scheduler.evaluate(subrun_root_task_expr, parent_job=parent_job).then(then)":
            recognised.append("return")
        else:
            # config forwarding / load_modules / log_banner: not modelled, but must not touch what is
            if mentions(s, {"all_options", "run_config", "subrun_root_task_expr", "new_execution", "then"}) and not \
                    (isinstance(s, ast.FunctionDef) and s.name == "log_banner"):
                fail(f"subrun: an unrecognised statement touches the modelled variables: {t[:70]!r}", s)
    if recognised != ["run_config", "noprov", "all_options", "update", "call", "return"] or fn_then is None:
        fail(f"subrun: recognised statements {recognised}", fn)
    cfg["then"] = then_chain(fn_then)
    return cfg


def extract_evaluate_apply(mod):
    fn = find_func(mod, "_evaluate_apply", "Scheduler")
    out = {}
    for n in ast.walk(fn):
        if isinstance(n, ast.If) and src(n.test) == "not self._use_cache":
            def override(st):
                if not (isinstance(st, ast.Assign) and src(st.targets[0]) == "job_options['cache_scope']"):
                    fail("_evaluate_apply: unrecognised cache=False downgrade", n)
                return enum_of(st.value, "CacheScope", SCOPES, "_evaluate_apply")
            if n.orelse:
                fail("_evaluate_apply: unrecognised cache=False downgrade", n)
            if len(n.body) == 1:
                # unconditional: every job of a cache=False run gets the job-level override
                out["nocache_scope"] = override(n.body[0])
                out["nocache_guard"] = "GuardNone"
            elif len(n.body) == 2 and isinstance(n.body[0], ast.Assign) and isinstance(n.body[1], ast.If) \
                    and src(n.body[0].targets[0]) == "task_scope" \
                    and src(n.body[0].value) == "CacheScope(task.get_task_option('cache_scope', CacheScope.BACKEND))" \
                    and src(n.body[1].test) == "task_scope == CacheScope.BACKEND" and len(n.body[1].body) == 1 and not n.body[1].orelse:
                # only for a task whose *definition* has backend scope (call-time options are not consulted)
                out["nocache_scope"] = override(n.body[1].body[0])
                out["nocache_guard"] = "GuardDefinedBackend"
            else:
                fail("_evaluate_apply: unrecognised cache=False downgrade", n)
        if isinstance(n, ast.If) and src(n.test) == "not job.recording_provenance()":
            if len(n.body) != 1 or n.orelse or not (isinstance(n.body[0], ast.Assign)
                                                      and src(n.body[0].targets[0]) == "job.eval_options['cache_scope']"):
                fail("_evaluate_apply: unrecognised prov=False override", n)
            out["noprov_scope"] = enum_of(n.body[0].value, "CacheScope", SCOPES, "_evaluate_apply")
        if isinstance(n, ast.Assign) and src(n.targets[0]) == "job" and isinstance(n.value, ast.Call) \
                and src(n.value.func) == "Job":
            kw = {k.arg: src(k.value) for k in n.value.keywords}
            out["job_exec"] = "WCurrentExecution" if kw.get("execution") == "self._current_execution" else None
            out["job_parent"] = "WParentJobArg" if kw.get("parent_job") == "parent_job" else "WJobNoParent"
            if out["job_exec"] is None:
                fail("_evaluate_apply: the Job is not created in self._current_execution", n)
    for k in ("nocache_scope", "nocache_guard", "noprov_scope", "job_exec", "job_parent"):
        if k not in out:
            fail(f"_evaluate_apply: {k} not found", fn)
    return out


# ---------------------------------------------------------------------------------------------- run / extend_run / root task
STATE_TESTS = {"result.is_fulfilled": "PFulfilled", "result.is_rejected": "PRejected",
               "result.is_pending and self._dryrun": "PPendingDry"}


def final_chain(fn, what):
    body = body_nodoc(fn)
    if not isinstance(body[-1], ast.If):
        fail(f"{what}: does not end with the if/elif chain on the workflow promise", fn)
    out = []
    node = body[-1]
    while True:
        t = src(node.test)
        if t not in STATE_TESTS:
            fail(f"{what}: unrecognised test {t!r}", node)
        out.append((STATE_TESTS[t], node.body))
        if len(node.orelse) == 1 and isinstance(node.orelse[0], ast.If):
            node = node.orelse[0]
            continue
        if not (len(node.orelse) == 1 and src(node.orelse[0]).startswith("raise AssertionError(")):
            fail(f"{what}: the final else is not `raise AssertionError`", node)
        break
    return out


def extract_run(mod):
    fn = find_func(mod, "run", "Scheduler")
    # the non-overload definition is the last one
    cls = find_class(mod, "Scheduler")
    fns = [n for n in cls.body if isinstance(n, ast.FunctionDef) and n.name == "run"]
    fn = fns[-1]
    ends = []
    for st, body in final_chain(fn, "Scheduler.run"):
        stmts = [s for s in body if not (isinstance(s, ast.Expr) and isinstance(s.value, ast.Call) and src(s.value.func) == "self.log")
                 and not (isinstance(s, ast.If) and src(s.test) == "self.traceback")]
        if len(stmts) != 1:
            fail("Scheduler.run: unrecognised branch", body[0])
        t = src(stmts[0])
        end = {"return result.value": "EndReturnValue", "raise result.error": "EndRaiseError",
               "raise DryRunResult()": "EndRaiseDryRun"}.get(t)
        if end is None:
            fail(f"Scheduler.run: unrecognised ending {t!r}", stmts[0])
        ends.append(f"({st}, {end})")
    new_exec = None
    order = None
    for n in ast.walk(fn):
        if isinstance(n, ast.Assign) and src(n.targets[0]) == "self._current_execution":
            v = n.value
            if isinstance(v, ast.Call) and src(v.func) == "Execution" and v.args and src(v.args[0]) == "execution_id":
                new_exec = "WExecFresh"
                kw = {k.arg: k.value for k in v.keywords}
                c = kw.get("context")
                # the execution context: config-level context first, the context given to run() second (later wins)
                if not (len(v.args) == 1 and set(kw) == {"context"} and isinstance(c, ast.Call) and src(c.func) == "merge_dicts"
                        and len(c.args) == 1 and isinstance(c.args[0], ast.List) and not c.keywords):
                    fail("Scheduler.run: the execution context is not merge_dicts([..., ...])", n)
                ops = [src(e) for e in c.args[0].elts]
                order = {("self._context", "context"): "ConfigThenRun", ("context", "self._context"): "RunThenConfig"}.get(tuple(ops))
                if order is None:
                    fail(f"Scheduler.run: unrecognised operands of the execution context merge: {ops}", n)
    if new_exec is None:
        fail("Scheduler.run: self._current_execution is not Execution(execution_id, ...)", fn)
    for n in ast.walk(fn):
        if isinstance(n, ast.Name) and n.id == "context" and isinstance(n.ctx, ast.Store):
            fail("Scheduler.run: the context argument is reassigned", n)
    return ends, new_exec, order


SRC_OF = {"result.value": "SrcValue", "result.error": "SrcError", "True": "SrcTrue", "job.id": "SrcMeta",
          "job.call_hash": "SrcMeta"}


def extract_extend_run(mod):
    fn = find_func(mod, "extend_run", "Scheduler")
    rets = []
    for st, body in final_chain(fn, "Scheduler.extend_run"):
        body = [s for s in body if not isinstance(s, ast.Expr)]
        if len(body) != 1 or not isinstance(body[0], ast.Return):
            fail("extend_run: unrecognised branch", body[0] if body else fn)
        d = dict_literal(body[0].value, "extend_run result")
        items = []
        for k, v in d.items():
            if k not in KEYS or src(v) not in SRC_OF:
                fail(f"extend_run: unrecognised dict entry {k!r}: {src(v)!r}", v)
            items.append(f"({KEYS[k]}, {SRC_OF[src(v)]})")
        rets.append(f"({st}, {coq_list(items)})")
    w = {"exec": None, "parent": "WNoParent"}
    dummy_ok = False
    for n in ast.walk(fn):
        if isinstance(n, ast.Assign) and src(n.targets[0]) == "self._current_execution":
            w["exec"] = "WExecOfParentRow" if src(n.value) == "Execution(parent_job_details['execution_id'])" else "WExecFresh"
        if isinstance(n, ast.Assign) and src(n.targets[0]) == "parent_job_details":
            if src(n.value) != "self.backend.get_job(parent_job_id)":
                fail("extend_run: parent_job_details is not self.backend.get_job(parent_job_id)", n)
        if isinstance(n, ast.Assign) and src(n.targets[0]) == "parent_job" and isinstance(n.value, ast.Call) \
                and src(n.value.func) == "Job":
            kw = {k.arg: src(k.value) for k in n.value.keywords}
            dummy_ok = kw.get("id") == "parent_job_id" and kw.get("execution") == "self._current_execution"
            if kw.get("options") != "{'_context_override': context}":
                fail("extend_run: the stand-in parent job no longer carries the forwarded context", n)
        if isinstance(n, ast.Call) and src(n.func) == "self._run":
            kw = {k.arg: src(k.value) for k in n.keywords}
            if kw.get("parent_job") == "parent_job":
                w["parent"] = "WDummyWithGivenId"
            if kw.get("dryrun") != "dryrun" or kw.get("cache") != "cache":
                fail("extend_run: dryrun / cache are not forwarded to _run", n)
    if w["exec"] is None:
        fail("extend_run: self._current_execution is not assigned", fn)
    if w["parent"] == "WDummyWithGivenId" and not dummy_ok:
        fail("extend_run: the stand-in parent job does not take the given id and the parent's execution", fn)
    if "[job] = parent_job.child_jobs" not in [src(s) for s in body_nodoc(fn)]:
        fail("extend_run: `[job] = parent_job.child_jobs` not found", fn)
    return rets, w


def extract_root_task(mod):
    fn = find_func(mod, "_subrun_root_task")
    out = {}
    params = {a.arg: d for a, d in zip(fn.args.args[-len(fn.args.defaults):], fn.args.defaults)}
    if "job_info" not in params or src(params["job_info"]) != "JobInfo()":
        fail("_subrun_root_task: job_info no longer defaults to the JobInfo() placeholder", fn)
    # which arguments are left out of the call's cache identity, and the task's own cache defaults
    deco = decorator_kwargs(fn, "task")
    ca = deco.get("config_args")
    if not (isinstance(ca, ast.List) and all(isinstance(e, ast.Constant) and isinstance(e.value, str) for e in ca.elts)):
        fail("_subrun_root_task: config_args is not a literal list of names", fn)
    names = {"expr": "AExpr", "config": "AConfig", "config_dir": "AConfigDir", "load_modules": "ALoadModules",
             "run_config": "ARunConfig", "new_execution": "ANewExecution", "job_info": "AJobInfo", "export_options": "AExportOptions"}
    if [a.arg for a in fn.args.args] != list(names) or fn.args.vararg or fn.args.kwarg or fn.args.kwonlyargs:
        fail(f"_subrun_root_task: parameters changed: {[a.arg for a in fn.args.args]}", fn)
    for e in ca.elts:
        if e.value not in names:
            fail(f"_subrun_root_task: config_args names an unknown parameter {e.value!r}", fn)
    out["config_args"] = [names[e.value] for e in ca.elts]
    if "cache_scope" not in deco or src(deco.get("check_valid")) != "CacheCheckValid.SHALLOW":
        fail("_subrun_root_task: the task's own cache_scope / check_valid defaults changed", fn)
    out["defined_scope"] = enum_of(deco["cache_scope"], "CacheScope", SCOPES, "_subrun_root_task")
    body = body_nodoc(fn)
    seq = []
    for s in body:
        t = src(s)
        if isinstance(s, (ast.Assign, ast.AnnAssign)) and src(s.targets[0] if isinstance(s, ast.Assign) else s.target) == "subrun_result":
            d = dict_literal(s.value, "_subrun_root_task subrun_result")
            out["init"] = [KEYS[k] for k in d]
            seq.append("init")
        elif isinstance(s, ast.If) and src(s.test) == "not new_execution":
            ext = [src(x) for x in s.body]
            # two shapes: the extend_run dict is merged as it is (a failure travels on as a VALUE of this task), or
            # `if "error" in result: raise result["error"]` first (the failure fails this task, as run() does)
            out["raises_error"] = False
            if len(ext) == 4:
                g2 = s.body[2]
                if not (isinstance(g2, ast.If) and src(g2.test) == "'error' in result" and not g2.orelse
                        and [src(x) for x in g2.body] == ["raise result['error']"]):
                    fail("_subrun_root_task: unrecognised statement in the extend branch", g2)
                out["raises_error"] = True
                ext = ext[:2] + ext[3:]
            if len(ext) != 3 or not ext[0].startswith("result = sub_scheduler.extend_run("):
                fail("_subrun_root_task: unrecognised extend branch", s)
            call = s.body[0].value
            kw = {k.arg: src(k.value) for k in call.keywords}
            if [src(a) for a in call.args] != ["expr_eval"] or kw.get(None) != "run_config":
                fail("_subrun_root_task: extend_run is not called with (expr_eval, ..., **run_config)", s)
            out["parent_is_jobinfo"] = kw.get("parent_job_id") == "job_info.job_id"
            g = s.body[1]
            out["checks_dict"] = isinstance(g, ast.If) and src(g.test) == "not isinstance(result, dict)" and \
                len(g.body) == 1 and isinstance(g.body[0], ast.Raise)
            if not out["checks_dict"] and not isinstance(g, ast.If):
                fail("_subrun_root_task: unrecognised statement in the extend branch", g)
            if ext[2] != "subrun_result.update(result)":
                fail("_subrun_root_task: the extend_run dict is not merged with subrun_result.update(result)", s)
            new = [src(x) for x in s.orelse]
            want = ["expr_eval = pickle_loads(pickle_dumps(expr_eval))", "execution_id = run_config.get('execution_id', None)",
                    "result = sub_scheduler.run(expr_eval, execution_id=execution_id, **run_config)"]
            if new[:3] != want or len(new) != 4:
                fail("_subrun_root_task: unrecognised new-execution branch", s)
            last = s.orelse[3]
            if not (isinstance(last, ast.Assign) and isinstance(last.targets[0], ast.Subscript)
                    and src(last.targets[0].value) == "subrun_result" and src(last.value) == "result"
                    and isinstance(last.targets[0].slice, ast.Constant) and last.targets[0].slice.value in KEYS):
                fail("_subrun_root_task: the result of run() is not stored in subrun_result[...]", last)
            out["new_key"] = KEYS[last.targets[0].slice.value]
            seq.append("branch")
        elif isinstance(s, ast.Expr) and isinstance(s.value, ast.Call) and src(s.value.func) == "subrun_result.update":
            d = dict_literal(s.value.args[0], "_subrun_root_task final update")
            out["final"] = [KEYS[k] for k in d]
            seq.append("final")
        elif t == "return subrun_result":
            seq.append("return")
        elif mentions(s, {"subrun_result", "result", "new_execution"}):
            fail(f"_subrun_root_task: an unrecognised statement touches the result dict: {t[:70]!r}", s)
    if seq != ["init", "branch", "final", "return"]:
        fail(f"_subrun_root_task: statements found {seq}", fn)
    return out


ROOT_PARTS = {"expr.args": "CArgs", "expr.kwargs": "CKwargs", "default_kwargs": "CDefaults",
              "task.get_task_options()": "CTaskOptions", "expr._options": "CExprOptions"}


def extract_needs_root_task(mod):
    """needs_root_task: not a TaskExpression / a SchedulerExpression -> wrap; otherwise wrap iff an Expression occurs in
    (expr.args, expr.kwargs, default_kwargs, task.get_task_options(), expr._options) -- which parts are looked at"""
    fn = find_func(mod, "needs_root_task")
    body = body_nodoc(fn)
    t = [src(x) for x in body]
    if len(body) != 5 or not (isinstance(body[0], ast.If)
                              and src(body[0].test) == "not isinstance(expr, TaskExpression) or isinstance(expr, SchedulerExpression)"
                              and [src(x) for x in body[0].body] == ["return True"] and not body[0].orelse):
        fail(f"needs_root_task: unrecognised shape ({len(body)} statements)", fn)
    if t[1] != "task = task_registry.get(expr.task_name)" or not isinstance(body[2], ast.Assert) \
            or t[3] != "default_kwargs = get_arg_defaults(task, expr.args, expr.kwargs)":
        fail("needs_root_task: unrecognised statements before the concreteness test", fn)
    r = body[4]
    ok = isinstance(r, ast.Return) and isinstance(r.value, ast.Call) and src(r.value.func) == "any" and len(r.value.args) == 1 \
        and isinstance(r.value.args[0], ast.GeneratorExp)
    if not ok:
        fail("needs_root_task: the concreteness test is not `return any(... for arg in iter_nested_value((...)))`", r)
    g = r.value.args[0]
    if src(g.elt) != "isinstance(arg, Expression)" or len(g.generators) != 1 or g.generators[0].ifs \
            or src(g.generators[0].target) != "arg":
        fail("needs_root_task: unrecognised generator in the concreteness test", r)
    it = g.generators[0].iter
    if not (isinstance(it, ast.Call) and src(it.func) == "iter_nested_value" and len(it.args) == 1 and isinstance(it.args[0], ast.Tuple)):
        fail("needs_root_task: the concreteness test does not iterate a tuple of parts", r)
    parts = []
    for e in it.args[0].elts:
        if src(e) not in ROOT_PARTS:
            fail(f"needs_root_task: unrecognised part {src(e)!r}", e)
        parts.append(ROOT_PARTS[src(e)])
    return parts


def extract_rows(source=None):
    mod = load("redun/backends/db/__init__.py", source)
    fn = find_func(mod, "record_job_start", "RedunBackendDb")
    for n in ast.walk(fn):
        if isinstance(n, ast.Assign) and src(n.targets[0]) == "db_job" and isinstance(n.value, ast.Call) \
                and src(n.value.func) == "Job":
            kw = {k.arg: src(k.value) for k in n.value.keywords}
            if kw.get("id") != "job.id":
                fail("record_job_start: the row id is not job.id", n)
            if kw.get("execution_id") != "job.execution.id":
                fail("record_job_start: execution_id is not job.execution.id", n)
            par = {"job.parent_job.id if job.parent_job else None": "WJobParentId", "None": "WRowNoParent"}.get(kw.get("parent_id"))
            if par is None:
                fail(f"record_job_start: unrecognised parent_id {kw.get('parent_id')!r}", n)
            return par, "WJobExecutionId", mod
    fail("record_job_start: the Job row is not created as expected", fn)


def pins_now(smod, dmod):
    p = {}
    job = find_class(smod, "Job")
    for name in ("get_raw_options", "get_options", "get_option", "recording_provenance", "get_context"):
        p[f"sched.Job.{name}"] = pin(next(n for n in job.body if isinstance(n, ast.FunctionDef) and n.name == name))
    p["sched.Execution.__init__"] = pin(find_func(smod, "__init__", "Execution"))
    p["sched.JobInfo.from_job"] = pin(find_func(smod, "from_job", "JobInfo"))
    p["db.get_job"] = pin(find_func(dmod, "get_job", "RedunBackendDb"))
    # the JobInfo placeholder is filled in from the running job before the task function is called
    ej = find_func(smod, "_exec_job_main_thread", "Scheduler")
    inc = [n for n in ast.walk(ej) if isinstance(n, ast.FunctionDef) and n.name == "include_job_info"]
    if not inc:
        fail("_exec_job_main_thread: include_job_info not found")
    p["sched._exec_job_main_thread.include_job_info"] = pin(inc[0])
    return p


def b(x):
    return "true" if x else "false"


def translate(pins: dict | None = None, sched_source=None, db_source=None):
    cc, cc_params = extract_check_cache(db_source)
    smod = load("redun/scheduler.py", sched_source)
    gc = extract_getcache(cc_params, sched_source)
    sr = extract_subrun(smod)
    ea = extract_evaluate_apply(smod)
    ends, new_exec, ctx_order = extract_run(smod)
    ext, w = extract_extend_run(smod)
    rt = extract_root_task(smod)
    root_parts = extract_needs_root_task(smod)
    for fname, cls in (("run", "Scheduler"), ("extend_run", "Scheduler")):
        cl = find_class(smod, cls)
        fn_ = [n for n in cl.body if isinstance(n, ast.FunctionDef) and n.name == fname][-1]
        first = body_nodoc(fn_)[0]
        if not (isinstance(first, ast.If) and src(first.test) == "needs_root_task(self.task_registry, expr)"
                and [src(x) for x in first.body] == ["expr = root_task(quote(expr))"] and not first.orelse):
            fail(f"Scheduler.{fname}: does not start by wrapping the expression when needs_root_task says so", fn_)
    row_parent, row_exec, dmod = extract_rows(db_source)
    got = pins_now(smod, dmod)
    if pins is not None:
        for k, exp in pins.items():
            if got.get(k) != exp:
                fail(f"{k}: shape changed (pin {got.get(k)} != {exp}); the hand-written model (Model/Subrun.v "
                     f"root_task_jobopts / wiring) is no longer known to match")
    v = ["(* GENERATED by translate/tr_subrun.py from /repo/redun/scheduler.py and redun/backends/db/__init__.py -- do not edit *)",
         "From Coq Require Import List ZArith Bool.",
         "From RV Require Import Model.Subrun.",
         "Import ListNotations.",
         "",
         "Definition gen_check_cache : list stmt :=\n  " + coq_list(cc).replace("; S", ";\n    S") + ".",
         "",
         "Definition gen_getcache : getcache_cfg :=\n  mkGC %s %s %s %s %s %s %s\n    %s." % (
             gc["valid"], gc["scope"], gc["script_scope"], gc["async_scope"], gc["async_removes"], gc["async_valid"],
             b(gc["args_in_order"]), coq_list([f"({t}, {o})" for t, o in gc["chain"]])),
         "",
         "Definition gen_subrun_opts : subrun_cfg :=\n  mkSC %s %s %s %s %s %s %s." % (
             sr["default_scope"], sr["default_valid"], coq_list(sr["allowed"]), ea["nocache_scope"], ea["noprov_scope"],
             ea["nocache_guard"], rt["defined_scope"]),
         "",
         "Definition gen_handback : handback_cfg :=\n  mkHB %s\n    %s\n    %s %s %s %s %s %s\n    %s." % (
             coq_list(ends), coq_list(ext), coq_list(rt["init"]), b(rt["parent_is_jobinfo"]), b(rt["checks_dict"]),
             b(rt["raises_error"]), rt["new_key"], coq_list(rt["final"]), coq_list(sr["then"])),
         "",
         "Definition gen_wiring : wiring :=\n  mkW %s %s %s %s %s %s %s %s." % (
             w["exec"], w["parent"], b(rt["parent_is_jobinfo"]), new_exec, row_parent, row_exec, ea["job_exec"], ea["job_parent"]),
         "",
         "Definition gen_ctx_order : ctx_order := %s." % ctx_order,
         "",
         "Definition gen_config_args : list rtarg := %s." % coq_list(rt["config_args"]),
         "",
         "Definition gen_root_parts : list concrete_part := %s." % coq_list(root_parts),
         "",
         "(* the theorems of Props/C38.v are about the shipped_* configurations: they must be what the source says now *)",
         "Lemma C38_tie_ctx_order : gen_ctx_order = shipped_ctx_order.\nProof. reflexivity. Qed.",
         "Lemma C38_tie_config_args : gen_config_args = shipped_config_args.\nProof. reflexivity. Qed.",
         "Lemma C38_tie_root_parts : gen_root_parts = shipped_root_parts.\nProof. reflexivity. Qed.",
         "Lemma C38_tie_check_cache : gen_check_cache = shipped_check_cache.\nProof. reflexivity. Qed.",
         "Lemma C38_tie_getcache : gen_getcache = shipped_getcache.\nProof. reflexivity. Qed.",
         "Lemma C38_tie_subrun_opts : gen_subrun_opts = shipped_subrun_opts.\nProof. reflexivity. Qed.",
         ("Lemma C38_tie_handback : gen_handback = shipped_handback.\nProof. reflexivity. Qed." if rt["raises_error"] else
          "(* the failure of an extending sub-execution is returned as a value: the shape C38_value_shape_replays_failure_refuted is about *)\n"
          "Lemma C38_tie_handback_value_shape : gen_handback = value_handback.\nProof. reflexivity. Qed."),
         "Lemma C38_tie_wiring : gen_wiring = shipped_wiring.\nProof. reflexivity. Qed.",
         ]
    info = {"ctx_order": ctx_order, "check_cache": cc, "getcache": gc, "subrun": sr, "evaluate_apply": ea, "run": ends, "extend_run": ext,
            "wiring": w, "root_task": rt}
    return "\n".join(v) + "\n", info, got


if __name__ == "__main__":
    import json
    text, info, got = translate()
    sys.stdout.write(text)
    print(json.dumps(got, indent=1), file=sys.stderr)
