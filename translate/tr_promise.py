"""Translator for redun/promise.py -> coq/Gen/C13Gen.v  (fail closed).

Extracted (structurally) into the model's [cfg] record:
  guard_settled   do_resolve/do_reject start with `if not self.is_pending: return <arg>`, set the four
                  fields, then call self._notify() and return <arg>
  mode            _notify: Swap  = `if pending: return / elif fulfilled: swap list out, clear other, for ...
                                   / else: symmetric`                      (promise.py as shipped)
                           Drain = the repaired shape (re-entrancy flag + draining while loop), recognised
                                   by the pinned shape of _notify and __init__
  then_notifies   then(): child = Promise(); append (wrapped | default) resolver and rejector; self._notify();
                  return child
  adopt_returned  wrap_callback: try: r = func(x); if isinstance(r, Promise): r.then(child.do_resolve,
                  child.do_reject) else: child.do_resolve(r); except Exception as e: child.do_reject(e)
Pinned by shape (hand-modelled, tied by the correspondence run): __init__, value, error, catch, all,
wait_promises.  Anything else -> TranslateError.
"""
from __future__ import annotations

import ast
import copy
import json
import sys
from pathlib import Path

from .astutil import TranslateError, body_nodoc, fail, find_class, find_func, load, pin, src

PIN_FILE = Path(__file__).resolve().parent / "pins_C13.json"
PINNED = ["Promise.__init__", "Promise.value", "Promise.error", "Promise.catch", "Promise.all", "wait_promises"]
METHODS = ["__init__", "value", "error", "do_resolve", "do_reject", "_notify", "then", "catch", "all"]


class _StripCast(ast.NodeTransformer):
    """cast(T, e) -> e  (typing.cast is the identity at run time)."""

    def visit_Call(self, node):
        self.generic_visit(node)
        if isinstance(node.func, ast.Name) and node.func.id == "cast" and len(node.args) == 2 and not node.keywords:
            return node.args[1]
        return node


def nocast(node):
    return ast.fix_missing_locations(_StripCast().visit(copy.deepcopy(node)))


def s(node) -> str:
    return src(nocast(node))


def settle_fn(fn, arg, fields):
    """do_resolve / do_reject. Returns guard_settled."""
    if [a.arg for a in fn.args.args] != ["self", arg] or fn.args.vararg or fn.args.kwarg or fn.args.kwonlyargs:
        fail(f"{fn.name}: signature changed", fn)
    body = body_nodoc(fn)
    guard = False
    if body and isinstance(body[0], ast.If):
        g = body[0]
        if s(g.test) == "not self.is_pending" and [s(x) for x in g.body] == [f"return {arg}"] and not g.orelse:
            guard = True
            body = body[1:]
        else:
            fail(f"{fn.name}: unrecognised leading if", g)
    if len(body) != len(fields) + 2:
        fail(f"{fn.name}: unexpected number of statements", fn)
    assigns = sorted(s(x) for x in body[:len(fields)])
    if assigns != sorted(fields):
        fail(f"{fn.name}: field updates are {assigns}, expected {sorted(fields)}", fn)
    if s(body[-2]) != "self._notify()" or s(body[-1]) != f"return {arg}":
        fail(f"{fn.name}: must end with self._notify(); return {arg}", fn)
    return guard


def notify_branch(stmts, mine, other, value, where):
    """`local = self.<mine>; self.<mine> = []; self.<other>.clear(); for x in local: x(self.<value>)`
    (the clear of the other list may stand anywhere before the loop)."""
    if len(stmts) != 4 or not isinstance(stmts[-1], ast.For):
        fail(f"_notify: unrecognised {where} branch", stmts[0] if stmts else None)
    pre = [s(x) for x in stmts[:-1]]
    clears = [x for x in pre if x in (f"self.{other}.clear()", f"self.{other} = []")]
    if len(clears) != 1:
        fail(f"_notify: {where} branch does not discard self.{other} exactly once", stmts[0])
    pre.remove(clears[0])
    a0 = [x for x in stmts[:-1] if s(x) not in clears][0]
    if not (isinstance(a0, ast.Assign) and len(a0.targets) == 1 and isinstance(a0.targets[0], ast.Name)
            and s(a0.value) == f"self.{mine}"):
        fail(f"_notify: {where} branch must first take self.{mine} into a local", a0)
    local = a0.targets[0].id
    if pre != [f"{local} = self.{mine}", f"self.{mine} = []"]:
        fail(f"_notify: {where} branch: expected swap-out of self.{mine}, got {pre}", a0)
    loop = stmts[-1]
    if not (isinstance(loop.target, ast.Name) and s(loop.iter) == local and not loop.orelse and len(loop.body) == 1
            and s(loop.body[0]) == f"{loop.target.id}(self.{value})"):
        fail(f"_notify: {where} branch: unrecognised loop", loop)


def notify_fn(fn, init_fn, pins):
    """Returns 'Swap' | 'Drain'."""
    if [a.arg for a in fn.args.args] != ["self"]:
        fail("_notify: signature changed", fn)
    body = body_nodoc(fn)
    if pins is not None and pin(fn) == pins.get("Promise._notify.drain"):
        if pin(init_fn) != pins.get("Promise.__init__.drain"):
            fail("_notify has the draining shape but __init__ does not initialise the re-entrancy flag as pinned", init_fn)
        return "Drain"
    if not (len(body) == 1 and isinstance(body[0], ast.If)):
        fail("_notify: expected a single if/elif/else", fn)
    top = body[0]
    if not (s(top.test) == "self.is_pending" and [s(x) for x in top.body] == ["return"]
            and len(top.orelse) == 1 and isinstance(top.orelse[0], ast.If)):
        fail("_notify: expected `if self.is_pending: return` / elif", top)
    mid = top.orelse[0]
    if s(mid.test) != "self.is_fulfilled" or not mid.orelse:
        fail("_notify: expected `elif self.is_fulfilled:` / else", mid)
    notify_branch(mid.body, "_resolvers", "_rejectors", "_value", "fulfilled")
    notify_branch(mid.orelse, "_rejectors", "_resolvers", "_error", "rejected")
    return "Swap"


def wrap_fn(fn, child):
    """wrap_callback inside then(). Returns adopt_returned."""
    if [a.arg for a in fn.args.args] != ["func"]:
        fail("wrap_callback: signature changed", fn)
    body = body_nodoc(fn)
    if not (len(body) == 2 and isinstance(body[0], ast.FunctionDef) and isinstance(body[1], ast.Return)
            and s(body[1].value) == body[0].name):
        fail("wrap_callback: expected an inner function that is returned", fn)
    w = body[0]
    if len(w.args.args) != 1 or w.args.vararg or w.args.kwarg or w.args.kwonlyargs or w.decorator_list:
        fail("wrap_callback: wrapper signature changed", w)
    x = w.args.args[0].arg
    wb = body_nodoc(w)
    if not (len(wb) == 1 and isinstance(wb[0], ast.Try) and not wb[0].orelse and not wb[0].finalbody
            and len(wb[0].handlers) == 1):
        fail("wrap_callback: wrapper body must be a single try/except", w)
    t = wb[0]
    h = t.handlers[0]
    if not (h.type is not None and s(h.type) == "Exception" and h.name
            and [s(z) for z in h.body] == [f"{child}.do_reject({h.name})"]):
        fail("wrap_callback: handler must be `except Exception as e: <child>.do_reject(e)`", h)
    if not (len(t.body) == 2 and isinstance(t.body[0], ast.Assign) and len(t.body[0].targets) == 1
            and isinstance(t.body[0].targets[0], ast.Name) and s(t.body[0].value) == f"func({x})"):
        fail("wrap_callback: try must start with `<r> = func(<arg>)`", t)
    r = t.body[0].targets[0].id
    second = t.body[1]
    if s(second) == f"{child}.do_resolve({r})":
        return False
    if not (isinstance(second, ast.If) and s(second.test) == f"isinstance({r}, Promise)"
            and [s(z) for z in second.body] == [f"{r}.then({child}.do_resolve, {child}.do_reject)"]
            and [s(z) for z in second.orelse] == [f"{child}.do_resolve({r})"]):
        fail("wrap_callback: unrecognised propagation of the callback's result", second)
    return True


def then_fn(fn):
    """Returns (then_notifies, adopt_returned)."""
    if [a.arg for a in fn.args.args] != ["self", "resolver", "rejector"] or fn.args.vararg or fn.args.kwarg:
        fail("then: signature changed", fn)
    if [s(d) for d in fn.args.defaults] != ["None", "None"]:
        fail("then: defaults changed", fn)
    body = body_nodoc(fn)
    if len(body) not in (5, 6):
        fail("then: unexpected number of statements", fn)
    a0 = body[0]
    tgt = a0.target if isinstance(a0, ast.AnnAssign) else (a0.targets[0] if isinstance(a0, ast.Assign) and len(a0.targets) == 1 else None)
    if not (isinstance(tgt, ast.Name) and a0.value is not None and s(a0.value) == "Promise()"):
        fail("then: must start with `<child> = Promise()`", a0)
    child = tgt.id
    if not (isinstance(body[1], ast.FunctionDef) and body[1].name == "wrap_callback"):
        fail("then: wrap_callback not found", body[1])
    adopt = wrap_fn(body[1], child)

    def reg(node, param, lst, default):
        ok = (isinstance(node, ast.If) and s(node.test) == param
              and [s(z) for z in node.body] == [f"self.{lst}.append(wrap_callback({param}))"]
              and [s(z) for z in node.orelse] == [f"self.{lst}.append({child}.{default})"])
        if not ok:
            fail(f"then: unrecognised registration of {param}", node)
    reg(body[2], "resolver", "_resolvers", "do_resolve")
    reg(body[3], "rejector", "_rejectors", "do_reject")
    rest = [s(z) for z in body[4:]]
    if rest == ["self._notify()", f"return {child}"]:
        return True, adopt
    if rest == [f"return {child}"]:
        return False, adopt
    fail(f"then: unrecognised tail {rest}", body[4])


def translate(source: str | None = None, pins: dict | None = None):
    mod = load("redun/promise.py", source)
    cls = find_class(mod, "Promise")
    methods = [n.name for n in cls.body if isinstance(n, (ast.FunctionDef, ast.AsyncFunctionDef))]
    if methods != METHODS:
        fail(f"class Promise: methods are {methods}, expected {METHODS}", cls)
    for n in cls.body:
        if not isinstance(n, (ast.FunctionDef, ast.Expr)):
            fail("class Promise: unexpected class-level statement", n)
    tops = [n.name for n in mod.body if isinstance(n, (ast.FunctionDef, ast.AsyncFunctionDef, ast.ClassDef))]
    if tops != ["Promise", "wait_promises"]:
        fail(f"module defines {tops}, expected ['Promise', 'wait_promises']", mod)

    g1 = settle_fn(find_func(mod, "do_resolve", "Promise"), "result",
                   ["self._value = result", "self.is_fulfilled = True", "self.is_rejected = False", "self.is_pending = False"])
    g2 = settle_fn(find_func(mod, "do_reject", "Promise"), "error",
                   ["self._error = error", "self.is_fulfilled = False", "self.is_rejected = True", "self.is_pending = False"])
    if g1 != g2:
        fail("do_resolve and do_reject disagree about the `not self.is_pending` guard")
    init_fn = find_func(mod, "__init__", "Promise")
    mode = notify_fn(find_func(mod, "_notify", "Promise"), init_fn, pins)
    then_notifies, adopt = then_fn(find_func(mod, "then", "Promise"))

    got = {}
    for name in PINNED:
        fn = find_func(mod, name.split(".")[1], "Promise") if "." in name else find_func(mod, name)
        got[name] = pin(fn)
    got["Promise._notify"] = pin(find_func(mod, "_notify", "Promise"))
    if pins is not None:
        for name in PINNED:
            allowed = [pins.get(name)]
            if name == "Promise.__init__":
                allowed.append(pins.get("Promise.__init__.drain"))
            if got[name] not in allowed:
                fail(f"{name}: shape changed (pin {got[name]}, expected {allowed[0]}); the hand-written model of it "
                     f"is no longer known to match")
        if mode == "Swap" and got["Promise.__init__"] != pins.get("Promise.__init__"):
            fail("Promise.__init__ has the repaired shape but _notify has not")

    b = lambda x: "true" if x else "false"  # noqa: E731
    cfg = f"mkcfg {b(g1)} {mode} {b(then_notifies)} {b(adopt)}"
    target = "fixed" if mode == "Drain" else "shipped"
    v = ["(* GENERATED by translate/tr_promise.py from /repo/redun/promise.py -- do not edit *)",
         "From RV Require Import Model.Promise Proofs.PromiseBase.",
         f"Definition gen : cfg := {cfg}.",
         f"(* The theorems of Props/C13.v are about [shipped] (as-is) and [fixed] (repaired _notify) and, more",
         f"   generally, every [good] configuration; this is the tie. *)",
         f"Lemma C13_tie : gen = {target}.",
         "Proof. reflexivity. Qed.",
         "Lemma C13_tie_good : good gen.",
         "Proof. split; reflexivity. Qed."]
    info = {"cfg": cfg, "variant": target, "mode": mode, "guard_settled": g1, "then_notifies": then_notifies,
            "adopt_returned": adopt}
    return "\n".join(v) + "\n", got, info


if __name__ == "__main__":
    pins = json.loads(PIN_FILE.read_text()) if PIN_FILE.exists() and "--nopins" not in sys.argv else None
    text, got, info = translate(pins=pins)
    sys.stdout.write(text)
    print(json.dumps(got, indent=1), file=sys.stderr)
    print(info, file=sys.stderr)
