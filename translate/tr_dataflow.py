"""Translator for the upstream-dataflow code -> coq/Gen/C21Gen.v  (fail closed).

Extracted (become Coq definitions compared with / plugged into Model/Dataflow.v):
  * RedunBackendDb._find_arg_upstreams  -> `gen_finder : finder`   (each clause recognised structurally)
  * RedunBackendDb._record_args         -> `gen_segs : list seg`   (the order of the generators given to
    chain(); each generator classified: enumerate(zip(expr_pos_args, eval_pos_args)) / sorted(set & set)
    keyword lookup on both sides / keys of eval_kwargs missing from expr_kwargs recorded from the
    evaluated value); the recording loop is pinned
  * expression.ApplyExpression.__init__ / derive_expression -> `gen_bookkeeping`
  * Scheduler._evaluate_apply, nested `callback` (copy of the bookkeeping onto a duplicate expression):
    the isinstance chain is read with the class hierarchy Scheduler < Task < Apply, Simple < Apply;
    -> `v_copy_sched` (does a duplicate SchedulerExpression receive `_upstreams`?)
  * scheduler.catch, the cache-hit block -> `v_derive_cached`
    (shipped: only `return scheduler.evaluate(cached_expr, ...).catch(promise_catch)`;
     fixed: `derive_expression(cached_expr, sexpr)`, `expr = cached_expr`, then the same return)
Pinned by shape (hand-modelled, tied by the correspondence run): the rest of _evaluate_apply and catch,
cond, seq, Scheduler.evaluate, Job.resolve / Job.reject, get_arg_defaults, record_call_node,
TaskExpression.__init__, Expression.__setstate__, TaskExpression.__setstate__.
"""
from __future__ import annotations

import ast
import copy

from .astutil import TranslateError, body_nodoc, fail, find_class, find_func, load, pin, src  # noqa: F401

DB = "redun/backends/db/__init__.py"
EXPR = "redun/expression.py"
SCHED = "redun/scheduler.py"
FUNCTOOLS = "redun/functools.py"

# class -> ancestors (closed world of expression classes the callback may test)
ANCESTORS = {
    "SchedulerExpression": ["SchedulerExpression", "TaskExpression", "ApplyExpression", "Expression"],
    "TaskExpression": ["TaskExpression", "ApplyExpression", "Expression"],
    "SimpleExpression": ["SimpleExpression", "ApplyExpression", "Expression"],
}


def cqb(b):
    return "true" if b else "false"


# ---------------------------------------------------------------- _find_arg_upstreams
def isinstance_of(node, var):
    """`isinstance(var, C)` / `isinstance(var, (C1, C2))` -> list of class names, else None."""
    if isinstance(node, ast.Call) and src(node.func) == "isinstance" and len(node.args) == 2 and not node.keywords \
            and src(node.args[0]) == var:
        c = node.args[1]
        if isinstance(c, ast.Name):
            return [c.id]
        if isinstance(c, ast.Tuple) and all(isinstance(x, ast.Name) for x in c.elts):
            return [x.id for x in c.elts]
    return None


def tr_finder(fn):
    body = body_nodoc(fn)
    if [a.arg for a in fn.args.args] != ["self", "expr_arg"]:
        fail("_find_arg_upstreams: unexpected parameters", fn)
    if len(body) != 1 or not isinstance(body[0], ast.For):
        fail("_find_arg_upstreams: expected a single for loop", fn)
    loop = body[0]
    if src(loop.target) != "value" or src(loop.iter) != "iter_nested_value(expr_arg)" or loop.orelse:
        fail("_find_arg_upstreams: expected `for value in iter_nested_value(expr_arg)`", loop)
    if len(loop.body) != 1 or not isinstance(loop.body[0], ast.If):
        fail("_find_arg_upstreams: expected one if/elif in the loop", loop)
    top = loop.body[0]
    # clause 1: isinstance(value, TaskExpression) and not isinstance(value, SchedulerExpression)
    t = top.test
    leaf_task = excl = False
    if isinstance(t, ast.BoolOp) and isinstance(t.op, ast.And) and len(t.values) == 2:
        a, b = t.values
        if isinstance_of(a, "value") == ["TaskExpression"] and isinstance(b, ast.UnaryOp) and isinstance(b.op, ast.Not) \
                and isinstance_of(b.operand, "value") == ["SchedulerExpression"]:
            leaf_task = excl = True
    if not leaf_task:
        fail("_find_arg_upstreams: first clause is not `TaskExpression and not SchedulerExpression`: " + src(t), top)
    if len(top.body) != 1 or not isinstance(top.body[0], ast.If) or top.body[0].orelse:
        fail("_find_arg_upstreams: expected `if value.call_hash: yield value.call_hash`", top)
    inner = top.body[0]
    if src(inner.test) != "value.call_hash" or len(inner.body) != 1 or src(inner.body[0]) != "yield value.call_hash":
        fail("_find_arg_upstreams: expected `if value.call_hash: yield value.call_hash`", inner)
    # clause 2
    if len(top.orelse) != 1 or not isinstance(top.orelse[0], ast.If) or top.orelse[0].orelse:
        fail("_find_arg_upstreams: expected exactly one elif clause", top)
    el = top.orelse[0]
    if isinstance_of(el.test, "value") != ["Expression"]:
        fail("_find_arg_upstreams: elif clause is not `isinstance(value, Expression)`", el)
    if len(el.body) != 1 or src(el.body[0]) != "yield from self._find_arg_upstreams(value._upstreams)":
        fail("_find_arg_upstreams: elif body is not the recursion into value._upstreams", el)
    return {"f_walks_nested": True, "f_leaf_task": True, "f_leaf_excludes_sched": excl, "f_leaf_needs_hash": True,
            "f_recurse_upstreams": True}


# ---------------------------------------------------------------- _record_args
def tr_record_args(fn):
    body = body_nodoc(fn)
    if [a.arg for a in fn.args.args] != ["self", "call_hash", "expr_args", "eval_args"]:
        fail("_record_args: unexpected parameters", fn)
    want_head = ["eval_pos_args, eval_kwargs = eval_args", "expr_pos_args, expr_kwargs = expr_args"]
    if [src(s) for s in body[:2]] != want_head:
        fail("_record_args: expected the two unpacking assignments first", fn)
    names = {}
    rest = body[2:]
    i = 0
    while i < len(rest) and isinstance(rest[i], ast.Assign) and len(rest[i].targets) == 1 \
            and isinstance(rest[i].targets[0], ast.Name):
        names[rest[i].targets[0].id] = rest[i].value
        i += 1
    if set(names) != {"default_args", "kw_keys", "all_args"}:
        fail(f"_record_args: expected assignments to default_args, kw_keys, all_args, got {sorted(names)}", fn)
    # default_args
    want_def = "[(None, key, eval_kwargs[key], eval_kwargs[key]) for key in eval_kwargs if key not in expr_kwargs]"
    if src(names["default_args"]) != want_def:
        fail("_record_args: default_args is not " + want_def + ": " + src(names["default_args"]), names["default_args"])
    if src(names["kw_keys"]) != "sorted(set(eval_kwargs) & set(expr_kwargs))":
        fail("_record_args: kw_keys is not sorted(set(eval_kwargs) & set(expr_kwargs)): " + src(names["kw_keys"]))
    ch = names["all_args"]
    if not (isinstance(ch, ast.Call) and src(ch.func) == "chain" and not ch.keywords):
        fail("_record_args: all_args is not chain(...)", ch)
    segs = []
    want_pos = ("((i, None, expr_arg, eval_arg) for i, (expr_arg, eval_arg) in "
                "enumerate(zip(expr_pos_args, eval_pos_args)))")
    want_kw = "((None, key, expr_kwargs[key], eval_kwargs[key]) for key in kw_keys)"
    for a in ch.args:
        s = src(a)
        if s == want_pos:
            segs.append("SegPos")
        elif s == want_kw:
            segs.append("SegKw")
        elif s == "default_args":
            segs.append("SegDef")
        else:
            fail("_record_args: unrecognised generator in chain(): " + s, a)
    tail = rest[i:]
    if len(tail) != 1 or not isinstance(tail[0], ast.With):
        fail("_record_args: expected the recording `with` block last", fn)
    return segs, pin(tail[0])


# ---------------------------------------------------------------- expression bookkeeping
def tr_bookkeeping(mod):
    init = find_func(mod, "__init__", "ApplyExpression")
    stmts = [src(s) for s in body_nodoc(init)]
    apply_ok = stmts == ["super().__init__()", "self.args = args", "self.kwargs = kwargs",
                         "self._upstreams = [args, kwargs]"]
    if not apply_ok:
        fail("ApplyExpression.__init__: expected `self._upstreams = [args, kwargs]` bookkeeping: " + "; ".join(stmts), init)
    d = find_func(mod, "derive_expression")
    stmts = [src(s) for s in body_nodoc(d)]
    want = ["if not isinstance(derived_value, Expression):\n    derived_expr: Expression = ValueExpression(derived_value)\n"
            "else:\n    derived_expr = derived_value", "derived_expr._upstreams = [orig_expr]", "return derived_expr"]
    if stmts != want:
        fail("derive_expression: unexpected body: " + "; ".join(stmts), d)
    return {"b_apply_upstreams_args_kwargs": True, "b_derive_sets_orig": True}


# ---------------------------------------------------------------- __setstate__ (pickling round trip)
def tr_setstate(mod):
    """TaskExpression.__setstate__ (inherited by SchedulerExpression): does it rebuild
    `_upstreams = [self.args, self.kwargs]`?  Everything else in it is pinned.  SimpleExpression.__setstate__ must
    rebuild (pinned)."""
    import hashlib
    fn = find_func(mod, "__setstate__", "TaskExpression")
    stmts = [src(x) for x in body_nodoc(fn)]
    reset = "self.call_hash = None"
    rebuild = "self._upstreams = [self.args, self.kwargs]"
    if reset not in stmts:
        fail("TaskExpression.__setstate__: call_hash is not reset; model does not cover this", fn)
    rebuilds = rebuild in stmts
    if rebuilds:
        need = [i for i, x in enumerate(stmts) if x.startswith("self.args =") or x.startswith("self.kwargs =")]
        if len(need) != 2 or stmts.index(rebuild) < max(need):
            fail("TaskExpression.__setstate__: _upstreams is rebuilt before args/kwargs are restored", fn)
    core = [x for x in stmts if x not in (reset, rebuild)]
    core_pin = hashlib.sha256("\n".join(core).encode()).hexdigest()[:16]
    return rebuilds, core_pin


# ---------------------------------------------------------------- _evaluate_apply callback
def find_nested(fn, name):
    for n in ast.walk(fn):
        if isinstance(n, ast.FunctionDef) and n.name == name and n is not fn:
            return n
    fail(f"{fn.name}: nested function {name} not found", fn)


def tr_callback(evap):
    cb = find_nested(evap, "callback")
    body = body_nodoc(cb)
    if [a.arg for a in cb.args.args] != ["result"]:
        fail("_evaluate_apply.callback: unexpected parameters", cb)
    if len(body) != 2 or not isinstance(body[0], ast.If) or src(body[1]) != "return result":
        fail("_evaluate_apply.callback: expected one if/elif chain and `return result`", cb)
    clauses = []          # (classes, set of copied attributes)
    node = body[0]
    while True:
        cls = isinstance_of(node.test, "expr2")
        if cls is None:
            fail("_evaluate_apply.callback: test is not isinstance(expr2, ...): " + src(node.test), node)
        attrs = set()
        for s in node.body:
            t = src(s)
            if t == "expr.call_hash = expr2.call_hash":
                attrs.add("call_hash")
            elif t == "expr._upstreams = expr2._upstreams":
                attrs.add("_upstreams")
            else:
                fail("_evaluate_apply.callback: unrecognised statement: " + t, s)
        clauses.append((cls, attrs))
        if len(node.orelse) == 1 and isinstance(node.orelse[0], ast.If):
            node = node.orelse[0]
            continue
        if len(node.orelse) != 1 or not isinstance(node.orelse[0], ast.Raise):
            fail("_evaluate_apply.callback: the chain must end with `else: raise AssertionError(...)`", node)
        break

    def copied(kind):
        for cls, attrs in clauses:
            if any(c in ANCESTORS[kind] for c in cls):
                return attrs
        return None

    if copied("TaskExpression") != {"call_hash"}:
        fail("_evaluate_apply.callback: a duplicate TaskExpression must receive exactly call_hash; model does not "
             f"cover {copied('TaskExpression')}", cb)
    if copied("SimpleExpression") != {"_upstreams"}:
        fail("_evaluate_apply.callback: a duplicate SimpleExpression must receive exactly _upstreams; model does not "
             f"cover {copied('SimpleExpression')}", cb)
    sch = copied("SchedulerExpression")
    if sch is None or not sch <= {"call_hash", "_upstreams"}:
        fail(f"_evaluate_apply.callback: duplicate SchedulerExpression receives {sch}", cb)
    # how the callback is attached: success only
    ok = any(isinstance(n, ast.Return) and n.value is not None and src(n.value) == "pending_promise.then(callback)"
             for n in ast.walk(evap))
    if not ok:
        fail("_evaluate_apply: expected `return pending_promise.then(callback)` (copy on success only)", evap)
    return "_upstreams" in sch


def blank(fn, target):
    """Copy of fn with the statement list of `target` replaced by `pass` (for pinning the rest)."""
    idx = None
    for k, n in enumerate(ast.walk(fn)):
        if n is target:
            idx = k
    fn2 = copy.deepcopy(fn)
    for k, n in enumerate(ast.walk(fn2)):
        if k == idx:
            n.body = [ast.Pass()]
    return fn2


# ---------------------------------------------------------------- catch, cache-hit block
def tr_catch(fn):
    hit = None
    for n in ast.walk(fn):
        if isinstance(n, ast.If) and src(n.test) == "cache_type != CacheResult.MISS":
            hit = n
    if hit is None or hit.orelse:
        fail("catch: `if cache_type != CacheResult.MISS:` block not found", fn)
    stmts = [src(s) for s in hit.body]
    ret = "return scheduler.evaluate(cached_expr, parent_job=parent_job).catch(promise_catch)"
    if stmts == [ret]:
        derive = False
    elif stmts == ["derive_expression(cached_expr, sexpr)", "expr = cached_expr", ret]:
        derive = True
    else:
        fail("catch: unrecognised cache-hit block: " + " | ".join(stmts), hit)
    pc = find_nested(fn, "promise_catch")
    return derive, hit, pc


# ---------------------------------------------------------------- main
def translate(pins: dict | None = None):
    """Returns (coq_text, info).  info: variant flags, got pins."""
    db = load(DB)
    ex = load(EXPR)
    sc = load(SCHED)
    ft = load(FUNCTOOLS)
    finder = tr_finder(find_func(db, "_find_arg_upstreams", "RedunBackendDb"))
    segs, loop_pin = tr_record_args(find_func(db, "_record_args", "RedunBackendDb"))
    bk = tr_bookkeeping(ex)
    rebuilds, setstate_core = tr_setstate(ex)
    evap = find_func(sc, "_evaluate_apply", "Scheduler")
    copy_sched = tr_callback(evap)
    catch = find_func(sc, "catch")
    derive_cached, hit, pc = tr_catch(catch)

    got = {
        "RedunBackendDb._record_args.loop": loop_pin,
        "RedunBackendDb.record_call_node": pin(find_func(db, "record_call_node", "RedunBackendDb")),
        "Scheduler._evaluate_apply-callback": pin(blank(evap, find_nested(evap, "callback"))),
        "Scheduler.evaluate": pin(find_func(sc, "evaluate", "Scheduler")),
        "scheduler.catch-hitblock": pin(blank(catch, hit)),
        "scheduler.cond": pin(find_func(sc, "cond")),
        "scheduler.get_arg_defaults": pin(find_func(sc, "get_arg_defaults")),
        "Job.resolve": pin(find_func(sc, "resolve", "Job")),
        "Job.reject": pin(find_func(sc, "reject", "Job")),
        "functools.seq": pin(find_func(ft, "seq")),
        "TaskExpression.__init__": pin(find_func(ex, "__init__", "TaskExpression")),
        "TaskExpression.__setstate__-core": setstate_core,
        "SimpleExpression.__setstate__": pin(find_func(ex, "__setstate__", "SimpleExpression")),
        "Expression.__setstate__": pin(find_func(ex, "__setstate__", "Expression")),
        "Expression.__init__": pin(find_func(ex, "__init__", "Expression")),
    }
    if pins is not None:
        bad = [f"{k}: shape changed (pin {got.get(k)} != {v}); the hand-written model of this definition is no "
               f"longer known to match" for k, v in pins.items() if got.get(k) != v]
        bad += [f"{k}: not in pins_C21.json" for k in got if k not in pins]
        if bad:
            raise TranslateError("\n".join(bad))

    if copy_sched and derive_cached:
        variant = "fixed"
    elif not copy_sched and not derive_cached:
        variant = "shipped"
    else:
        variant = "mixed"
    out = []
    out.append("(** GENERATED by translate/tr_dataflow.py from redun/backends/db/__init__.py, redun/expression.py,")
    out.append("    redun/scheduler.py — do not edit. *)")
    out.append("From Coq Require Import List ZArith String Bool.")
    out.append("From RV Require Import Model.Dataflow Proofs.DataflowArgs Props.C21.")
    out.append("Import ListNotations.")
    out.append("")
    out.append("Definition gen_finder : finder := {| " + "; ".join(f"{k} := {cqb(v)}" for k, v in finder.items()) + " |}.")
    out.append("Definition gen_bookkeeping : bookkeeping := {| " + "; ".join(f"{k} := {cqb(v)}" for k, v in bk.items()) + " |}.")
    out.append("Definition gen_segs : list seg := [" + "; ".join(segs) + "].")
    out.append(f"Definition gen_variant : variant := {{| v_copy_sched := {cqb(copy_sched)}; "
               f"v_derive_cached := {cqb(derive_cached)}; v_forget := false |}}.")
    out.append(f"Definition gen_setstate : setstate := {{| ss_rebuilds_upstreams := {cqb(rebuilds)} |}}.")
    out.append("")
    out.append("Lemma C21_tie_finder : gen_finder = model_finder. Proof. reflexivity. Qed.")
    out.append("Lemma C21_tie_bookkeeping : gen_bookkeeping = model_bookkeeping. Proof. reflexivity. Qed.")
    out.append("Lemma C21_tie_segs : gen_segs = shipped_segs. Proof. reflexivity. Qed.")
    out.append("")
    out.append("(** The argument-recording theorem, about the generators as the source chains them now. *)")
    out.append("Theorem C21_gen_args_recorded : forall xpos xkw epos ekw,")
    out.append("  args_shape xpos xkw epos ekw ->")
    out.append("  args_recorded (record_args_with gen_segs xpos xkw epos ekw) xkw epos ekw.")
    out.append("Proof. exact C21_args_recorded. Qed.")
    out.append("")
    if variant == "shipped":
        out.append("Lemma C21_tie_variant : gen_variant = shipped. Proof. reflexivity. Qed.")
        out.append("Theorem C21_gen_refuted_dup : ~ rows_complete cw (run_all cw gen_variant witness_dup empty_state).")
        out.append("Proof. exact C21_upstream_refuted_dup. Qed.")
        out.append("Theorem C21_gen_refuted_cached : ~ rows_complete cw (run_all cw gen_variant witness_cached empty_state).")
        out.append("Proof. exact C21_upstream_refuted_cached. Qed.")
    elif variant == "fixed":
        out.append("Lemma C21_tie_variant : gen_variant = fixed. Proof. reflexivity. Qed.")
        out.append("Theorem C21_gen_complete : forall W ps, rows_complete W (run_all W gen_variant ps empty_state).")
        out.append("Proof. exact C21_upstream_complete_fixed. Qed.")
    else:
        out.append("(* one defect site repaired, the other not: neither variant of the model *)")
        out.append("Lemma C21_tie_variant : gen_variant = shipped \\/ gen_variant = fixed.")
        out.append("Proof. first [left; reflexivity | right; reflexivity]. Qed.")
    out.append("")
    out.append("(** Pickling round trip of result expressions read back from the cache. *)")
    if rebuilds:
        out.append("Lemma C21_tie_setstate : gen_setstate = model_setstate. Proof. reflexivity. Qed.")
        out.append("Theorem C21_gen_roundtrip_invariant : forall W e st,")
        out.append("  run_prog W (deser_variant gen_setstate gen_variant) e st = run_prog W gen_variant e st.")
        out.append("Proof. intros W e st. exact (C21_roundtrip_invariant W gen_variant e st eq_refl). Qed.")
    else:
        out.append("Lemma C21_tie_setstate : gen_setstate = forgetful_setstate. Proof. reflexivity. Qed.")
        out.append("Theorem C21_gen_roundtrip_refuted :")
        out.append("  ~ rows_complete cw (run_all cw (deser_variant gen_setstate fixed) witness_deser empty_state).")
        out.append("Proof. exact C21_roundtrip_refuted. Qed.")
    out.append("")
    return "\n".join(out), {"rebuilds": rebuilds, "variant": variant, "copy_sched": copy_sched, "derive_cached": derive_cached, "pins": got,
                            "segs": segs}


if __name__ == "__main__":
    import json
    import sys
    text, info = translate(None)
    if len(sys.argv) > 1 and sys.argv[1] == "--pins":
        print(json.dumps(info["pins"], indent=1))
    else:
        print(text)
