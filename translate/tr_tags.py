"""Translator for redun/tags.py (str2literal, parse_tag_value, format_tag_value)
-> coq/Gen/C34Gen.v  (fail closed).

All three anchored functions are recognised structurally and turned into a `tag_cfg`
(Model/TagValue.v); nothing is hand-modelled behind a pin.  The recognised shapes are a
closed set; any other statement, test, call or exception handler raises TranslateError.
"""
from __future__ import annotations

import ast
import sys

from .astutil import TranslateError, body_nodoc, fail, find_func, is_call, load, src

INFER = {"int": "TryInt", "float": "TryFloat", "str2literal": "TryLiteral"}
LITS = {True: "LTrue", False: "LFalse", None: "LNone"}
BUILTINS_USED = ("int", "float", "str", "isinstance", "ValueError")
REGEX_META = set("\\]^-[\n")


def one_param(fn, what):
    a = fn.args
    if a.posonlyargs or a.kwonlyargs or a.vararg or a.kwarg or a.defaults or len(a.args) != 1:
        fail(f"{what}: expected exactly one plain parameter", fn)
    if fn.decorator_list:
        fail(f"{what}: decorated", fn)
    for n in ast.walk(fn):
        if isinstance(n, (ast.Global, ast.Nonlocal, ast.Lambda, ast.Yield, ast.YieldFrom, ast.Await, ast.NamedExpr)) \
                or (isinstance(n, (ast.FunctionDef, ast.AsyncFunctionDef, ast.ClassDef)) and n is not fn):
            fail(f"{what}: unsupported construct {type(n).__name__}", n)
    return a.args[0].arg


def is_name(node, name):
    return isinstance(node, ast.Name) and node.id == name


def char_tuple(node, what):
    """A tuple/list display of one-character string constants -> list of code points."""
    if not isinstance(node, (ast.Tuple, ast.List)) or not node.elts:
        fail(f"{what}: expected a non-empty tuple of one-character strings", node)
    out = []
    for e in node.elts:
        if not (isinstance(e, ast.Constant) and isinstance(e.value, str) and len(e.value) == 1):
            fail(f"{what}: element {src(e)!r} is not a one-character string", e)
        out.append(ord(e.value))
    return sorted(set(out))     # membership test: order and repetition are irrelevant


def check_names(mod, fns):
    """`json`/`re` must be the stdlib modules, the builtins must not be shadowed, the three
    functions must be defined once."""
    bound: dict[str, list] = {}

    def bind(name, node):
        bound.setdefault(name, []).append(node)

    for n in ast.walk(mod):
        if isinstance(n, (ast.Import, ast.ImportFrom)):
            for a in n.names:
                bind((a.asname or a.name).split(".")[0], n)
        elif isinstance(n, (ast.FunctionDef, ast.AsyncFunctionDef, ast.ClassDef)):
            bind(n.name, n)
            if not isinstance(n, ast.ClassDef):
                for a in n.args.posonlyargs + n.args.args + n.args.kwonlyargs + \
                        ([n.args.vararg] if n.args.vararg else []) + ([n.args.kwarg] if n.args.kwarg else []):
                    if n.name in fns:
                        bind(a.arg, a)
        elif isinstance(n, ast.Name) and isinstance(n.ctx, (ast.Store, ast.Del)):
            bind(n.id, n)
        elif isinstance(n, ast.ExceptHandler) and n.name:
            bind(n.name, n)
    for m in ("json", "re"):
        b = bound.get(m, [])
        if not (len(b) == 1 and isinstance(b[0], ast.Import) and b[0] in mod.body
                and any(a.name == m and a.asname is None for a in b[0].names)):
            fail(f"`{m}` is not bound exactly once by a module-level `import {m}`")
    for nme in BUILTINS_USED:
        if nme in bound:
            fail(f"builtin `{nme}` is rebound in tags.py", bound[nme][0])
    for f in fns:
        if len(bound.get(f, [])) != 1:
            fail(f"`{f}` is bound {len(bound.get(f, []))} times")
    # attribute assignment to the modules (json.loads = ...) is not a Name store; reject it too
    for n in ast.walk(mod):
        if isinstance(n, ast.Attribute) and isinstance(n.ctx, (ast.Store, ast.Del)) and \
                isinstance(n.value, ast.Name) and n.value.id in ("json", "re"):
            fail("attribute of json/re assigned", n)


def tr_str2literal(fn):
    p = one_param(fn, "str2literal")
    b = body_nodoc(fn)
    if len(b) != 2:
        fail("str2literal: expected `lookup = {...}` and one if/else", fn)
    a, i = b
    if not (isinstance(a, ast.Assign) and len(a.targets) == 1 and isinstance(a.targets[0], ast.Name)
            and isinstance(a.value, ast.Dict)):
        fail("str2literal: first statement is not `<name> = {...}`", a)
    tbl = a.targets[0].id
    if tbl == p:
        fail("str2literal: table overwrites the parameter", a)
    lits = []
    for k, v in zip(a.value.keys, a.value.values):
        if not (isinstance(k, ast.Constant) and isinstance(k.value, str)):
            fail("str2literal: key is not a string constant", a)
        if not (isinstance(v, ast.Constant) and (v.value is None or isinstance(v.value, bool))):
            fail(f"str2literal: value {src(v)!r} is not True/False/None", v)
        if any(k.value == k2 for k2, _ in lits):
            fail(f"str2literal: repeated key {k.value!r}", k)
        lits.append((k.value, LITS[v.value]))
    ok = (isinstance(i, ast.If) and src(i.test) == f"{p} in {tbl}"
          and len(i.body) == 1 and isinstance(i.body[0], ast.Return) and i.body[0].value is not None
          and src(i.body[0].value) == f"{tbl}[{p}]"
          and len(i.orelse) == 1 and is_raise_valueerror(i.orelse[0]))
    if not ok:
        fail("str2literal: expected `if p in lookup: return lookup[p] else: raise ValueError(...)`", i)
    return sorted(lits)         # keys are unique (checked): lookup does not depend on the order


def is_raise_valueerror(s):
    if not (isinstance(s, ast.Raise) and s.cause is None and isinstance(s.exc, ast.Call)
            and is_name(s.exc.func, "ValueError") and not s.exc.keywords):
        return False
    for a in s.exc.args:       # message only: constants and f-strings over plain names
        for n in ast.walk(a):
            if not isinstance(n, (ast.Constant, ast.JoinedStr, ast.FormattedValue, ast.Name, ast.Load)):
                return False
    return True


def tr_parse(fn):
    p = one_param(fn, "parse_tag_value")
    b = body_nodoc(fn)
    if len(b) < 3:
        fail("parse_tag_value: too few statements", fn)
    # 1. empty string
    s = b[0]
    if not (isinstance(s, ast.If) and src(s.test) == f"not {p}" and not s.orelse and len(s.body) == 1
            and isinstance(s.body[0], ast.Return) and isinstance(s.body[0].value, ast.Constant)
            and s.body[0].value.value is None):
        fail("parse_tag_value: expected `if not p: return None` first", s)
    # 2. JSON route
    s = b[1]
    if not (isinstance(s, ast.If) and not s.orelse and isinstance(s.test, ast.Compare)
            and len(s.test.ops) == 1 and isinstance(s.test.ops[0], ast.In)
            and src(s.test.left) == f"{p}[0]" and len(s.body) == 1 and isinstance(s.body[0], ast.Try)):
        fail("parse_tag_value: expected `if p[0] in (...): try: ...` second", s)
    json_first = char_tuple(s.test.comparators[0], "parse_tag_value: first-character test")
    t = s.body[0]
    if not (len(t.body) == 1 and isinstance(t.body[0], ast.Return) and t.body[0].value is not None
            and src(t.body[0].value) == f"json.loads({p})" and not t.orelse and not t.finalbody
            and len(t.handlers) == 1 and t.handlers[0].type is not None
            and src(t.handlers[0].type) == "json.JSONDecodeError"
            and len(t.handlers[0].body) == 1 and is_raise_valueerror(t.handlers[0].body[0])):
        fail("parse_tag_value: JSON route is not `try: return json.loads(p) except json.JSONDecodeError: "
             "raise ValueError(...)`", t)
    # 3. inference attempts
    infer = []
    for s in b[2:-1]:
        if not (isinstance(s, ast.Try) and not s.orelse and not s.finalbody and len(s.body) == 1
                and isinstance(s.body[0], ast.Return) and is_call(s.body[0].value, None, 1)
                and isinstance(s.body[0].value.func, ast.Name) and s.body[0].value.func.id in INFER
                and is_name(s.body[0].value.args[0], p)
                and len(s.handlers) == 1 and s.handlers[0].type is not None
                and is_name(s.handlers[0].type, "ValueError")
                and len(s.handlers[0].body) == 1 and isinstance(s.handlers[0].body[0], ast.Pass)):
            fail(f"parse_tag_value: unrecognised statement {src(s)[:60]!r}; expected "
                 "`try: return int|float|str2literal(p) except ValueError: pass`", s)
        infer.append(INFER[s.body[0].value.func.id])
    # 4. fall through
    s = b[-1]
    if not (isinstance(s, ast.Return) and s.value is not None and is_name(s.value, p)):
        fail("parse_tag_value: last statement is not `return p`", s)
    return json_first, infer


def tr_format(fn):
    v = one_param(fn, "format_tag_value")
    b = body_nodoc(fn)
    if not (len(b) == 1 and isinstance(b[0], ast.If) and isinstance(b[0].test, ast.BoolOp)
            and isinstance(b[0].test.op, ast.And)):
        fail("format_tag_value: expected a single `if a and b and ...: ... else: ...`", fn)
    i = b[0]
    conj = i.test.values
    if src(conj[0]) != f"isinstance({v}, str)":
        fail(f"format_tag_value: first conjunct must be isinstance({v}, str)", conj[0])
    guards = []
    for c in conj[1:]:
        # not re.match(".*[cls].*", v)
        if isinstance(c, ast.UnaryOp) and isinstance(c.op, ast.Not) and is_call(c.operand, "re.match", 2) \
                and is_name(c.operand.args[1], v) and isinstance(c.operand.args[0], ast.Constant) \
                and isinstance(c.operand.args[0].value, str):
            pat = c.operand.args[0].value
            if not (pat.startswith(".*[") and pat.endswith("].*") and len(pat) > 6):
                fail(f"format_tag_value: regex {pat!r} is not of the form .*[chars].*", c)
            cls = pat[3:-3]
            if any(ch in REGEX_META for ch in cls):
                fail(f"format_tag_value: regex class {cls!r} contains a metacharacter", c)
            guards.append(("GNoSep", sorted(set(ord(ch) for ch in cls))))
        # v[:1] not in (...)
        elif isinstance(c, ast.Compare) and len(c.ops) == 1 and isinstance(c.ops[0], ast.NotIn) \
                and src(c.left) == f"{v}[:1]":
            guards.append(("GNotFirstIn", char_tuple(c.comparators[0], "format_tag_value: first-character test")))
        # isinstance(parse_tag_value(v), str)
        elif src(c) == f"isinstance(parse_tag_value({v}), str)":
            guards.append(("GParsesToStr", None))
        else:
            fail(f"format_tag_value: unrecognised conjunct {src(c)!r}", c)
    if not (len(i.body) == 1 and isinstance(i.body[0], ast.Return) and i.body[0].value is not None
            and is_name(i.body[0].value, v)):
        fail("format_tag_value: the bare branch is not `return value`", i)
    if not (len(i.orelse) == 1 and isinstance(i.orelse[0], ast.Return) and is_call(i.orelse[0].value, "json.dumps")):
        fail("format_tag_value: the else branch is not `return json.dumps(...)`", i)
    call = i.orelse[0].value
    if not (len(call.args) == 1 and is_name(call.args[0], v)):
        fail("format_tag_value: json.dumps is not applied to the value alone", call)
    sort_keys = False
    for kw in call.keywords:
        if kw.arg == "sort_keys" and isinstance(kw.value, ast.Constant) and isinstance(kw.value.value, bool):
            sort_keys = kw.value.value
        else:
            fail(f"format_tag_value: unrecognised json.dumps option {src(kw)!r}", kw)
    return guards, sort_keys


def nlist(codes):
    return "[" + "; ".join(str(c) for c in codes) + "]%N"


FIXED_GUARDS = [("GNoSep", [32, 44]), ("GNotFirstIn", [34, 91, 123]), ("GParsesToStr", None)]


def translate(source: str | None = None):
    """Returns (coq_text, info). info["variant"] is "fixed" when the extracted guard is the
    repaired one, else "shipped" (the tie lemma is stated against that variant; a third
    behaviour makes the tie fail to compile)."""
    mod = load("redun/tags.py", source)
    fns = ("str2literal", "parse_tag_value", "format_tag_value")
    check_names(mod, fns)
    lits = tr_str2literal(find_func(mod, "str2literal"))
    json_first, infer = tr_parse(find_func(mod, "parse_tag_value"))
    guards, sort_keys = tr_format(find_func(mod, "format_tag_value"))
    variant = "fixed" if guards == FIXED_GUARDS else "shipped"

    def g(x):
        return x[0] if x[1] is None else f"{x[0]} {nlist(x[1])}"

    v = []
    v.append("(* GENERATED by translate/tr_tags.py from /repo/redun/tags.py -- do not edit *)")
    v.append("From Coq Require Import List NArith ZArith.")
    v.append("From RV Require Import Model.TagValue.")
    v.append("Import ListNotations.")
    v.append("Definition gen : tag_cfg := {|")
    v.append(f"  json_first := {nlist(json_first)};")
    v.append("  infer := [" + "; ".join(infer) + "];")
    v.append("  literals := [" + "; ".join(f"({nlist([ord(c) for c in k])}, {l})" for k, l in lits) + "];")
    v.append("  str_guards := [" + "; ".join(g(x) for x in guards) + "];")
    v.append(f"  sort_keys := {'true' if sort_keys else 'false'}")
    v.append("|}.")
    t = []
    t.append("(* GENERATED by translate/tr_tags.py -- do not edit *)")
    t.append("From Coq Require Import List NArith ZArith String.")
    t.append("From RV Require Import Model.TagValue Proofs.TagValueFacts Props.C34 Gen.C34Gen.")
    t.append("Import ListNotations.")
    t.append("(* The theorems of Props/C34.v are about [shipped] and [fixed]; this is the tie. *)")
    t.append(f"Lemma C34_tie : gen = {variant}.")
    t.append("Proof. vm_compute. reflexivity. Qed.")
    if variant == "fixed":
        t.append("Theorem C34_gen_format_total : forall F (E : ext F) v, exists t, format_tag_value gen E v = FOk t.")
        t.append("Proof. rewrite C34_tie. exact C34_format_total_fixed. Qed.")
        t.append("Theorem C34_gen_roundtrip : forall F (E : ext F), py_laws E -> forall v, wf v ->")
        t.append("  exists t v', format_tag_value gen E v = FOk t /\\ parse_tag_value gen E t = POk v' /\\ jeq v v'.")
        t.append("Proof. rewrite C34_tie. exact C34_roundtrip_fixed. Qed.")
    else:
        t.append("Theorem C34_gen_format_total_refuted : forall F (E : ext F), json_loads E (u \"[abc\") = None ->")
        t.append("  exists v, wf v /\\ format_tag_value gen E v = FValueError.")
        t.append("Proof. rewrite C34_tie. exact C34_format_total_refuted. Qed.")
        t.append("Theorem C34_gen_roundtrip_partial : forall F (E : ext F), py_laws E -> forall v, wf v ->")
        t.append("  (forall s, v = JStr s -> ~ shipped_bad E s) ->")
        t.append("  exists t v', format_tag_value gen E v = FOk t /\\ parse_tag_value gen E t = POk v' /\\ jeq v v'.")
        t.append("Proof. rewrite C34_tie. exact C34_roundtrip_shipped_partial. Qed.")
    info = {"variant": variant, "json_first": json_first, "infer": infer, "literals": lits,
            "guards": guards, "sort_keys": sort_keys}
    info["tie"] = "\n".join(t) + "\n"
    return "\n".join(v) + "\n", info


if __name__ == "__main__":
    text, info = translate()
    sys.stdout.write(text)
    sys.stdout.write(info.pop("tie"))
    print(info, file=sys.stderr)
