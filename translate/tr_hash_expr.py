"""Translator for expression hashing / pickling (C18) -> coq/Gen/C18Gen.v  (fail closed).

Extracted (tie: `gen = describe_expr ve`, Model/ExprHash.v):
  redun/expression.py  _calc_hash of TaskExpression, SchedulerExpression, SimpleExpression, ValueExpression
                         -> branches (guard, tag, fields) and the defining expressions of the component hashes
                       Expression.get_hash          -> cached in _hash
                       __getstate__ / __setstate__  -> (key, expression) / (attribute, expression) tables
  redun/scheduler.py   every use of self._pending_expr[parent_job] is keyed by expr.get_hash()
Pinned by shape: the constructors and the hashing helpers (see PINNED).
"""
from __future__ import annotations

import ast
import json
import sys
from pathlib import Path

from .astutil import TranslateError, body_nodoc, fail, find_class, is_call, load, pin, src

PINS_FILE = Path(__file__).resolve().parent / "pins_C18.json"

DEFS = {
    "hash_arguments(registry, self.args, self.kwargs)": "EArgsHash",
    "hash_bytes(pickle_dumps(self._options))": "EOptionsHash",
    "hash_struct(list(sorted(self._export_options)))": "EExportHash",
    "registry.get_hash(self.value)": "EValueHash",
}
DEF_FIELD = {"EArgsHash": "ed_args_hash", "EOptionsHash": "ed_options_hash", "EExportHash": "ed_export_hash",
             "EValueHash": "ed_value_hash"}
GUARDS = {"not self._export_options": "GNoExport",
          "not self._options and (not self._export_options)": "GNoOptionsNoExport"}
NAME_ATTR = {"TaskExpression": "self.task_name", "SchedulerExpression": "self.task_name",
             "SimpleExpression": "self.func_name"}

SHIPPED_SCHED = [("GAlways", "SchedulerExpression", ["EName", "EArgsHash"])]
FIXED_SCHED = [("GNoOptionsNoExport", "SchedulerExpression", ["EName", "EArgsHash"]),
               ("GAlways", "SchedulerExpression", ["EName", "EArgsHash", "EOptionsHash", "EExportHash"])]

PINNED = {
    "Expression.__init__": ("redun/expression.py", "Expression", "__init__"),
    "ApplyExpression.__init__": ("redun/expression.py", "ApplyExpression", "__init__"),
    "TaskExpression.__init__": ("redun/expression.py", "TaskExpression", "__init__"),
    "SimpleExpression.__init__": ("redun/expression.py", "SimpleExpression", "__init__"),
    "ValueExpression.__init__": ("redun/expression.py", "ValueExpression", "__init__"),
    "hash_struct": ("redun/hashing.py", None, "hash_struct"),
    "hash_bytes": ("redun/hashing.py", None, "hash_bytes"),
    "hash_arguments": ("redun/hashing.py", None, "hash_arguments"),
    "hash_positional_args": ("redun/hashing.py", None, "hash_positional_args"),
    "hash_kwargs": ("redun/hashing.py", None, "hash_kwargs"),
    "Hash.__init__": ("redun/hashing.py", "Hash", "__init__"),
    "Hash.update": ("redun/hashing.py", "Hash", "update"),
    "Hash.hexdigest": ("redun/hashing.py", "Hash", "hexdigest"),
    "pickle_dumps": ("redun/utils.py", None, "pickle_dumps"),
}


def method(cls_node, name, required=True):
    out = None
    for n in cls_node.body:
        if isinstance(n, (ast.FunctionDef, ast.AsyncFunctionDef)) and n.name == name:
            out = n
    if out is None and required:
        fail(f"{cls_node.name}.{name} not found", cls_node)
    return out


def module_func(mod, name):
    out = None
    for n in mod.body:
        if isinstance(n, (ast.FunctionDef, ast.AsyncFunctionDef)) and n.name == name:
            out = n
    if out is None:
        fail(f"function {name} not found")
    return out


# ------------------------------------------------------------------------------------------------
_MODULE = {}


def name_table(ident, node):
    """a module-level `ident = {"a": "b", ...}` of expression.py with str keys and values, never written elsewhere"""
    mod = _MODULE["expression"]
    found = None
    for n in ast.walk(mod):
        tg = []
        if isinstance(n, ast.Assign):
            tg = n.targets
        elif isinstance(n, (ast.AnnAssign, ast.AugAssign)):
            tg = [n.target]
        for t in tg:
            base = t.value if isinstance(t, ast.Subscript) else t
            if isinstance(base, ast.Name) and base.id == ident:
                if found is not None or n not in mod.body or not isinstance(n, (ast.Assign, ast.AnnAssign)) \
                        or isinstance(t, ast.Subscript):
                    fail(f"name table {ident} is written in more than one place", n)
                found = n.value
        if isinstance(n, ast.Call) and isinstance(n.func, ast.Attribute) and isinstance(n.func.value, ast.Name) \
                and n.func.value.id == ident and n.func.attr not in ("get", "items", "keys", "values"):
            fail(f"name table {ident} is modified by .{n.func.attr}()", n)
    if not isinstance(found, ast.Dict):
        fail(f"name table {ident} is not a module-level dict literal", node)
    out = []
    for k, v in zip(found.keys, found.values):
        if not (isinstance(k, ast.Constant) and isinstance(k.value, str) and isinstance(v, ast.Constant)
                and isinstance(v.value, str)):
            fail(f"name table {ident}: entries must be string literals", found)
        out.append((k.value, v.value))
    if len({k for k, _ in out}) != len(out):
        fail(f"name table {ident}: repeated key", found)
    return out


def calc_branches(cls, defs_seen):
    """-> list of (guard, tag, [fields])"""
    fn = method(cls, "_calc_hash")
    what = f"{cls.name}._calc_hash"
    if [a.arg for a in fn.args.args] != ["self"]:
        fail(f"{what}: signature changed", fn)
    local = {}
    out = []

    def ret(stmt, guard):
        if not (isinstance(stmt, ast.Return) and is_call(stmt.value, "hash_struct", 1)
                and isinstance(stmt.value.args[0], ast.List)):
            fail(f"{what}: expected `return hash_struct([...])`", stmt)
        elts = stmt.value.args[0].elts
        if not elts or not (isinstance(elts[0], ast.Constant) and isinstance(elts[0].value, str)
                            and elts[0].value.isidentifier()):
            fail(f"{what}: the first element must be a tag literal", stmt)
        fields = []
        for e in elts[1:]:
            s = src(e)
            if s == NAME_ATTR.get(cls.name):
                fields.append("EName")
            elif isinstance(e, ast.Name) and e.id in local:
                fields.append(local[e.id])
            else:
                fail(f"{what}: unrecognised element {s!r}", e)
        out.append((guard, elts[0].value, fields))

    def assign(stmt):
        if not (isinstance(stmt, ast.Assign) and len(stmt.targets) == 1 and isinstance(stmt.targets[0], ast.Name)):
            fail(f"{what}: unrecognised statement {src(stmt)!r}", stmt)
        name, val = stmt.targets[0].id, src(stmt.value)
        if name == "registry":
            if val != "get_type_registry()":
                fail(f"{what}: registry = {val}", stmt)
            return
        nm_attr = NAME_ATTR.get(cls.name)
        v = stmt.value
        if nm_attr and isinstance(v, ast.Call) and isinstance(v.func, ast.Attribute) and v.func.attr == "get" \
                and isinstance(v.func.value, ast.Name) and not v.keywords and [src(a) for a in v.args] == [nm_attr, nm_attr]:
            # <table>.get(self.func_name, self.func_name): the name is replaced through a module-level str->str table
            table = name_table(v.func.value.id, stmt)
            if name in local or cls.name in defs_seen.get("__name_map__", {}):
                fail(f"{what}: {name} assigned twice", stmt)
            local[name] = "EName"
            defs_seen.setdefault("__name_map__", {})[cls.name] = table
            return
        if val not in DEFS:
            fail(f"{what}: unrecognised definition {name} = {val}", stmt)
        if name in local:
            fail(f"{what}: {name} assigned twice", stmt)
        local[name] = DEFS[val]
        defs_seen.setdefault(DEFS[val], val)

    def walk(stmts):
        """returns True if the sequence always returns"""
        for i, s in enumerate(stmts):
            if isinstance(s, ast.Return):
                ret(s, "GAlways")
                if i != len(stmts) - 1:
                    fail(f"{what}: statements after return", s)
                return True
            if isinstance(s, ast.If):
                g = GUARDS.get(src(s.test))
                if g is None:
                    fail(f"{what}: unrecognised guard {src(s.test)!r}", s)
                if not all(isinstance(x, ast.Return) for x in s.body) or len(s.body) != 1:
                    fail(f"{what}: guarded branch must be a single return", s)
                ret(s.body[0], g)
                if s.orelse:
                    if not walk(s.orelse) or i != len(stmts) - 1:
                        fail(f"{what}: unrecognised else branch", s)
                    return True
                continue
            assign(s)
        return False

    if not walk(body_nodoc(fn)):
        fail(f"{what}: does not end in a return", fn)
    if out[-1][0] != "GAlways" or any(g == "GAlways" for g, _, _ in out[:-1]):
        fail(f"{what}: unrecognised branch structure {out}", fn)
    return out


def getstate_table(cls):
    fn = method(cls, "__getstate__")
    what = f"{cls.name}.__getstate__"
    body = body_nodoc(fn)
    if cls.name == "Expression":
        if [src(s) for s in body] != ["return {}"]:
            fail(f"{what}: body changed", fn)
        return []
    pre = [src(s) for s in body[:-1]]
    if pre != ["state = super().__getstate__()", "registry = get_type_registry()"]:
        fail(f"{what}: unrecognised statements {pre!r}", fn)
    r = body[-1]
    if not (isinstance(r, ast.Return) and isinstance(r.value, ast.Dict) and r.value.keys and r.value.keys[0] is None
            and src(r.value.values[0]) == "state"):
        fail(f"{what}: expected `return {{**state, ...}}`", r)
    out = []
    for k, v in zip(r.value.keys[1:], r.value.values[1:]):
        if not (isinstance(k, ast.Constant) and isinstance(k.value, str)):
            fail(f"{what}: unrecognised key", r)
        out.append((k.value, src(v)))
    return out


def setstate_table(cls):
    fn = method(cls, "__setstate__")
    what = f"{cls.name}.__setstate__"
    body = body_nodoc(fn)
    out = []
    for i, s in enumerate(body):
        t = src(s)
        if cls.name != "Expression" and i == 0:
            if t != "super().__setstate__(state)":
                fail(f"{what}: must start with super().__setstate__(state)", s)
            continue
        if t == "registry = get_type_registry()":
            continue
        if not (isinstance(s, ast.Assign) and len(s.targets) == 1 and isinstance(s.targets[0], ast.Attribute)
                and src(s.targets[0].value) == "self"):
            fail(f"{what}: unrecognised statement {t!r}", s)
        item = (src(s.targets[0]), src(s.value))
        if out and out[-1] == item:
            continue      # the same reset written twice
        out.append(item)
    return out


def tr_get_hash(cls):
    fn = method(cls, "get_hash")
    body = [src(s) for s in body_nodoc(fn)]
    if body != ["if self._hash is None:\n    self._hash = self._calc_hash()", "return self._hash"]:
        fail(f"Expression.get_hash: body changed {body!r}", fn)
    return True


def tr_pending(mod):
    keys = set()
    gets = stores = 0
    for n in ast.walk(mod):
        if isinstance(n, ast.Subscript) and src(n.value) == "self._pending_expr[parent_job]":
            keys.add(src(n.slice))
            stores += isinstance(n.ctx, ast.Store)
        if isinstance(n, ast.Call) and src(n.func) == "self._pending_expr[parent_job].get":
            if len(n.args) != 1 or n.keywords:
                fail("scheduler: unrecognised _pending_expr[parent_job].get(...) call", n)
            keys.add(src(n.args[0]))
            gets += 1
    if not gets or not stores:
        fail("scheduler: the pending-expression table is no longer read and written under parent_job")
    if len(keys) != 1:
        fail(f"scheduler: the pending-expression table is keyed inconsistently: {sorted(keys)}")
    return keys.pop()


WATCHED = ("_options", "_export_options")
COPYING_CALLS = {"set", "dict", "sorted", "list", "tuple", "frozenset", "len", "bool", "pickle_dumps"}
READ_METHODS = {"get", "keys", "items", "values", "copy", "union", "issubset", "issuperset", "isdisjoint"}


def tr_immutable(relpath, mod):
    """Every access to `<obj>._options` / `<obj>._export_options` in this module must be one of a closed set
    of uses that neither write, mutate nor alias the object: the expression model is a value and its cached
    hash stays the hash of its fields only if nothing changes them after construction."""
    parent = {}
    for n in ast.walk(mod):
        for c in ast.iter_child_nodes(n):
            parent[c] = n

    def enclosing(n):
        fn = cls = None
        while n in parent:
            n = parent[n]
            if fn is None and isinstance(n, (ast.FunctionDef, ast.AsyncFunctionDef)):
                fn = n.name
            if cls is None and isinstance(n, ast.ClassDef):
                cls = n.name
        return cls, fn

    count = 0
    for n in ast.walk(mod):
        if not (isinstance(n, ast.Attribute) and n.attr in WATCHED):
            continue
        count += 1
        cls, fn = enclosing(n)
        where = f"{relpath}:{n.lineno} ({cls}.{fn}): {src(parent[n])[:90]!r}"
        p = parent[n]
        if isinstance(n.ctx, ast.Store):
            if src(n.value) == "self" and fn in ("__init__", "__setstate__") and isinstance(p, (ast.Assign, ast.AnnAssign)):
                continue
            fail(f"{n.attr} is assigned outside a constructor: {where}", n)
        if not isinstance(n.ctx, ast.Load):
            fail(f"{n.attr} is deleted: {where}", n)
        if isinstance(p, ast.BinOp) and isinstance(p.op, ast.BitOr) and not isinstance(parent.get(p), ast.AugAssign):
            continue                                              # a | b builds a new set
        if isinstance(p, ast.BinOp) and isinstance(p.op, ast.BitOr) and parent[p].value is p:
            continue                                              # x |= a | b : still a new right-hand side
        if isinstance(p, ast.Dict) and n in p.values:
            k = p.keys[p.values.index(n)]
            if k is None or fn == "__getstate__":
                continue                                          # {**d} copies; __getstate__ hands it to pickle
        if isinstance(p, ast.Call) and n in p.args and src(p.func) in COPYING_CALLS:
            continue
        if isinstance(p, ast.Attribute) and p.value is n and isinstance(parent.get(p), ast.Call) \
                and parent[p].func is p:
            if p.attr in READ_METHODS:
                continue
            if p.attr == "add" and relpath == "redun/task.py" and (cls, fn) == ("Task", "_validate") \
                    and src(n.value) == "self":
                continue                                          # the Task's own set, while it is being constructed
        if isinstance(p, (ast.Compare, ast.BoolOp, ast.If, ast.IfExp, ast.While)) \
                or (isinstance(p, ast.UnaryOp) and isinstance(p.op, ast.Not)):
            continue
        if isinstance(p, ast.Subscript) and p.value is n and isinstance(p.ctx, ast.Load):
            continue
        if isinstance(p, ast.Tuple) and isinstance(parent.get(p), ast.Call) \
                and src(parent[p].func) == "iter_nested_value":
            continue                                              # read-only traversal
        if isinstance(p, ast.keyword) and p.arg in ("task_options", "export_options") and src(n.value) == "self" \
                and relpath == "redun/task.py" and fn == "__call__" \
                and src(parent[p].func) in ("TaskExpression", "SchedulerExpression"):
            continue                                              # Task.__call__ hands its own (never mutated) containers over
        fail(f"unrecognised use of an expression's {n.attr} (it may be written, mutated or aliased after the "
             f"hash was cached): {where}", n)
    return count


def tr_all_immutable():
    from .astutil import REPO
    total = 0
    for path in sorted((REPO / "redun").rglob("*.py")):
        rel = str(path.relative_to(REPO))
        if "/tests/" in rel:
            continue
        text = path.read_text()
        if "_options" not in text:
            continue
        total += tr_immutable(rel, ast.parse(text, filename=rel))
    if total < 10:
        fail("the accesses to _options/_export_options were not found where expected")
    return True


def cq(s: str) -> str:
    if not (s.isascii() and s.isprintable()):
        fail(f"non-printable text in extracted expression {s!r}")
    return 'b "' + s.replace('"', '""') + '"'


def translate(pins: dict | None = None):
    """-> (coq text, pins found, ve, SimpleExpression name map)"""
    mod = load("redun/expression.py")
    classes = {n: find_class(mod, n) for n in ("Expression", "ApplyExpression", "TaskExpression", "SimpleExpression",
                                               "SchedulerExpression", "ValueExpression")}
    bases = {n: [src(x) for x in c.bases] for n, c in classes.items()}
    exp_bases = {"Expression": ["Value", "Generic[Result]"], "ApplyExpression": ["Expression[Result]"],
                 "TaskExpression": ["ApplyExpression[Result]"], "SimpleExpression": ["ApplyExpression[Result]"],
                 "SchedulerExpression": ["TaskExpression[Result]"], "ValueExpression": ["Expression[Result]"]}
    if bases != exp_bases:
        fail(f"expression class hierarchy changed: {bases}")
    for name in ("__getstate__", "__setstate__", "get_hash", "__init__"):
        if method(classes["SchedulerExpression"], name, required=False) is not None:
            fail(f"SchedulerExpression defines its own {name}")
    for name in ("__getstate__", "__setstate__", "get_hash", "_calc_hash"):
        if method(classes["ApplyExpression"], name, required=False) is not None:
            fail(f"ApplyExpression defines its own {name}")
    for c in ("TaskExpression", "SimpleExpression", "ValueExpression", "SchedulerExpression"):
        if method(classes[c], "get_hash", required=False) is not None:
            fail(f"{c} overrides get_hash")
    defs_seen: dict = {}
    _MODULE["expression"] = mod
    br = {c: calc_branches(classes[c], defs_seen) for c in ("TaskExpression", "SchedulerExpression", "SimpleExpression",
                                                            "ValueExpression")}
    if br["SchedulerExpression"] == SHIPPED_SCHED:
        ve = "AsShipped"
    elif br["SchedulerExpression"] == FIXED_SCHED:
        ve = "Fixed"
    else:
        fail(f"SchedulerExpression._calc_hash: unrecognised layout {br['SchedulerExpression']}")
    maps = defs_seen.pop("__name_map__", {})
    if set(maps) - {"SimpleExpression"}:
        fail(f"_calc_hash of {sorted(set(maps) - {'SimpleExpression'})} replaces the task name before hashing (not modelled)")
    nm = maps.get("SimpleExpression", [])
    nm_coq = "[" + "; ".join(f"({cq(a)}, {cq(c)})" for a, c in nm) + "]" if nm else "(@nil (bytes * bytes))"
    for k in DEF_FIELD:
        if k not in defs_seen:
            fail(f"no _calc_hash defines a {k}")
    cached = tr_get_hash(classes["Expression"])
    gs = [(c, getstate_table(classes[c])) for c in ("Expression", "TaskExpression", "SimpleExpression", "ValueExpression")]
    ss = [(c, setstate_table(classes[c])) for c in ("Expression", "TaskExpression", "SimpleExpression", "ValueExpression")]
    pending = tr_pending(load("redun/scheduler.py"))
    fixed_fields = tr_all_immutable()

    mods = {"redun/expression.py": mod}
    got = {}
    for key, (path, cls, name) in PINNED.items():
        m = mods.get(path) or mods.setdefault(path, load(path))
        if cls:
            node = None
            for n in find_class(m, cls).body:
                if isinstance(n, (ast.FunctionDef, ast.AsyncFunctionDef)) and n.name == name \
                        and not any(src(d) == "overload" for d in n.decorator_list):
                    node = n
            if node is None:
                fail(f"{cls}.{name} not found")
        else:
            node = module_func(m, name)
        got[key] = pin(node)
    if pins is not None:
        for key, exp in pins.items():
            if got.get(key) != exp:
                fail(f"{key}: shape changed (pin {got.get(key)} != {exp}); the hand-written model of it is no "
                     f"longer known to match")

    def branches(l):
        return "[" + "; ".join(f"({g}, {cq(t)}, [{'; '.join(f)}])" for g, t, f in l) + "]"

    def table(l):
        return "[" + ";\n     ".join(f"({cq(c)}, [" + "; ".join(f"({cq(k)}, {cq(v)})" for k, v in rows) + "])"
                                       for c, rows in l) + "]"

    v = ["(* GENERATED by translate/tr_hash_expr.py from /repo/redun/expression.py, scheduler.py -- do not edit *)",
         "From Coq Require Import String List Ascii.",
         "From RV Require Import Base.Decimal Model.Bencode Model.TaskHash Model.ExprHash.",
         "Import ListNotations.",
         "Definition gen : edescription := {|",
         f"  ed_task := {branches(br['TaskExpression'])};",
         f"  ed_scheduler := {branches(br['SchedulerExpression'])};",
         f"  ed_simple := {branches(br['SimpleExpression'])};",
         f"  ed_simple_name_map := {nm_coq};",
         f"  ed_value := {branches(br['ValueExpression'])};",
         f"  ed_options_hash := {cq(defs_seen['EOptionsHash'])};",
         f"  ed_export_hash := {cq(defs_seen['EExportHash'])};",
         f"  ed_args_hash := {cq(defs_seen['EArgsHash'])};",
         f"  ed_value_hash := {cq(defs_seen['EValueHash'])};",
         f"  ed_get_hash_cached := {'true' if cached else 'false'};",
         f"  ed_getstate :=\n    {table(gs)};",
         f"  ed_setstate :=\n    {table(ss)};",
         f"  ed_pending_key := {cq(pending)};",
         f"  ed_fields_fixed_after_construction := {'true' if fixed_fields else 'false'}",
         "|}.",
         f"(* the theorems of Props/C18.v are about [describe_expr ve []] (operator names hashed verbatim); the source "
         f"is in variant ve={ve}, name map {nm} *)",
         f"Lemma C18_tie : gen = describe_expr {ve} {nm_coq}.",
         "Proof. vm_compute. reflexivity. Qed.", ""]
    return "\n".join(v), got, ve, nm


if __name__ == "__main__":
    text, got, ve, nm = translate()
    sys.stdout.write(text)
    print(json.dumps(got, indent=1), file=sys.stderr)
    print(ve, file=sys.stderr)
