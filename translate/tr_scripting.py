"""Translator for redun/scripting.py and the Staging render methods of redun/file.py
-> coq/Gen/C29Gen.v  (fail closed).

Extracted (becomes the record `gen : script_cfg`, compared with `shipped` by the tie lemma):
  DEFAULT_SHELL; prepare_command's shebang test / rstrip / join; get_command_eof's loop
  constants; get_wrapped_command's template (split at the str.format placeholders); the order
  in which script() adds to command_parts and the joiner; the stdout path; the direction and
  same-path shortcut of Staging{File,Dir}.render_{stage,unstage}.
Pinned by shape (hand-modelled, tied by the correspondence run): script, _script (body),
  postprocess_script, File.stage, File.shell_copy_to, Dir.shell_copy_to,
  LocalFileSystem.shell_copy, StagingFile.__init__, StagingDir.__init__, and
  iter_nested_value / iter_nested_value_children / map_nested_value of redun/utils.py.
"""
from __future__ import annotations

import ast
import copy
import string
import sys

from .astutil import TranslateError, body_nodoc, fail, find_assign, find_class, find_func, load, pin, src

PIN_FUNCS = [
    ("redun/scripting.py", None, "script"),
    ("redun/scripting.py", None, "_script"),
    ("redun/scripting.py", None, "postprocess_script"),
    ("redun/scripting.py", None, "get_task_command"),
    ("redun/scripting.py", None, "exec_script"),
    ("redun/file.py", "File", "stage"),
    ("redun/file.py", "File", "shell_copy_to"),
    ("redun/file.py", "Dir", "shell_copy_to"),
    ("redun/file.py", "Dir", "stage"),
    ("redun/file.py", "LocalFileSystem", "shell_copy"),
    ("redun/file.py", "StagingFile", "__init__"),
    ("redun/file.py", "StagingDir", "__init__"),
    ("redun/utils.py", None, "iter_nested_value"),
]
# of these two only the branches for the containers the model has (list, tuple, dict) and the leaf
# branch are pinned (the dataclass / set / namedtuple branches are outside the model)
CHAIN_PINS = {
    "iter_nested_value_children": ["v0 in (list, tuple, set) or (isinstance(value, tuple) and hasattr(value, '_fields'))",
                                   "v0 is dict"],
    "map_nested_value": ["v0 is list", "v0 is tuple", "v0 is dict"],
}


def chain_pin(fn, keep):
    """pin of: the statements before the if/elif chain, the kept branches (test + body, in order) and the
    final else branch of a function whose body ends with one if/elif/else chain"""
    fn = alpha(fn)
    b = body_nodoc(fn)
    if not b or not isinstance(b[-1], ast.If):
        fail(f"{fn.name}: expected the body to end with an if/elif chain", fn)
    parts = [ast.dump(x, annotate_fields=False) for x in b[:-1]]
    node = b[-1]
    seen = []
    while True:
        t = src(node.test)
        if t in keep:
            seen.append(t)
            parts.append(t + " => " + ";".join(ast.dump(x, annotate_fields=False) for x in node.body))
        if len(node.orelse) == 1 and isinstance(node.orelse[0], ast.If):
            node = node.orelse[0]
            continue
        if not node.orelse:
            fail(f"{fn.name}: the chain has no final else (leaf) branch", fn)
        parts.append("else => " + ";".join(ast.dump(x, annotate_fields=False) for x in node.orelse))
        break
    if seen != keep:
        fail(f"{fn.name}: container branches {seen} (expected {keep})", fn)
    import hashlib
    return hashlib.sha256("\n".join(parts).encode()).hexdigest()[:16]


def alpha(fn):
    """Copy of a function with every locally bound name (assignment / loop / comprehension targets, nested
    function names and their parameters) renamed to v0, v1, ... in order of first appearance; the
    function's own parameters and all free names are kept.  Makes the shape tests insensitive to the
    renaming of locals."""
    fn = copy.deepcopy(fn)
    a = fn.args
    own = {x.arg for x in a.posonlyargs + a.args + a.kwonlyargs}
    own |= {x.arg for x in (a.vararg, a.kwarg) if x}
    bound = []

    def bind(name):
        if name not in own and name not in bound:
            bound.append(name)

    class Collect(ast.NodeVisitor):
        def visit_Name(self, n):
            if isinstance(n.ctx, (ast.Store, ast.Del)):
                bind(n.id)

        def visit_FunctionDef(self, n):
            if n is not fn:
                bind(n.name)
                for x in n.args.posonlyargs + n.args.args + n.args.kwonlyargs:
                    bind(x.arg)
            self.generic_visit(n)

    Collect().visit(fn)
    ren = {n: f"v{i}" for i, n in enumerate(bound)}
    for n in ast.walk(fn):
        if isinstance(n, ast.Name) and n.id in ren:
            n.id = ren[n.id]
        elif isinstance(n, ast.FunctionDef) and n is not fn:
            n.name = ren.get(n.name, n.name)
            for x in n.args.posonlyargs + n.args.args + n.args.kwonlyargs:
                x.arg = ren.get(x.arg, x.arg)
    return fn


def cq_str(s: str) -> str:
    return "[" + ";".join(str(ord(c)) for c in s) + "]%N" if s else "(@nil N)"


def str_const(node, what):
    if not (isinstance(node, ast.Constant) and isinstance(node.value, str)):
        fail(f"{what}: expected a string constant, got {src(node)!r}", node)
    return node.value


def arg_names(fn):
    a = fn.args
    if a.posonlyargs or a.kwonlyargs or a.vararg:
        fail(f"{fn.name}: unexpected parameter kinds", fn)
    return [x.arg for x in a.args], a.defaults, a.kwarg.arg if a.kwarg else None


def imported_from(mod, module, name):
    return any(isinstance(n, ast.ImportFrom) and n.module == module and n.level == 0
               and any(a.name == name and a.asname is None for a in n.names) for n in mod.body)


def no_rebinding(mod, names):
    """the helper names must be bound exactly once at module level (def or import)"""
    for name in names:
        cnt = 0
        for n in mod.body:
            if isinstance(n, (ast.FunctionDef, ast.ClassDef)) and n.name == name:
                cnt += 1
            elif isinstance(n, (ast.Import, ast.ImportFrom)) and any((a.asname or a.name) == name for a in n.names):
                cnt += 1
            elif isinstance(n, (ast.Assign, ast.AnnAssign, ast.AugAssign)):
                tg = n.targets if isinstance(n, ast.Assign) else [n.target]
                if any(isinstance(t, ast.Name) and t.id == name for t in tg):
                    cnt += 1
        if cnt != 1:
            fail(f"module-level name {name} is bound {cnt} times")


# ---------------------------------------------------------------------------
def tr_prepare(mod):
    fn = find_func(mod, "prepare_command")
    names, defaults, kw = arg_names(fn)
    if names != ["command", "default_shell"] or len(defaults) != 1 or src(defaults[0]) != "DEFAULT_SHELL" or kw:
        fail("prepare_command: signature changed", fn)
    if not imported_from(mod, "textwrap", "dedent"):
        fail("`dedent` is not textwrap.dedent")
    b = body_nodoc(fn)
    if len(b) != 3:
        fail("prepare_command: expected 3 statements", fn)
    if src(b[0]) != "command = dedent(command).strip()":
        fail(f"prepare_command: unrecognised first statement {src(b[0])!r}", b[0])
    i = b[1]
    if not (isinstance(i, ast.If) and not i.orelse and len(i.body) == 1 and isinstance(i.test, ast.UnaryOp)
            and isinstance(i.test.op, ast.Not) and isinstance(i.test.operand, ast.Call)
            and src(i.test.operand.func) == "command.startswith" and len(i.test.operand.args) == 1
            and not i.test.operand.keywords):
        fail("prepare_command: expected `if not command.startswith(<const>):`", i)
    sheb = str_const(i.test.operand.args[0], "startswith argument")
    a = i.body[0]
    if not (isinstance(a, ast.Assign) and src(a.targets[0]) == "command" and isinstance(a.value, ast.BinOp)
            and isinstance(a.value.op, ast.Add) and isinstance(a.value.left, ast.BinOp)
            and isinstance(a.value.left.op, ast.Add) and src(a.value.right) == "command"):
        fail("prepare_command: expected `command = default_shell.rstrip(c) + j + command`", a)
    left = a.value.left.left
    if not (isinstance(left, ast.Call) and src(left.func) == "default_shell.rstrip" and len(left.args) == 1
            and not left.keywords):
        fail("prepare_command: expected default_shell.rstrip(<const>)", left)
    rs = str_const(left.args[0], "rstrip argument")
    join = str_const(a.value.left.right, "joiner")
    if src(b[2]) != "return command":
        fail("prepare_command: expected `return command`", b[2])
    dshell = str_const(find_assign(mod, "DEFAULT_SHELL"), "DEFAULT_SHELL")
    return dshell, sheb, rs, join


def tr_eof(mod):
    fn = alpha(find_func(mod, "get_command_eof"))   # locals: v0 = index, v1 = eof, v2 = lines
    names, defaults, kw = arg_names(fn)
    if names != ["command", "eof_prefix"] or len(defaults) != 1 or kw:
        fail("get_command_eof: signature changed", fn)
    prefix = str_const(defaults[0], "eof_prefix default")
    b = body_nodoc(fn)
    if len(b) != 4:
        fail("get_command_eof: expected 4 statements", fn)
    if not (isinstance(b[0], ast.Assign) and src(b[0].targets[0]) == "v0" and isinstance(b[0].value, ast.Constant)
            and type(b[0].value.value) is int and b[0].value.value >= 0):
        fail("get_command_eof: expected `index = <int>`", b[0])
    start = b[0].value.value
    if src(b[1]) != "v1 = eof_prefix":
        fail("get_command_eof: expected `eof = eof_prefix`", b[1])
    s = b[2]
    if not (isinstance(s, ast.Assign) and src(s.targets[0]) == "v2" and isinstance(s.value, ast.Call)
            and src(s.value.func) == "command.split" and len(s.value.args) == 1 and not s.value.keywords):
        fail("get_command_eof: expected `lines = command.split(<const>)`", s)
    sep = str_const(s.value.args[0], "split separator")
    w = b[3]
    if not (isinstance(w, ast.While) and src(w.test) == "True" and not w.orelse and len(w.body) == 1
            and isinstance(w.body[0], ast.If)):
        fail("get_command_eof: expected `while True: if ...`", w)
    i = w.body[0]
    if src(i.test) != "v1 in v2":
        fail(f"get_command_eof: unrecognised test {src(i.test)!r}", i)
    if not (len(i.body) == 2 and isinstance(i.body[0], ast.AugAssign) and src(i.body[0].target) == "v0"
            and isinstance(i.body[0].op, ast.Add) and isinstance(i.body[0].value, ast.Constant)
            and type(i.body[0].value.value) is int and i.body[0].value.value >= 0):
        fail("get_command_eof: expected `index += <int>`", i)
    step = i.body[0].value.value
    if src(i.body[1]) != "v1 = eof_prefix + str(v0)":
        fail("get_command_eof: expected `eof = eof_prefix + str(index)`", i.body[1])
    if not (len(i.orelse) == 1 and src(i.orelse[0]) == "return v1"):
        fail("get_command_eof: expected `else: return eof`", i)
    return prefix, sep, start, step


def tr_wrap(mod):
    fn = alpha(find_func(mod, "get_wrapped_command"))   # local: v0 = wrapped_command
    names, defaults, kw = arg_names(fn)
    if names != ["command", "eof_prefix"] or len(defaults) != 1 or kw:
        fail("get_wrapped_command: signature changed", fn)
    prefix = str_const(defaults[0], "eof_prefix default")
    b = body_nodoc(fn)
    if len(b) != 2 or src(b[1]) != "return v0":
        fail("get_wrapped_command: expected assignment + return", fn)
    a = b[0]
    if not (isinstance(a, ast.Assign) and src(a.targets[0]) == "v0" and isinstance(a.value, ast.Call)
            and isinstance(a.value.func, ast.Attribute) and a.value.func.attr == "format" and not a.value.args):
        fail("get_wrapped_command: expected `wrapped_command = <template>.format(...)`", a)
    template = str_const(a.value.func.value, "wrapper template")
    kws = {k.arg: src(k.value) for k in a.value.keywords}
    if kws != {"command": "command", "eof": "get_command_eof(command, eof_prefix=eof_prefix)"}:
        fail(f"get_wrapped_command: unrecognised format arguments {kws}", a)
    pieces = []
    for lit, field, spec, conv in string.Formatter().parse(template):
        if lit:
            pieces.append(("L", lit))
        if field is None:
            continue
        if field not in ("command", "eof") or spec or conv:
            fail(f"wrapper template: unrecognised replacement field {{{field}!{conv}:{spec}}}")
        pieces.append(("C",) if field == "command" else ("E",))
    return prefix, pieces


V = r"(v\d+)"


def tr_script(mod):
    import re
    fn = alpha(find_func(mod, "script"))
    body = body_nodoc(fn)
    init = [s for s in body if isinstance(s, ast.Assign) and src(s.value) == "[]" and re.fullmatch(V, src(s.targets[0]))]
    if len(init) != 1:
        fail("script: expected exactly one `<parts> = []`", fn)
    P = src(init[0].targets[0])
    fs = [s for s in body if isinstance(s, ast.Assign) and
          re.fullmatch(V + r" = \[" + V + r" for \2 in iter_nested_value\(outputs\) if isinstance\(\2, Staging\)\]", src(s))]
    if len(fs) != 1:
        fail("script: file_stages is not the Staging leaves of outputs", fn)
    FS = src(fs[0].targets[0])
    pats = [
        (re.escape(P) + r"\.append\(shlex\.join\(\['cd', " + V + r"\]\)\)", "PhCd"),
        (re.escape(P) + r"\.extend\(\(" + V + r"\.render_stage\(as_mount\) for \1 in iter_nested_value\(inputs\)\)\)", "PhStageInputs"),
        (re.escape(P) + r"\.append\(get_wrapped_command\(prepare_command\(command\)\)\)", "PhUserCommand"),
        (re.escape(P) + r"\.extend\(\(" + V + r"\.render_unstage\(as_mount\) for \1 in " + re.escape(FS) + r"\)\)", "PhUnstageOutputs"),
    ]
    phases = []
    join = None
    stdout = None
    seen_init = False
    cd_var = None

    def mentions(node):
        return any(isinstance(n, ast.Name) and n.id == P for n in ast.walk(node))

    def visit(stmts, depth):
        nonlocal join, seen_init, stdout, cd_var
        for s in stmts:
            if isinstance(s, ast.If) and src(s.test) == "outputs == NULL":
                if not (len(s.body) == 1 and not s.orelse and isinstance(s.body[0], ast.Assign)
                        and src(s.body[0].targets[0]) == "outputs" and isinstance(s.body[0].value, ast.Call)
                        and src(s.body[0].value.func) == "File" and len(s.body[0].value.args) == 1):
                    fail("script: unrecognised NULL-outputs default", s)
                stdout = str_const(s.body[0].value.args[0], "stdout path")
                continue
            if not mentions(s):
                continue
            if isinstance(s, ast.If) and src(s.test) == "tempdir" and depth == 0:
                visit(s.body, 1)
                if any(mentions(x) for x in s.orelse):
                    fail("script: the parts list is used in the else branch of `if tempdir`", s)
                continue
            t = src(s)
            if s is init[0] and depth == 0 and not seen_init and not phases:
                seen_init = True
                continue
            if seen_init and join is None:
                hit = [(ph, re.fullmatch(pat, t)) for pat, ph in pats if re.fullmatch(pat, t)]
                if hit:
                    ph, m = hit[0]
                    if (ph == "PhCd") != (depth == 1):
                        fail(f"script: {ph} at an unexpected nesting depth", s)
                    if ph == "PhCd":
                        cd_var = m.group(1)
                    phases.append(ph)
                    continue
            m = re.fullmatch(V + r" = (.*)\.join\(" + re.escape(P) + r"\)", t)
            if m and depth == 0 and join is None and isinstance(s, ast.Assign):
                join = str_const(s.value.func.value, "parts joiner")
                continue
            fail(f"script: unrecognised use of the parts list: {t!r}", s)

    visit(body, 0)
    if join is None or stdout is None:
        fail("script: joiner or stdout default not found", fn)
    # the preprocessing of outputs happens before the unstage commands are rendered
    idx = {id(s): i for i, s in enumerate(body)}
    pre = [i for i, s in enumerate(body) if re.fullmatch(r"outputs = map_nested_value\(" + V + r", outputs\)", src(s))]
    if len(pre) != 1 or pre[0] > idx[id(fs[0])]:
        fail("script: outputs are not preprocessed (map_nested_value) before file_stages is computed", fn)
    # postprocess_script must test the same stdout path
    pp = find_func(mod, "postprocess_script")
    consts = [n.value for st in body_nodoc(pp) for n in ast.walk(st)
              if isinstance(n, ast.Constant) and isinstance(n.value, str)]
    if consts != [stdout]:
        fail(f"postprocess_script: string constants {consts} (expected only the stdout path {stdout!r})", pp)
    return phases, join, stdout


def tr_render(fmod, cls, meth):
    fn = find_func(fmod, meth, cls=cls)
    names, defaults, kw = arg_names(fn)
    if names != ["self", "as_mount"]:
        fail(f"{cls}.{meth}: signature changed", fn)
    b = body_nodoc(fn)
    same = False
    if len(b) == 2:
        i = b[0]
        if not (isinstance(i, ast.If) and src(i.test) in ("self.local.path == self.remote.path",
                                                           "self.remote.path == self.local.path")
                and not i.orelse and len(i.body) == 1 and isinstance(i.body[0], ast.Return)
                and isinstance(i.body[0].value, ast.Constant) and i.body[0].value.value == ""):
            fail(f"{cls}.{meth}: unrecognised same-path shortcut", i)
        same = True
        b = b[1:]
    if len(b) != 1 or not isinstance(b[0], ast.Return):
        fail(f"{cls}.{meth}: expected a single return", fn)
    t = src(b[0].value)
    table = {
        "self.remote.shell_copy_to(self.local.path, as_mount=as_mount)": ("Remote", "Local"),
        "self.local.shell_copy_to(self.remote.path, as_mount=as_mount)": ("Local", "Remote"),
    }
    if t not in table:
        fail(f"{cls}.{meth}: unrecognised copy expression {t!r}", b[0])
    return table[t], same


def translate(pins: dict | None = None, sources: dict | None = None):
    sources = sources or {}
    mod = load("redun/scripting.py", sources.get("redun/scripting.py"))
    fmod = load("redun/file.py", sources.get("redun/file.py"))
    umod = load("redun/utils.py", sources.get("redun/utils.py"))
    mods = {"redun/scripting.py": mod, "redun/file.py": fmod, "redun/utils.py": umod}
    no_rebinding(mod, ["prepare_command", "get_command_eof", "get_wrapped_command", "dedent", "DEFAULT_SHELL",
                       "script", "postprocess_script", "iter_nested_value", "map_nested_value", "shlex", "NULL"])
    if not (imported_from(mod, "redun.utils", "iter_nested_value") and imported_from(mod, "redun.utils", "map_nested_value")):
        fail("iter_nested_value / map_nested_value are not redun.utils'")
    if not (imported_from(mod, "redun.file", "File") and imported_from(mod, "redun.file", "Staging")):
        fail("File / Staging are not redun.file's")
    dshell, sheb, rs, pjoin = tr_prepare(mod)
    prefix, sep, start, step = tr_eof(mod)
    prefix2, pieces = tr_wrap(mod)
    if prefix2 != prefix:
        fail(f"eof_prefix defaults differ: {prefix!r} vs {prefix2!r}")
    phases, join, stdout = tr_script(mod)
    stage, unstage = [], []
    for cls, k in (("StagingFile", "KFile"), ("StagingDir", "KDir")):
        d, same = tr_render(fmod, cls, "render_stage")
        stage.append((k, d, same))
        d, same = tr_render(fmod, cls, "render_unstage")
        unstage.append((k, d, same))
    # Staging subclasses must not override the render methods
    for c in fmod.body:
        if isinstance(c, ast.ClassDef) and c.name not in ("Staging", "StagingFile", "StagingDir"):
            bases = [src(x) for x in c.bases]
            if any(x.startswith("Staging") for x in bases):
                for n in c.body:
                    if isinstance(n, ast.FunctionDef) and n.name in ("render_stage", "render_unstage", "__init__"):
                        fail(f"{c.name} overrides {n.name}", n)

    got = {}
    for path, cls, name in PIN_FUNCS:
        got[f"{path.split('/')[-1][:-3]}.{(cls + '.') if cls else ''}{name}"] = pin(alpha(find_func(mods[path], name, cls=cls)))
    for name, keep in CHAIN_PINS.items():
        got[f"utils.{name}[list,tuple,dict,leaf]"] = chain_pin(find_func(umod, name), keep)
    if pins is not None:
        for k, exp in pins.items():
            if k not in got:
                fail(f"pin {k} names an unknown function")
            if got[k] != exp:
                fail(f"{k}: shape changed (pin {got[k]} != {exp}); the hand-written model of it is no longer known to match")
        missing = [k for k in got if k not in pins]
        if missing:
            fail(f"no pin recorded for {missing}")

    def cq_pieces(ps):
        out = []
        for p in ps:
            out.append(f"Lit {cq_str(p[1])}" if p[0] == "L" else ("PhCommand" if p[0] == "C" else "PhEof"))
        return "[" + ";\n     ".join(out) + "]"

    def cq_dir(l):
        return "[" + "; ".join(f"({k}, ({d[0]}, {d[1]}), {'true' if s else 'false'})" for k, d, s in l) + "]"

    v = []
    v.append("(* GENERATED by translate/tr_scripting.py from /repo/redun/scripting.py and /repo/redun/file.py -- do not edit *)")
    v.append("From Coq Require Import List NArith.")
    v.append("From RV Require Import Model.Script.")
    v.append("Import ListNotations.")
    v.append("Definition gen : script_cfg := {|")
    v.append(f"  c_default_shell := {cq_str(dshell)};")
    v.append(f"  c_shebang := {cq_str(sheb)};")
    v.append(f"  c_shell_rstrip := {cq_str(rs)};")
    v.append(f"  c_shell_join := {cq_str(pjoin)};")
    v.append(f"  c_eof_prefix := {cq_str(prefix)};")
    v.append(f"  c_eof_sep := {cq_str(sep)};")
    v.append(f"  c_eof_start := {start}%nat;")
    v.append(f"  c_eof_step := {step}%nat;")
    v.append(f"  c_template := norm_template\n    {cq_pieces(pieces)};")
    v.append(f"  c_parts_join := {cq_str(join)};")
    v.append("  c_phases := [" + "; ".join(phases) + "];")
    v.append(f"  c_stdout_path := {cq_str(stdout)};")
    v.append(f"  c_stage := {cq_dir(stage)};")
    v.append(f"  c_unstage := {cq_dir(unstage)}")
    v.append("|}.")
    v.append("(* The theorems of Props/C29.v are about the constants collected in [shipped]; this is the tie. *)")
    v.append("Lemma C29_tie : gen = shipped.")
    v.append("Proof. vm_compute. reflexivity. Qed.")
    return "\n".join(v) + "\n", got


if __name__ == "__main__":
    text, pins = translate()
    sys.stdout.write(text)
    import json
    print(json.dumps(pins, indent=1), file=sys.stderr)
