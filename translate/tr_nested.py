"""Translator for redun/utils.py (iter_nested_value_children, map_nested_value) -> coq/Gen/C19Gen.v.

Fail closed: every if/elif test and every branch body must be one of a closed set of shapes.
Local variable names inside a branch (loop / comprehension variables, `mapped_value`) are
alpha-normalised, so renaming them is harmless; anything else unrecognised raises TranslateError.
iter_nested_value (the stack loop) and Scheduler.evaluate (the two passes) are hand-modelled in
Model/Nested.v and pinned by shape.
"""
from __future__ import annotations

import ast
import copy
import sys

from .astutil import TranslateError, body_nodoc, fail, find_class, find_func, load, pin, src

BUILTIN_KINDS = {"list": "KList", "tuple": "KTuple", "set": "KSet", "dict": "KDict"}


# ------------------------------------------------------------------ alpha-normalisation
class _Binders(ast.NodeVisitor):
    """Names bound inside a block, in source order (assignment / for / comprehension targets)."""

    def __init__(self):
        self.names = []

    def _bind(self, t):
        if isinstance(t, ast.Name):
            if t.id not in self.names:
                self.names.append(t.id)
        elif isinstance(t, (ast.Tuple, ast.List)):
            for e in t.elts:
                self._bind(e)

    def visit_Assign(self, n):
        for t in n.targets:
            self._bind(t)
        self.generic_visit(n)

    def visit_For(self, n):
        self._bind(n.target)
        self.generic_visit(n)

    def visit_comprehension(self, n):
        self._bind(n.target)
        self.generic_visit(n)

    # comprehension generators are visited after the element expression by generic_visit; the
    # order only has to be deterministic, which it is.


def canon(stmts, keep=()) -> str:
    """Unparse a block with its locally bound names renamed to _b0, _b1, ... (except `keep`)."""
    mod = ast.Module(body=copy.deepcopy(list(stmts)), type_ignores=[])
    b = _Binders()
    b.visit(mod)
    ren = {n: f"_b{i}" for i, n in enumerate(x for x in b.names if x not in keep)}
    for n in ast.walk(mod):
        if isinstance(n, ast.Name) and n.id in ren:
            n.id = ren[n.id]
    return ast.unparse(mod)


def tmpl(text: str, keep=()) -> str:
    return canon(ast.parse(text).body, keep)


# ------------------------------------------------------------------ type tests
def parse_test(node, fn) -> list[str]:
    """An if-test -> list of Coq `ttest` (a disjunction)."""
    if isinstance(node, ast.BoolOp) and isinstance(node.op, ast.Or):
        out = []
        for v in node.values:
            out += parse_test(v, fn)
        return out
    s = src(node)
    if s in ("isinstance(value, tuple) and hasattr(value, '_fields')",):
        return ["TNamedT"]
    if s == "dataclasses.is_dataclass(value_type)":
        return ["TDataT"]
    if isinstance(node, ast.Compare) and len(node.ops) == 1 and src(node.left) == "value_type":
        c = node.comparators[0]
        if isinstance(node.ops[0], ast.Is) and isinstance(c, ast.Name) and c.id in BUILTIN_KINDS:
            return [f"TIs {BUILTIN_KINDS[c.id]}"]
        if isinstance(node.ops[0], ast.In) and isinstance(c, (ast.Tuple, ast.List)) and c.elts \
                and all(isinstance(e, ast.Name) and e.id in BUILTIN_KINDS for e in c.elts):
            return [f"TIs {BUILTIN_KINDS[e.id]}" for e in c.elts]
    fail(f"{fn}: unrecognised type test {s!r}", node)


def chain(fn_node, fn):
    """Function body = `value_type = type(value)` + one if/elif/else chain -> ([(test, body)], else_body)."""
    body = body_nodoc(fn_node)
    if len(body) != 2 or src(body[0]) != "value_type = type(value)" or not isinstance(body[1], ast.If):
        fail(f"{fn}: expected `value_type = type(value)` followed by a single if/elif chain", fn_node)
    cases = []
    node = body[1]
    while True:
        cases.append((node.test, node.body))
        if len(node.orelse) == 1 and isinstance(node.orelse[0], ast.If):
            node = node.orelse[0]
            continue
        return cases, node.orelse


# ------------------------------------------------------------------ iter_nested_value_children
C_ITER = tmpl("for item in value:\n    yield (False, item)")
C_KEYS = tmpl("for key in value.keys():\n    yield (False, key)")
C_VALUES = tmpl("for val in value.values():\n    yield (False, val)")
C_FIELDS = tmpl("for field in dataclasses.fields(value):\n    yield (False, getattr(value, field.name))")
C_LEAF = tmpl("yield (True, value)")


def children_cases(mod):
    fn = find_func(mod, "iter_nested_value_children")
    if [a.arg for a in fn.args.args] != ["value"]:
        fail("iter_nested_value_children: signature changed", fn)
    cases, orelse = chain(fn, "iter_nested_value_children")
    out = []
    for test, body in cases:
        tests = parse_test(test, "iter_nested_value_children")
        c = canon(body)
        if c == C_ITER:
            rule = "CIter"
        elif c == C_FIELDS:
            rule = "CFields"
        elif body and all(canon([s]) in (C_KEYS, C_VALUES) for s in body):
            rule = "(CDictParts [" + "; ".join("DKeys" if canon([s]) == C_KEYS else "DValues" for s in body) + "])"
        else:
            fail(f"iter_nested_value_children: unrecognised branch body {ast.unparse(body)!r}", test)
        out.append((tests, rule))
    if canon(orelse) != C_LEAF:
        fail("iter_nested_value_children: final else must be `yield True, value`", fn)
    return out


# ------------------------------------------------------------------ map_nested_value
M_CALL = "map_nested_value(func, {})"
M_LIST = tmpl(f"return [{M_CALL.format('item')} for item in value]")
M_TUPLE = tmpl(f"return tuple([{M_CALL.format('item')} for item in value])")
M_NAMED = tmpl(f"return value_type(*[{M_CALL.format('item')} for item in value])")
M_SET = tmpl(f"return {{{M_CALL.format('item')} for item in value}}")
M_DICT = {
    (True, True): tmpl(f"return {{{M_CALL.format('key')}: {M_CALL.format('val')} for key, val in value.items()}}"),
    (False, True): tmpl(f"return {{key: {M_CALL.format('val')} for key, val in value.items()}}"),
    (True, False): tmpl(f"return {{{M_CALL.format('key')}: val for key, val in value.items()}}"),
}
M_LEAF = tmpl("return func(value)")

_DC_INIT = ("mapped_value = value_type(**{field.name: map_nested_value(func, getattr(value, field.name)) "
            "for field in dataclasses.fields(value) if field.init})\n")
_DC_SET = {
    "SetAttr": ("for field in dataclasses.fields(value):\n    if not field.init:\n"
                "        setattr(mapped_value, field.name, map_nested_value(func, getattr(value, field.name)))\n"),
    "ObjSetAttr": ("for field in dataclasses.fields(value):\n    if not field.init:\n"
                   "        object.__setattr__(mapped_value, field.name, "
                   "map_nested_value(func, getattr(value, field.name)))\n"),
}
_DC_COPY = {
    "Unguarded": ("for key in set(value.__dict__.keys()) - set(mapped_value.__dict__.keys()):\n"
                  "    mapped_value.__dict__[key] = value.__dict__[key]\n"),
    "Guarded": ("if hasattr(value, '__dict__'):\n"
                "    for key in set(value.__dict__.keys()) - set(mapped_value.__dict__.keys()):\n"
                "        mapped_value.__dict__[key] = value.__dict__[key]\n"),
}
M_DATA = {(s, d): tmpl(_DC_INIT + _DC_SET[s] + _DC_COPY[d] + "return mapped_value")
          for s in _DC_SET for d in _DC_COPY}


def map_cases(mod):
    fn = find_func(mod, "map_nested_value")
    if [a.arg for a in fn.args.args] != ["func", "value"]:
        fail("map_nested_value: signature changed", fn)
    cases, orelse = chain(fn, "map_nested_value")
    out = []
    variant = None
    for test, body in cases:
        tests = parse_test(test, "map_nested_value")
        c = canon(body)
        rule = None
        if c == M_LIST:
            rule = "MList"
        elif c == M_TUPLE:
            rule = "MTuple"
        elif c == M_NAMED:
            rule = "MNamed"
        elif c == M_SET:
            rule = "MSet"
        else:
            for (mk, mv), t in M_DICT.items():
                if c == t:
                    rule = f"(MDict {'true' if mk else 'false'} {'true' if mv else 'false'})"
            for sd, t in M_DATA.items():
                if c == t:
                    if variant is not None and variant != sd:
                        fail("map_nested_value: two different dataclass branches", test)
                    variant = sd
                    rule = "MData"
        if rule is None:
            fail(f"map_nested_value: unrecognised branch body {ast.unparse(body)!r}", test)
        out.append((tests, rule))
    if canon(orelse) != M_LEAF:
        fail("map_nested_value: final else must be `return func(value)`", fn)
    return out, variant


# ------------------------------------------------------------------ pins
def current_pins():
    mod = load("redun/utils.py")
    sch = load("redun/scheduler.py")
    cls = find_class(sch, "Scheduler")
    ev = None
    for n in cls.body:
        if isinstance(n, ast.FunctionDef) and n.name == "evaluate":
            ev = n
    if ev is None:
        fail("Scheduler.evaluate not found")
    return {"utils.iter_nested_value": pin(find_func(mod, "iter_nested_value")),
            "scheduler.Scheduler.evaluate": pin(ev)}


def check_imports(mod):
    ok = any(isinstance(n, ast.Import) and any(a.name == "dataclasses" and a.asname is None for a in n.names)
             for n in mod.body)
    if not ok:
        fail("redun/utils.py: `import dataclasses` not found (the name `dataclasses` must be the stdlib module)")
    for n in mod.body:
        if isinstance(n, (ast.FunctionDef, ast.ClassDef)) and n.name in ("list", "tuple", "set", "dict", "type",
                                                                          "isinstance", "hasattr", "getattr", "setattr"):
            fail(f"redun/utils.py shadows builtin {n.name}", n)


def translate(source: str | None = None, pins: dict | None = None):
    mod = load("redun/utils.py", source)
    check_imports(mod)
    icases = children_cases(mod)
    mcases, variant = map_cases(mod)
    if variant is None:
        # no dataclass branch: the setter / dictcopy fields are irrelevant; emit the shipped ones
        variant = ("SetAttr", "Unguarded")
    got = current_pins() if source is None else {}
    if pins is not None:
        for name, exp in pins.items():
            if got.get(name) != exp:
                fail(f"{name}: shape changed (pin {got.get(name)} != {exp}); the hand-written model of it "
                     f"(Model/Nested.v) is no longer known to match")

    def cases(cs):
        return "[" + ";\n   ".join("([" + "; ".join(ts) + "], " + r + ")" for ts, r in cs) + "]"

    s, d = variant
    v = []
    v.append("(* GENERATED by translate/tr_nested.py from /repo/redun/utils.py -- do not edit *)")
    v.append("From Coq Require Import List ZArith Bool.")
    v.append("From RV Require Import Model.Nested.")
    v.append("Import ListNotations.")
    v.append("Definition gen_iter_cases : list (list ttest * crule) :=\n  " + cases(icases) + ".")
    v.append("Definition gen_map_cases : list (list ttest * mrule) :=\n  " + cases(mcases) + ".")
    v.append("Definition gen : cfg := {| iter_tab := normalize gen_iter_cases; map_tab := normalize gen_map_cases;")
    v.append(f"                           dc_setter := {s}; dc_dictcopy := {d} |}}.")
    t = []
    t.append("(* GENERATED by translate/tr_nested.py from /repo/redun/utils.py -- do not edit *)")
    t.append("From Coq Require Import List ZArith Bool.")
    t.append("From RV Require Import Model.Nested Proofs.NestedSpec Props.C19 Gen.C19Gen.")
    t.append("Import ListNotations.")
    t.append("(* The theorems of Props/C19.v are about [cfg_of s d]; this is the tie (first-match")
    t.append("   normal form of the two if/elif chains, so reordering independent tests is harmless). *)")
    t.append(f"Lemma C19_tie : gen = cfg_of {s} {d}.")
    t.append("Proof. vm_compute. reflexivity. Qed.")
    t.append("(* the property theorems, re-checked for the configuration the code has now *)")
    t.append("Theorem C19_gen_iter : forall A (v : val A) fuel, pops v <= fuel ->")
    t.append("  iter_nested A gen fuel v = IDone (rev (leaves v)).")
    t.append("Proof. rewrite C19_tie. intros. now apply C19_iter_yields_leaves. Qed.")
    t.append("Theorem C19_gen_map : forall A leq lhash (f : A -> val A) (v : val A),")
    t.append(f"  collision_free leq lhash f v = true -> dc_ok {s} {d} v = true ->")
    t.append("  map_v A leq lhash gen f v = (visit_order v, Ok (subst f v)).")
    t.append("Proof. rewrite C19_tie. intros. now apply C19_map_rebuilds_any. Qed.")
    if (s, d) == ("ObjSetAttr", "Guarded"):
        t.append("Theorem C19_gen_map_total : forall A leq lhash (f : A -> val A) (v : val A),")
        t.append("  collision_free leq lhash f v = true -> map_v A leq lhash gen f v = (visit_order v, Ok (subst f v)).")
        t.append("Proof. rewrite C19_tie. intros. now apply C19_map_rebuilds_fixed. Qed.")
    return ("\n".join(v) + "\n", "\n".join(t) + "\n",
            {"variant": variant, "pins": got, "iter_cases": icases, "map_cases": mcases})


if __name__ == "__main__":
    text, tie, info = translate()
    sys.stdout.write(text + tie)
    print(info, file=sys.stderr)
