"""Translator for redun/bcoding.py -> coq/Gen/C14Gen.v  (fail closed)."""
from __future__ import annotations

import ast
import string
import sys

from .astutil import (TranslateError, body_nodoc, expect_pin, fail, find_assign, find_func, is_call, load,
                      pin, src)

CLASS_TESTS = {
    "isinstance(data, int) and (not isinstance(data, bool))": "CIntNotBool",
    "isinstance(data, (str, bytes))": "CStrOrBytes",
    "isinstance(data, Mapping)": "CMapping",
    "isinstance(data, Iterable)": "CIterable",
}
ACTIONS = {"_encode_int": "AInt", "_encode_buffer": "ABuffer", "_encode_mapping": "AMapping",
           "_encode_iterable": "AIterable"}

# shapes of glue / decoder functions whose behaviour is hand-modelled in Model/Bencode.v and tied
# by the correspondence run; a change of shape fails closed.
PINS = {
    "bencode": None, "bdecode": None, "_readuntil": None, "_decode_int": None, "_decode_buffer": None,
    "_decode_list": None, "_decode_dict": None, "assert_btype": None,
}


def byte_const(mod, name):
    v = find_assign(mod, name)
    if not (isinstance(v, ast.Constant) and isinstance(v.value, bytes) and len(v.value) == 1):
        fail(f"{name} is not a single-byte constant", v)
    return v.value


def writes(stmts, fn):
    """Each statement must be `f.write(<expr>)`; return the list of expr sources."""
    out = []
    for s in stmts:
        if not (isinstance(s, ast.Expr) and is_call(s.value, "f.write", 1)):
            fail(f"{fn}: unexpected statement {src(s)!r}", s)
        out.append(src(s.value.args[0]))
    return out


def translate(source: str | None = None, pins: dict | None = None):
    mod = load("redun/bcoding.py", source)
    consts = {n: byte_const(mod, n) for n in ("_TYPE_INT", "_TYPE_LIST", "_TYPE_DICT", "_TYPE_END", "_TYPE_SEP")}
    ts = find_assign(mod, "_TYPES_STR")
    if src(ts) != "[d.encode() for d in digits]":
        fail("_TYPES_STR has an unexpected definition", ts)
    # the name `digits` must be string.digits
    ok = any(isinstance(n, ast.ImportFrom) and n.module == "string" and any(a.name == "digits" and a.asname is None for a in n.names)
             for n in mod.body)
    if not ok:
        fail("`digits` is not imported from string")

    # --- dispatch ---------------------------------------------------------
    fn = find_func(mod, "_bencode_to_file")
    if [a.arg for a in fn.args.args] != ["data", "f"]:
        fail("_bencode_to_file signature changed", fn)
    body = body_nodoc(fn)
    if len(body) != 1 or not isinstance(body[0], ast.If):
        fail("_bencode_to_file: expected a single if/elif chain", fn)
    dispatch = []
    node = body[0]
    while True:
        test = src(node.test)
        if test not in CLASS_TESTS:
            fail(f"_bencode_to_file: unrecognised test {test!r}", node)
        if len(node.body) != 1 or not isinstance(node.body[0], ast.Expr) or not isinstance(node.body[0].value, ast.Call):
            fail("_bencode_to_file: unrecognised branch body", node)
        call = node.body[0].value
        if src(call.func) not in ACTIONS or [src(a) for a in call.args] != ["data", "f"] or call.keywords:
            fail(f"_bencode_to_file: unrecognised action {src(call)!r}", call)
        dispatch.append((CLASS_TESTS[test], ACTIONS[src(call.func)]))
        if len(node.orelse) == 1 and isinstance(node.orelse[0], ast.If):
            node = node.orelse[0]
            continue
        if not (len(node.orelse) == 1 and isinstance(node.orelse[0], ast.Raise)
                and src(node.orelse[0].exc).startswith("TypeError(")):
            fail("_bencode_to_file: final else must raise TypeError", node)
        break

    # --- _encode_int -----------------------------------------------------------
    fn = find_func(mod, "_encode_int")
    w = writes(body_nodoc(fn), "_encode_int")
    m = {"_TYPE_INT": 0, "str(integer).encode()": 1, "_TYPE_END": 2}
    if any(x not in m for x in w):
        fail(f"_encode_int: unrecognised writes {w}", fn)
    int_layout = [m[x] for x in w]

    # --- _encode_buffer --------------------------------------------------------
    fn = find_func(mod, "_encode_buffer")
    b = body_nodoc(fn)
    if not (b and isinstance(b[0], ast.If) and src(b[0].test) == "isinstance(string, str)"
            and len(b[0].body) == 1 and src(b[0].body[0]) == "string = string.encode()" and not b[0].orelse):
        fail("_encode_buffer: expected `if isinstance(string, str): string = string.encode()` first", fn)
    w = writes(b[1:], "_encode_buffer")
    m = {"str(len(string)).encode()": 0, "_TYPE_SEP": 1, "string": 2}
    if any(x not in m for x in w):
        fail(f"_encode_buffer: unrecognised writes {w}", fn)
    buffer_layout = [m[x] for x in w]

    # --- _encode_iterable ------------------------------------------------------
    fn = find_func(mod, "_encode_iterable")
    b = body_nodoc(fn)
    if not (len(b) == 3 and src(b[0]) == "f.write(_TYPE_LIST)" and src(b[2]) == "f.write(_TYPE_END)"
            and isinstance(b[1], ast.For) and src(b[1].target) == "item" and src(b[1].iter) == "iterable"
            and len(b[1].body) == 1 and src(b[1].body[0]) == "bencode(item, f)" and not b[1].orelse):
        fail("_encode_iterable: unexpected shape", fn)

    # --- _encode_mapping -------------------------------------------------------
    fn = find_func(mod, "_encode_mapping")
    b = body_nodoc(fn)
    if not (len(b) == 3 and src(b[0]) == "f.write(_TYPE_DICT)" and src(b[2]) == "f.write(_TYPE_END)"
            and isinstance(b[1], ast.For) and src(b[1].target) == "(key, value)" and not b[1].orelse
            and [src(s) for s in b[1].body] == ["_encode_buffer(key, f)", "bencode(value, f)"]):
        fail("_encode_mapping: unexpected shape", fn)
    it = src(b[1].iter)
    if it == "sorted(mapping.items())":
        mapping_sorted = True
    elif it == "mapping.items()":
        mapping_sorted = False
    else:
        fail(f"_encode_mapping: unrecognised iteration {it!r}", b[1])

    # --- decoder table -----------------------------------------------------------
    types = find_assign(mod, "TYPES")
    if not isinstance(types, ast.Dict):
        fail("TYPES is not a dict literal", types)
    decs = {"_decode_int": 0, "_decode_list": 1, "_decode_dict": 2, "None": 3, "_decode_buffer": 4}
    table = []
    for k, v in zip(types.keys, types.values):
        if src(k) not in consts or src(v) not in decs:
            fail(f"TYPES: unrecognised entry {src(k)}: {src(v)}", k)
        table.append((consts[src(k)], decs[src(v)]))
    upd = [n for n in mod.body if isinstance(n, ast.Expr) and is_call(n.value, "TYPES.update")]
    if len(upd) != 1 or src(upd[0].value.args[0]) != "{byte: _decode_buffer for byte in _TYPES_STR}":
        fail("TYPES.update(...) for digit bytes not recognised")
    table += [(d.encode(), 4) for d in string.digits]
    # any other statement mutating TYPES?
    for n in ast.walk(mod):
        if isinstance(n, ast.Subscript) and src(n.value) == "TYPES" and isinstance(n.ctx, (ast.Store, ast.Del)):
            fail("TYPES is mutated elsewhere", n)

    got_pins = {name: pin(find_func(mod, name)) for name in PINS}
    if pins is not None:
        for name, exp in pins.items():
            if got_pins[name] != exp:
                fail(f"{name}: shape changed (pin {got_pins[name]} != {exp}); the hand-written decoder/glue model "
                     f"is no longer known to match")

    def ch(b):  # Coq ascii from a byte
        return f"(Ascii.ascii_of_N {b[0]})"

    v = []
    v.append("(* GENERATED by translate/tr_bcoding.py from /repo/redun/bcoding.py -- do not edit *)")
    v.append("From Coq Require Import List NArith Ascii.")
    v.append("From RV Require Import Model.Bencode.")
    v.append("Import ListNotations.")
    v.append("Definition gen : bencode_cfg := {|")
    v.append(f"  ty_int := {ch(consts['_TYPE_INT'])}; ty_list := {ch(consts['_TYPE_LIST'])}; "
             f"ty_dict := {ch(consts['_TYPE_DICT'])}; ty_end := {ch(consts['_TYPE_END'])}; ty_sep := {ch(consts['_TYPE_SEP'])};")
    v.append("  dispatch := [" + "; ".join(f"({c}, {a})" for c, a in dispatch) + "];")
    v.append(f"  mapping_sorted := {'true' if mapping_sorted else 'false'};")
    v.append("  int_layout := [" + ";".join(map(str, int_layout)) + "]%nat;")
    v.append("  buffer_layout := [" + ";".join(map(str, buffer_layout)) + "]%nat;")
    v.append("  decode_table := [" + "; ".join(f"({ch(k)}, {d}%nat)" for k, d in table) + "]")
    v.append("|}.")
    v.append("(* The theorems of Props/C14.v are about [shipped]; this is the tie. *)")
    v.append("Lemma C14_tie : gen = shipped.")
    v.append("Proof. vm_compute. reflexivity. Qed.")
    return "\n".join(v) + "\n", got_pins


if __name__ == "__main__":
    text, pins = translate()
    sys.stdout.write(text)
    print(pins, file=sys.stderr)
