"""Translator for the tag history code (C24) -> coq/Gen/C24Gen.v  (fail closed).

Extracted structurally (and tied to the model by reflexivity):
  * redun/cli.py  tag_add_command / tag_update_command / tag_rm_command: which backend method
    each command calls inside its `for entity_id in entity_ids:` loop, with which positional
    arguments and which constant keyword flags (new / update);
  * redun/hashing.py  hash_tag: the fields that make up a tag's identity and their order;
  * redun/backends/db/__init__.py  class Tag: the column default of is_current;
    Tag.get_delete_tag: the constant (entity_id, key, value) of the delete marker;
    delete_tags: the value comparison of the pair conditions (-> cfg.null_match);
    record_tags: presence of the repeated-pair filter and of the already-current filter
    (-> cfg.dedupe, cfg.skip_current), recognised as one of two pinned shapes.
Hand-modelled and pinned by shape (compared with the real code by the correspondence run):
  record_tags, delete_tags, get_tags, Tag.get_delete_tag, JSON (column type), the three CLI
  commands, parse_tag_key_value.  Any other shape -> TranslateError.
"""
from __future__ import annotations

import ast
import json
import sys
from pathlib import Path

from .astutil import TranslateError, body_nodoc, fail, find_class, find_func, load, pin, src

PINS_FILE = Path(__file__).resolve().parent / "pins_C24.json"
DB = "redun/backends/db/__init__.py"


def _loop_call(fn, method):
    """The single `backend.<method>(...)` call in the `for entity_id in entity_ids:` loop of a command."""
    loops = [n for n in body_nodoc(fn) if isinstance(n, ast.For)]
    if len(loops) != 1 or src(loops[0].target) != "entity_id" or src(loops[0].iter) != "entity_ids":
        fail(f"{fn.name}: expected exactly one `for entity_id in entity_ids` loop", fn)
    calls = [n for n in ast.walk(loops[0]) if isinstance(n, ast.Call) and isinstance(n.func, ast.Attribute)
             and src(n.func.value) == "backend"]
    if len(calls) != 1:
        fail(f"{fn.name}: expected exactly one backend call in the loop, found {[src(c.func) for c in calls]}", fn)
    c = calls[0]
    if c.func.attr != method:
        fail(f"{fn.name}: calls backend.{c.func.attr}, expected backend.{method}", c)
    # no other backend use in the function
    others = [n for n in ast.walk(fn) if isinstance(n, ast.Attribute) and src(n.value) == "backend" and n is not c.func]
    if others:
        fail(f"{fn.name}: further uses of backend: {[src(o) for o in others]}", fn)
    kws = {}
    for k in c.keywords:
        if k.arg is None or not (isinstance(k.value, ast.Constant) and isinstance(k.value.value, bool)):
            fail(f"{fn.name}: keyword {src(k.value)!r} is not a boolean constant", c)
        kws[k.arg] = k.value.value
    return [src(a) for a in c.args], kws


def _flag(kws, name):
    return bool(kws.get(name, False))


def translate(pins=None):
    pins = pins if pins is not None else json.loads(PINS_FILE.read_text())
    notes = []

    # ---------------------------------------------------------------- cli.py
    cli = load("redun/cli.py")
    cmds = {}
    for name, method in (("tag_add_command", "record_tags"), ("tag_update_command", "record_tags"),
                         ("tag_rm_command", "delete_tags")):
        fn = find_func(cli, name, cls="RedunClient")
        args, kws = _loop_call(fn, method)
        cmds[name] = (args, kws)
        got = pin(fn)
        if got != pins["cli." + name]:
            fail(f"cli.{name}: shape changed (pin {got}, expected {pins['cli.' + name]})", fn)
    for name in ("tag_add_command", "tag_update_command"):
        args, kws = cmds[name]
        if args != ["entity_type", "full_id", "key_values"] or set(kws) - {"new", "update"}:
            fail(f"{name}: unexpected arguments {args} {kws}")
    if cmds["tag_rm_command"] != (["full_id", "key_values", "keys"], {}):
        fail(f"tag_rm_command: unexpected arguments {cmds['tag_rm_command']}")
    cli_flags = (_flag(cmds["tag_add_command"][1], "update"), _flag(cmds["tag_add_command"][1], "new"),
                 _flag(cmds["tag_update_command"][1], "update"), _flag(cmds["tag_update_command"][1], "new"))

    tags_mod = load("redun/tags.py")
    fn = find_func(tags_mod, "parse_tag_key_value")
    if pin(fn) != pins["tags.parse_tag_key_value"]:
        fail(f"tags.parse_tag_key_value: shape changed (pin {pin(fn)})", fn)

    # ---------------------------------------------------------------- hashing.hash_tag
    hm = load("redun/hashing.py")
    fn = find_func(hm, "hash_tag")
    params = [a.arg for a in fn.args.args]
    body = body_nodoc(fn)
    if len(body) != 1 or not isinstance(body[0], ast.Return) or not isinstance(body[0].value, ast.Call) \
            or src(body[0].value.func) != "hash_struct" or len(body[0].value.args) != 1 \
            or not isinstance(body[0].value.args[0], ast.List):
        fail("hash_tag: expected `return hash_struct([...])`", fn)
    fields = []
    for e in body[0].value.args[0].elts:
        if isinstance(e, ast.Constant) and isinstance(e.value, str):
            fields.append("'" + e.value + "'")
        elif isinstance(e, ast.Name) and e.id in params:
            fields.append(e.id)
        elif isinstance(e, ast.Call) and src(e.func) == "json_dumps" and len(e.args) == 1 and not e.keywords \
                and isinstance(e.args[0], ast.Name) and e.args[0].id in params:
            fields.append(f"json_dumps({e.args[0].id})")
        else:
            fail(f"hash_tag: unrecognised field {src(e)!r}", e)
    if params != ["entity_id", "key", "value", "parents"]:
        fail(f"hash_tag: parameters {params}", fn)

    # ---------------------------------------------------------------- backends/db
    db = load(DB)
    tag_cls = find_class(db, "Tag")
    default_current = None
    for n in tag_cls.body:
        if isinstance(n, ast.Assign) and len(n.targets) == 1 and src(n.targets[0]) == "is_current":
            c = n.value
            if not (isinstance(c, ast.Call) and src(c.func) == "Column" and [src(a) for a in c.args] == ["Boolean"]):
                fail("Tag.is_current: expected Column(Boolean, default=...)", n)
            kw = {k.arg: k.value for k in c.keywords}
            if set(kw) != {"default"} or not (isinstance(kw["default"], ast.Constant) and isinstance(kw["default"].value, bool)):
                fail("Tag.is_current: expected exactly a boolean `default`", n)
            default_current = kw["default"].value
    if default_current is None:
        fail("Tag.is_current column not found", tag_cls)
    gd = find_func(db, "get_delete_tag", cls="Tag")
    gb = body_nodoc(gd)
    if len(gb) != 1 or not isinstance(gb[0], ast.Return) or not isinstance(gb[0].value, ast.Call) or src(gb[0].value.func) != "Tag":
        fail("get_delete_tag: expected `return Tag(...)`", gd)
    dk = {k.arg: k.value for k in gb[0].value.keywords}
    for f, want in (("entity_id", ""), ("key", ""), ("value", None)):
        if f not in dk or not isinstance(dk[f], ast.Constant) or dk[f].value != want or type(dk[f].value) is not type(want):
            fail(f"get_delete_tag: field {f} is not the constant {want!r}", gd)
    if src(dk.get("entity_type", ast.Constant(0))) != "TagEntity.Null":
        fail("get_delete_tag: entity_type is not TagEntity.Null", gd)

    def variant(qual, fn):
        got = pin(fn)
        for name, p in pins[qual].items():
            if got == p:
                return name
        fail(f"{qual}: shape {got} is none of the recognised variants {pins[qual]}; "
             f"the hand-written model may no longer match", fn)

    rt = find_func(db, "record_tags", cls="RedunBackendDb")
    dt = find_func(db, "delete_tags", cls="RedunBackendDb")
    v_rt = variant("db.record_tags", rt)
    v_dt = variant("db.delete_tags", dt)
    # structural cross-checks of what the variant names claim
    RT_FLAGS = {"shipped": (False, False), "deduped": (True, False), "deduped+skip": (True, True), "fixed": (True, True),
                # as deduped+skip, with the final `self.session.commit()` made unconditional (fix d72150f; the model
                # does not distinguish an empty commit from none)
                "deduped+skip+always-commit": (True, True)}
    if v_rt not in RT_FLAGS:
        fail(f"record_tags: variant {v_rt!r} has no configuration", rt)
    top = body_nodoc(rt)
    if_new = [i for i, n in enumerate(top) if isinstance(n, ast.If) and src(n.test) == "new"]
    if len(if_new) != 1:
        fail("record_tags: expected exactly one top-level `if new:`", rt)
    before = [src(n) for n in top[:if_new[0]] if isinstance(n, ast.Assign)]
    dedupe_by_hash = "tag_rows = list({tag_row.tag_hash: tag_row for tag_row in tag_rows}.values())" in before
    dedupe_by_pair = "tags = unique_tags" in before and "seen_pairs = set()" in before
    has_dedupe = dedupe_by_hash or dedupe_by_pair
    first_in_new = top[if_new[0]].body[0]
    has_skip = isinstance(first_in_new, ast.Assign) and src(first_in_new.targets[0]) == "current_pairs"
    if RT_FLAGS[v_rt] != (has_dedupe, has_skip):
        fail(f"record_tags: variant pin {v_rt!r} and structural markers (dedupe={has_dedupe}, skip={has_skip}) disagree", rt)
    conds = [n for n in ast.walk(dt) if isinstance(n, ast.Compare) and src(n.left) == "Tag.value"]
    if len(conds) != 1 or len(conds[0].ops) != 1 or not isinstance(conds[0].ops[0], ast.Eq):
        fail("delete_tags: expected exactly one `Tag.value == ...` comparison", dt)
    rhs = src(conds[0].comparators[0])
    if rhs == "sa_cast(value, JSON)":
        null_match = False      # None is rendered CAST(NULL AS ...): never equal
    elif rhs == "sa_cast(sa.literal(value, JSON), JSON)":
        null_match = True       # bound through the JSON type: 'null'
    else:
        fail(f"delete_tags: unrecognised value comparison {rhs!r}", conds[0])
    if (v_dt == "fixed") != null_match:
        fail("delete_tags: variant pin and comparison shape disagree", dt)
    for qual, fn in (("db.get_tags", find_func(db, "get_tags", cls="RedunBackendDb")),
                     ("db.JSON", find_class(db, "JSON")),
                     ("db.Tag.get_delete_tag", gd)):
        if pin(fn) != pins[qual]:
            fail(f"{qual}: shape changed (pin {pin(fn)}, expected {pins[qual]})", fn)

    b = lambda x: "true" if x else "false"
    cfg = dict(dedupe=has_dedupe, skip_current=has_skip, null_match=null_match)
    out = []
    out.append("(* GENERATED by translate/tr_tagdb.py from redun/cli.py, redun/hashing.py, redun/tags.py,\n"
               "   redun/backends/db/__init__.py -- do not edit. *)\n")
    out.append("From Coq Require Import String List Bool.\nFrom RV Require Import Model.Tags Proofs.TagsInv Proofs.TagsSweep Props.C24.\n"
               "Import ListNotations.\nOpen Scope list_scope.\n\n")
    out.append(f"(* record_tags: {v_rt}; delete_tags: {v_dt} *)\n")
    out.append(f"Definition gen_cfg : cfg := mkCfg {b(cfg['dedupe'])} {b(cfg['skip_current'])} {b(cfg['null_match'])}.\n")
    out.append("(* (add: update, new, update: update, new) keyword flags of the record_tags calls in cli.py *)\n")
    out.append("Definition gen_cli : bool * bool * bool * bool := (%s, %s, %s, %s).\n" % tuple(b(x) for x in cli_flags))
    out.append("Definition gen_hash_fields : list string := [" + "; ".join('"' + f + '"%string' for f in fields) + "].\n")
    out.append(f"Definition gen_default_current : bool := {b(default_current)}.\n\n")
    out.append("Lemma C24_tie_cli : gen_cli = cli_model.\nProof. reflexivity. Qed.\n")
    out.append("Lemma C24_tie_hash : gen_hash_fields = hash_fields_model.\nProof. reflexivity. Qed.\n")
    out.append("Lemma C24_tie_default : gen_default_current = default_current_model.\nProof. reflexivity. Qed.\n")
    out.append("(* one of the configurations that a recognised shape of record_tags / delete_tags can give *)\n"
               "Lemma C24_tie_cfg : In gen_cfg [shipped; deduped; fixed; mkCfg false false true;\n"
               "  mkCfg true false true; mkCfg true true false].\n"
               "Proof. vm_compute; tauto. Qed.\n\n")
    out.append("(* the theorems, re-checked for the configuration the code has now *)\n")
    out.append("Lemma C24_gen_acyclic : forall ops s, run gen_cfg init ops = Some s -> acyclic s.\n"
               "Proof. exact (C24_edit_graph_acyclic gen_cfg). Qed.\n")
    out.append("Lemma C24_gen_terminates : forall ops, exists s, run gen_cfg init ops = Some s.\n"
               "Proof. exact (C24_walk_terminates gen_cfg). Qed.\n")
    out.append("Lemma C24_gen_superseded : forall ops s, run gen_cfg init ops = Some s ->\n"
               "  forall i r, nth_error (rows s) i = Some r -> (r_cur r = false <-> superseded s i = true).\n"
               "Proof. intros ops s H. exact (proj2 (C24_current_iff_not_superseded gen_cfg ops s H)). Qed.\n")
    out.append("(* the refinement to the key-value model, for the configuration the code has now *)\n")
    out.append("Lemma C24_gen_refines : forall ops s, ok_for gen_cfg ops -> run gen_cfg init ops = Some s ->\n"
               "  (forall e k v, In (k, v) (cur_pairs s e) <-> spec_has (spec_run ops) e k v = true) /\\\n"
               "  ~ In 1 (run_log gen_cfg init ops).\n"
               "Proof. exact (C24_refines_set gen_cfg). Qed.\n")
    if cfg["dedupe"]:
        out.append("(* a command may name one pair twice *)\n"
                   "Lemma C24_gen_same_pair_twice : forall ops e k v, ok_for gen_cfg ops ->\n"
                   "  exists s, run gen_cfg init (ops ++ [TAdd e [(k, v); (k, v)]]) = Some s /\\\n"
                   "    In (k, v) (cur_pairs s e) /\\ ~ In 1 (run_log gen_cfg init (ops ++ [TAdd e [(k, v); (k, v)]])).\n"
                   "Proof. exact (C24_same_pair_twice_deduped gen_cfg eq_refl). Qed.\n")
    if all(cfg.values()):
        out.append("Lemma C24_gen_ok_for_all : forall ops, ok_for gen_cfg ops.\nProof. exact fixed_ok_for_all. Qed.\n")
        out.append("Lemma C24_gen_nodup : forall ops, in_scope ops ->\n"
                   "  exists s, run gen_cfg init ops = Some s /\\ forall e, In e sw_ents -> NoDup (cur_pairs s e).\n"
                   "Proof. exact C24_listing_nodup_fixed_bounded. Qed.\n")
    notes.append(f"record_tags={v_rt} delete_tags={v_dt} cli_flags={cli_flags} hash_fields={fields}")
    return "".join(out), dict(cfg=cfg, variant_record_tags=v_rt, variant_delete_tags=v_dt, cli=cli_flags,
                              fields=fields, default_current=default_current, notes=notes)


def current_pins(repo_src=None):
    """Compute the pins of the current tree (used once to create pins_C24.json)."""
    cli = load("redun/cli.py")
    db = load(DB)
    tg = load("redun/tags.py")
    return {
        "cli.tag_add_command": pin(find_func(cli, "tag_add_command", cls="RedunClient")),
        "cli.tag_update_command": pin(find_func(cli, "tag_update_command", cls="RedunClient")),
        "cli.tag_rm_command": pin(find_func(cli, "tag_rm_command", cls="RedunClient")),
        "tags.parse_tag_key_value": pin(find_func(tg, "parse_tag_key_value")),
        "db.record_tags": pin(find_func(db, "record_tags", cls="RedunBackendDb")),
        "db.delete_tags": pin(find_func(db, "delete_tags", cls="RedunBackendDb")),
        "db.get_tags": pin(find_func(db, "get_tags", cls="RedunBackendDb")),
        "db.JSON": pin(find_class(db, "JSON")),
        "db.Tag.get_delete_tag": pin(find_func(db, "get_delete_tag", cls="Tag")),
    }


if __name__ == "__main__":
    if len(sys.argv) > 1 and sys.argv[1] == "--pins":
        print(json.dumps(current_pins(), indent=1))
    else:
        text, info = translate()
        sys.stdout.write(text)
