"""Translator for task hashing (C17) -> coq/Gen/C17Gen.v  (fail closed).

Extracted statement by statement (tie: `gen = describe vt vf`, Model/TaskHash.v):
  redun/utils.py  get_func_source     -> the def-line pattern           -> d_trim (AsShipped | Fixed)
  redun/task.py   Task._calc_hash     -> compat pin, guards, the two hash_struct layouts
                  Task._format_fullname -> separator
                  Task.__init__       -> recompute_hash() before _validate()
                  Task.options / Task.export_options -> the kwargs forwarded to self.__class__(...)
                  PartialTask._calc_hash -> layout
                  PartialTask.__init__   -> kwargs passed to Task.__init__
                  wraps_task          -> hash_includes=wrapper_hash_includes + [hidden_inner_task]
Pinned by shape (hand-modelled, tied by the correspondence run): see PINNED.
"""
from __future__ import annotations

import ast
import copy
import json
import sys
from pathlib import Path

from .astutil import TranslateError, body_nodoc, fail, find_class, find_func, is_call, load, pin, src

PINS_FILE = Path(__file__).resolve().parent / "pins_C17.json"

TRIM_PATTERNS = {"^ *def ": "AsShipped", "^[ \\t]*(async[ \\t]+)?def[ \\t]": "Fixed"}

# canonical order = constructor order in Model/TaskHash.v
KWARGS = [("name", "self.name", "KwName"), ("namespace", "self.namespace", "KwNamespace"),
          ("version", "self.version", "KwVersion"), ("compat", "self.compat", "KwCompat"),
          ("script", "self.script", "KwScript"), ("source", "self.source", "KwSource"),
          ("task_options_base", "self._task_options_base", "KwBase"),
          ("task_options_override", "new_task_options_update", "KwOverride"),
          ("export_options", {"options": "set(self._export_options)", "export_options": "export_options"}, "KwExport"),
          ("hash_includes", "self._hash_includes", "KwIncludes")]
FWD = {
    "options": {"AsShipped": ["KwName", "KwNamespace", "KwVersion", "KwCompat", "KwScript", "KwSource", "KwBase",
                              "KwOverride", "KwExport"]},
    "export_options": {"AsShipped": ["KwName", "KwNamespace", "KwVersion", "KwCompat", "KwScript", "KwSource",
                                     "KwBase", "KwOverride", "KwExport"]},
}
for _k in FWD:
    FWD[_k]["Fixed"] = FWD[_k]["AsShipped"] + ["KwIncludes"]

MERGE = "new_task_options_update = {**self._task_options_override, **task_options_update}"

FIELDS = {"self.fullname": "FFullname", "source": "FSource", "self.version": "FVersion",
          "self.task._calc_hash()": "FInnerCalc",
          "hash_arguments(get_type_registry(), self.args, self.kwargs)": "FArgsHash"}

# (file, class or None, function)
PINNED = {
    "Task.recompute_hash": ("redun/task.py", "Task", "recompute_hash"),
    "Task.get_hash": ("redun/task.py", "Task", "get_hash"),
    "Task.partial": ("redun/task.py", "Task", "partial"),
    "Task.fullname": ("redun/task.py", "Task", "fullname"),
    "PartialTask.partial": ("redun/task.py", "PartialTask", "partial"),
    "PartialTask.options": ("redun/task.py", "PartialTask", "options"),
    "TaskRegistry.rename": ("redun/task.py", "TaskRegistry", "rename"),
    "compute_namespace": ("redun/namespace.py", None, "compute_namespace"),
    "hash_struct": ("redun/hashing.py", None, "hash_struct"),
    "hash_arguments": ("redun/hashing.py", None, "hash_arguments"),
    "hash_positional_args": ("redun/hashing.py", None, "hash_positional_args"),
    "hash_kwargs": ("redun/hashing.py", None, "hash_kwargs"),
    "Hash.__init__": ("redun/hashing.py", "Hash", "__init__"),
    "Hash.update": ("redun/hashing.py", "Hash", "update"),
    "Hash.hexdigest": ("redun/hashing.py", "Hash", "hexdigest"),
    "TypeRegistry.get_hash": ("redun/value.py", "TypeRegistry", "get_hash"),
}


def _last(fn, name):
    """the last overload/definition of a module-level function"""
    return fn


def find_last_func(mod, name):
    out = None
    for n in mod.body:
        if isinstance(n, (ast.FunctionDef, ast.AsyncFunctionDef)) and n.name == name:
            out = n
    if out is None:
        fail(f"function {name} not found")
    return out


def find_method(mod, cls, name):
    """last definition of cls.name that is not an @overload stub"""
    c = find_class(mod, cls)
    out = None
    for n in c.body:
        if isinstance(n, (ast.FunctionDef, ast.AsyncFunctionDef)) and n.name == name:
            if any(src(d) == "overload" for d in n.decorator_list):
                continue
            out = n
    if out is None:
        fail(f"method {cls}.{name} not found")
    return out


def simple_if(node, test, what):
    if not (isinstance(node, ast.If) and src(node.test) == test):
        fail(f"{what}: expected `if {test}:`", node)
    return node


# ------------------------------------------------------------------------------------------------
def tr_get_func_source(mod):
    fn = find_func(mod, "get_func_source")
    if [a.arg for a in fn.args.args] != ["func"] or fn.decorator_list:
        fail("get_func_source: signature changed", fn)
    calls = [n for n in ast.walk(fn) if is_call(n, "re.match")]
    if len(calls) != 1 or len(calls[0].args) != 2 or calls[0].keywords \
            or not (isinstance(calls[0].args[0], ast.Constant) and isinstance(calls[0].args[0].value, str)):
        fail("get_func_source: expected exactly one re.match(<str literal>, line)", fn)
    pattern = calls[0].args[0].value
    if pattern not in TRIM_PATTERNS:
        fail(f"get_func_source: unrecognised def-line pattern {pattern!r}", calls[0])
    body = [src(s) for s in body_nodoc(fn)]
    expect = ["source = inspect.getsource(func)",
              "lines = source.split('\\n')",
              "for i, line in enumerate(lines):\n    if re.match(%r, line):\n        return '\\n'.join(lines[i:])" % pattern,
              "return source"]
    if body != expect:
        fail(f"get_func_source: unrecognised body {body!r}", fn)
    return TRIM_PATTERNS[pattern]


def list_plus(node, what):
    """[a, b, c] + x + y  ->  (elements, [x, y])"""
    tail = []
    while isinstance(node, ast.BinOp) and isinstance(node.op, ast.Add):
        if not isinstance(node.right, ast.Name):
            fail(f"{what}: unrecognised summand {src(node.right)!r}", node)
        tail.insert(0, node.right.id)
        node = node.left
    if not isinstance(node, ast.List):
        fail(f"{what}: expected a list literal, got {src(node)!r}", node)
    return node.elts, tail


def fields_of(elts, what):
    out = []
    for e in elts:
        if isinstance(e, ast.Constant) and isinstance(e.value, str):
            if not e.value.isidentifier():
                fail(f"{what}: unexpected tag {e.value!r}", e)
            out.append(f'FLit (b "{e.value}")')
        elif src(e) in FIELDS:
            out.append(FIELDS[src(e)])
        else:
            fail(f"{what}: unrecognised element {src(e)!r}", e)
    return out


def local_name(branch, what):
    """the local variable a two-armed `if` assigns in both arms (its name is irrelevant)"""
    t = [x.targets[0].id for arm in (branch.body, branch.orelse) for x in arm
         if isinstance(x, ast.Assign) and len(x.targets) == 1 and isinstance(x.targets[0], ast.Name)]
    if len(branch.body) != 1 or len(branch.orelse) != 1 or len(t) != 2 or t[0] != t[1]:
        fail(f"{what}: expected one assignment to the same local in both arms", branch)
    return t[0]


def hash_struct_return(stmt, what, names):
    if not (isinstance(stmt, ast.Return) and is_call(stmt.value, "hash_struct", 1)):
        fail(f"{what}: expected `return hash_struct(...)`", stmt)
    elts, tail = list_plus(stmt.value.args[0], what)
    f = fields_of(elts, what)
    for t in tail:
        if t not in names:
            fail(f"{what}: unrecognised summand {t}", stmt)
        f.append(names[t])
    return f


def tr_calc_hash(mod):
    fn = find_method(mod, "Task", "_calc_hash")
    if [a.arg for a in fn.args.args] != ["self"]:
        fail("Task._calc_hash: signature changed", fn)
    body = body_nodoc(fn)
    if len(body) != 4:
        fail(f"Task._calc_hash: expected 4 statements, found {len(body)}", fn)
    d = {}
    s0 = simple_if(body[0], "self.compat", "Task._calc_hash")
    if [src(s) for s in s0.body] != ["return self.compat[0]"] or s0.orelse:
        fail("Task._calc_hash: compat branch changed", s0)
    d["compat_first"] = True
    s1 = simple_if(body[1], "self._task_options_override", "Task._calc_hash")
    lo = local_name(s1, "Task._calc_hash (options)")
    if [src(s) for s in s1.body] != [lo + " = [get_type_registry().get_hash(self._task_options_override)]"] \
            or [src(s) for s in s1.orelse] != [lo + " = []"]:
        fail("Task._calc_hash: options-hash statement changed", s1)
    d["options_guard"] = True
    s2 = simple_if(body[2], "self._hash_includes", "Task._calc_hash")
    li = local_name(s2, "Task._calc_hash (includes)")
    if li == lo or li == "source" or lo == "source":
        fail("Task._calc_hash: locals clash", s2)
    if [src(s) for s in s2.body] != [li + " = sorted(map(get_type_registry().get_hash, self._hash_includes))"] \
            or [src(s) for s in s2.orelse] != [li + " = []"]:
        fail("Task._calc_hash: includes-hash statement changed", s2)
    d["includes_guard_sorted"] = True
    s3 = simple_if(body[3], "self.version is None", "Task._calc_hash")
    d["version_none_test"] = True
    if len(s3.body) != 2 or len(s3.orelse) != 1:
        fail("Task._calc_hash: version branches changed", s3)
    fb = simple_if(s3.body[0], "self.source", "Task._calc_hash")
    if [src(s) for s in fb.body] != ["source = self.source"] \
            or [src(s) for s in fb.orelse] != ["source = get_func_source(self.func)"]:
        fail("Task._calc_hash: source fallback changed", fb)
    d["source_fallback"] = True
    names = {li: "FIncludes", lo: "FOptions"}
    d["unversioned"] = hash_struct_return(s3.body[1], "Task._calc_hash (source layout)", names)
    d["versioned"] = hash_struct_return(s3.orelse[0], "Task._calc_hash (version layout)", names)
    return d


def tr_format_fullname(mod):
    fn = find_method(mod, "Task", "_format_fullname")
    if [a.arg for a in fn.args.args] != ["namespace", "name"] or [src(x) for x in fn.decorator_list] != ["staticmethod"]:
        fail("Task._format_fullname: signature changed", fn)
    body = body_nodoc(fn)
    if len(body) != 1:
        fail("Task._format_fullname: body changed", fn)
    i = simple_if(body[0], "namespace", "Task._format_fullname")
    if len(i.body) != 1 or [src(s) for s in i.orelse] != ["return name"]:
        fail("Task._format_fullname: body changed", i)
    r = i.body[0]
    ok = (isinstance(r, ast.Return) and isinstance(r.value, ast.BinOp) and isinstance(r.value.op, ast.Add)
          and src(r.value.right) == "name" and isinstance(r.value.left, ast.BinOp)
          and isinstance(r.value.left.op, ast.Add) and src(r.value.left.left) == "namespace"
          and isinstance(r.value.left.right, ast.Constant) and isinstance(r.value.left.right.value, str))
    if not ok:
        fail("Task._format_fullname: expected `return namespace + <sep> + name`", r)
    sep = r.value.left.right.value
    if not (sep.isascii() and sep.isprintable() and '"' not in sep):
        fail(f"Task._format_fullname: unexpected separator {sep!r}", r)
    return sep


INIT_ASSIGN = {
    "self.name": "name or func.__name__",
    "self.namespace": "compute_namespace(func, namespace)",
    "self.func": "func",
    "self.version": "version",
    "self.compat": "compat or []",
    "self.script": "script",
    "self._task_options_base": "task_options_base or {}",
    "self._task_options_override": "task_options_override or {}",
    "self._export_options": "export_options or set()",
    "self._signature": "None",
    "self._hash_includes": "hash_includes",
}
INIT_PARAMS = ["self", "func", "name", "namespace", "version", "compat", "script", "task_options_base",
               "task_options_override", "export_options", "hash_includes", "source"]


def tr_init(mod):
    fn = find_method(mod, "Task", "__init__")
    if [a.arg for a in fn.args.args] != INIT_PARAMS or fn.args.vararg or fn.args.kwarg or fn.args.kwonlyargs:
        fail("Task.__init__: signature changed", fn)
    defaults = [src(x) for x in fn.args.defaults]
    if defaults != ["None", "None", "None", "None", "False", "None", "None", "None", "None", "None"]:
        fail(f"Task.__init__: defaults changed {defaults}", fn)
    seen = {}
    order = []
    for s in body_nodoc(fn):
        if isinstance(s, (ast.Assign, ast.AnnAssign)):
            tg = s.targets[0] if isinstance(s, ast.Assign) else s.target
            if isinstance(s, ast.Assign) and len(s.targets) != 1:
                fail("Task.__init__: multiple assignment", s)
            seen[src(tg)] = src(s.value)
        elif isinstance(s, ast.If) and src(s.test) == "source is not None":
            if [src(x) for x in s.body] != ["self.source = source"] \
                    or [src(x) for x in s.orelse] != ["self.source = get_func_source(func)"]:
                fail("Task.__init__: source assignment changed", s)
            seen["self.source"] = "<source or get_func_source(func)>"
        elif isinstance(s, ast.Expr) and src(s) in ("self.recompute_hash()", "self._validate()"):
            order.append(src(s))
        else:
            fail(f"Task.__init__: unrecognised statement {src(s)!r}", s)
    exp = dict(INIT_ASSIGN)
    exp["self.source"] = "<source or get_func_source(func)>"
    if seen != exp:
        diff = {k: (seen.get(k), exp.get(k)) for k in set(seen) | set(exp) if seen.get(k) != exp.get(k)}
        fail(f"Task.__init__: attribute assignments changed: {diff}", fn)
    if order == ["self.recompute_hash()", "self._validate()"]:
        return True
    fail(f"Task.__init__: unexpected order of recompute_hash/_validate: {order}", fn)


def tr_clone(mod, name):
    fn = find_method(mod, "Task", name)
    if [a.arg for a in fn.args.args] != ["self"] or fn.args.vararg or not fn.args.kwarg \
            or fn.args.kwarg.arg != "task_options_update":
        fail(f"Task.{name}: signature changed", fn)
    body = body_nodoc(fn)
    stmts = [src(s) for s in body[:-1]]
    if name == "options":
        expect = [MERGE]
    else:
        expect = [MERGE, "export_options = self._export_options | set(task_options_update.keys())",
                  "if 'cache' in export_options:\n    export_options.add('cache_scope')"]
    if stmts != expect:
        fail(f"Task.{name}: statements before the constructor call changed: {stmts!r}", fn)
    ret = body[-1]
    if not (isinstance(ret, ast.Return) and isinstance(ret.value, ast.Call) and src(ret.value.func) == "self.__class__"
            and [src(a) for a in ret.value.args] == ["self.func"]):
        fail(f"Task.{name}: expected `return self.__class__(self.func, ...)`", ret)
    table = {k: (v, c) for k, v, c in KWARGS}
    got = set()
    for kw in ret.value.keywords:
        if kw.arg is None or kw.arg not in table:
            fail(f"Task.{name}: unrecognised keyword {kw.arg!r}", kw.value)
        v, c = table[kw.arg]
        if isinstance(v, dict):
            v = v[name]
        if src(kw.value) != v:
            fail(f"Task.{name}: {kw.arg}={src(kw.value)} (expected {v})", kw.value)
        if c in got:
            fail(f"Task.{name}: keyword {kw.arg} repeated", kw.value)
        got.add(c)
    return [c for _, _, c in KWARGS if c in got]


def tr_partial(mod):
    fn = find_method(mod, "PartialTask", "_calc_hash")
    body = body_nodoc(fn)
    if len(body) != 1 or not (isinstance(body[0], ast.Return) and is_call(body[0].value, "hash_struct", 1)
                              and isinstance(body[0].value.args[0], ast.List)):
        fail("PartialTask._calc_hash: expected `return hash_struct([...])`", fn)
    layout = fields_of(body[0].value.args[0].elts, "PartialTask._calc_hash")
    init = find_method(mod, "PartialTask", "__init__")
    b = [src(s) for s in body_nodoc(init)]
    if b != ["self.task = task", "self.args = tuple(args)", "self.kwargs = kwargs",
             "super().__init__(task.func, name=task.name, namespace=task.namespace)"]:
        fail(f"PartialTask.__init__: body changed {b!r}", init)
    c = find_class(mod, "PartialTask")
    if [src(x) for x in c.bases] != ["Task[P, R]"]:
        fail("PartialTask: bases changed", c)
    return layout


def tr_wraps(mod):
    fn = find_last_func(mod, "wraps_task")
    inner = [n for n in ast.walk(fn) if isinstance(n, ast.FunctionDef) and n.name == "create_tasks"]
    if len(inner) != 1:
        fail("wraps_task: create_tasks not found", fn)
    ct = inner[0]
    stm = [src(s) for s in ct.body]
    need = ["visible_name = hidden_inner_task.name", "visible_namespace = hidden_inner_task.namespace",
            "recursive_rename(hidden_inner_task, wrapper_name)", "wrapped_hash_data = [hidden_inner_task]"]
    pos = []
    for n in need:
        if stm.count(n) != 1:
            fail(f"wraps_task: statement {n!r} not found exactly once", ct)
        pos.append(stm.index(n))
    if pos != sorted(pos):
        fail("wraps_task: visible name must be read before the hidden task is renamed", ct)
    calls = [n for n in ast.walk(ct) if isinstance(n, ast.Call) and src(n.func) == "task" and n.keywords]
    if len(calls) != 1:
        fail("wraps_task: expected one task(...) call", ct)
    kw = {k.arg: src(k.value) for k in calls[0].keywords}
    exp = {"name": "visible_name", "namespace": "visible_namespace", "wrapped_task": "hidden_inner_task.fullname",
           "use_wrapper_signature": "use_wrapper_signature", "load_module": "hidden_inner_task.load_module",
           "hash_includes": "wrapper_hash_includes + wrapped_hash_data", None: "wrapper_task_options_base"}
    if kw != exp:
        fail(f"wraps_task: task(...) keywords changed: {kw!r}", calls[0])
    return True


def tr_update_context(mod):
    """update_context must go through self.options(_context_override=...) (what is merged is C26's subject;
    Task._validate's rewriting of the option dicts is an arbitrary function in the model)."""
    fn = find_method(mod, "Task", "update_context")
    ret = body_nodoc(fn)[-1]
    if not (isinstance(ret, ast.Return) and isinstance(ret.value, ast.Call) and src(ret.value.func) == "self.options"
            and not ret.value.args and [k.arg for k in ret.value.keywords] == ["_context_override"]):
        fail("Task.update_context: expected `return self.options(_context_override=...)`", fn)
    for s in body_nodoc(fn)[:-1]:
        if not (isinstance(s, ast.Assign) and len(s.targets) == 1 and isinstance(s.targets[0], ast.Name)):
            fail(f"Task.update_context: unrecognised statement {src(s)!r}", s)


def tr_task_decorator(mod):
    """@task(...) hands name, namespace, version, compat, hash_includes and source to Task(...) unchanged."""
    fn = find_last_func(mod, "task")
    calls = [n for n in ast.walk(fn) if isinstance(n, ast.Call) and src(n.func) == "Task"]
    if len(calls) != 1 or [src(a) for a in calls[0].args] != ["func"]:
        fail("task(): expected exactly one Task(func, ...) call", fn)
    kw = {k.arg: src(k.value) for k in calls[0].keywords}
    exp = {"name": "name", "namespace": "namespace", "version": "version", "compat": "compat", "script": "script",
           "task_options_base": "task_options_base", "export_options": "export_option_keys",
           "hash_includes": "hash_includes", "source": "source"}
    if kw != exp:
        fail(f"task(): Task(...) keywords changed: {kw!r}", calls[0])
    for n in ast.walk(fn):
        if isinstance(n, (ast.Assign, ast.AugAssign, ast.AnnAssign)):
            tg = n.targets if isinstance(n, ast.Assign) else [n.target]
            for t in tg:
                if isinstance(t, ast.Name) and t.id in ("name", "namespace", "version", "compat", "hash_includes", "source"):
                    fail(f"task(): rebinds {t.id} before constructing the Task", n)


def translate(pins: dict | None = None):
    """-> (coq text, pins found, (vt, vf))"""
    utils = load("redun/utils.py")
    task = load("redun/task.py")
    tr_update_context(task)
    tr_task_decorator(task)
    vt = tr_get_func_source(utils)
    d = tr_calc_hash(task)
    sep = tr_format_fullname(task)
    before = tr_init(task)
    fo = tr_clone(task, "options")
    fe = tr_clone(task, "export_options")
    vf = None
    for v in ("AsShipped", "Fixed"):
        if fo == FWD["options"][v] and fe == FWD["export_options"][v]:
            vf = v
    if vf is None:
        fail(f"Task.options/export_options forward an unrecognised set of constructor arguments: {fo} / {fe}")
    partial = tr_partial(task)
    wraps = tr_wraps(task)

    mods = {"redun/task.py": task, "redun/utils.py": utils}
    got = {}
    for key, (path, cls, name) in PINNED.items():
        m = mods.get(path) or mods.setdefault(path, load(path))
        node = find_method(m, cls, name) if cls else find_last_func(m, name)
        got[key] = pin(node)
    if pins is not None:
        for key, exp in pins.items():
            if got.get(key) != exp:
                fail(f"{key}: shape changed (pin {got.get(key)} != {exp}); the hand-written model of it is no "
                     f"longer known to match")

    def bl(x):
        return "true" if x else "false"

    def lst(xs):
        return "[" + "; ".join(xs) + "]"

    v = ["(* GENERATED by translate/tr_hash_task.py from /repo/redun/{task,utils}.py -- do not edit *)",
         "From Coq Require Import String List Ascii.",
         "From RV Require Import Base.Decimal Model.Bencode Model.TaskHash.",
         "Import ListNotations.",
         "Definition gen : description := {|",
         f"  d_compat_first := {bl(d['compat_first'])};",
         f"  d_options_guard := {bl(d['options_guard'])};",
         f"  d_includes_guard_sorted := {bl(d['includes_guard_sorted'])};",
         f"  d_version_none_test := {bl(d['version_none_test'])};",
         f"  d_source_fallback := {bl(d['source_fallback'])};",
         f"  d_unversioned := {lst(d['unversioned'])};",
         f"  d_versioned := {lst(d['versioned'])};",
         f"  d_partial := {lst(partial)};",
         f'  d_fullname_sep := b "{sep}";',
         f"  d_hash_before_validate := {bl(before)};",
         f"  d_trim := {vt};",
         f"  d_fwd_options := {lst(fo)};",
         f"  d_fwd_export := {lst(fe)};",
         "  d_options_merge := true;",
         "  d_partial_init_name_namespace := true;",
         f"  d_wrap_includes_inner_last := {bl(wraps)}",
         "|}.",
         f"(* the theorems of Props/C17.v are about [describe vt vf]; the source is in variant vt={vt}, vf={vf} *)",
         f"Lemma C17_tie : gen = describe {vt} {vf}.",
         "Proof. vm_compute. reflexivity. Qed.", ""]
    return "\n".join(v), got, (vt, vf)


if __name__ == "__main__":
    text, got, variants = translate()
    sys.stdout.write(text)
    print(json.dumps(got, indent=1), file=sys.stderr)
    print(variants, file=sys.stderr)
