"""Translator for the five executor monitor protocols -> coq/Gen/C10Gen.v  (fail closed).

For each executor class it extracts, from the current source,
  * the body of `_start` as a `list sop` (tests of the running flag / of thread liveness, flag set,
    thread creation), or the fact that the submit tail runs under `with self._lock:`;
  * from `stop`: that it clears the flag, and whether it joins `self._thread`;
  * from `_monitor`: the loop guard (flag and pending collections), the snapshot statement, that the
    loop is inside try/except-Exception -> reject_job(None, error), and that it ends with `self.stop()`
    (shipped) or decides to leave under the lock (fixed);
  * the *marked lines* (shared reads/writes) at which the deterministic thread scheduler of the
    harness pauses threads; one model step = from one marked line to the next.
Submit / process-status functions are hand-modelled (insert, pop + report) and pinned by shape.
"""
from __future__ import annotations

import ast
import json
from pathlib import Path

from .astutil import TranslateError, body_nodoc, fail, find_func, load, pin, src

PINS_FILE = Path(__file__).with_name("pins_C10.json")

SPECS = {
    "docker": dict(file="redun/executors/docker.py", cls="DockerExecutor", flag="_is_running",
                   tracked="_pending_jobs", queue=None, mon="_thread", sub=None,
                   submit="_submit", single=None, process="_process_job_status"),
    "aws_batch": dict(file="redun/executors/aws_batch.py", cls="AWSBatchExecutor", flag="is_running",
                      tracked="pending_batch_jobs", queue=None, mon="_thread", sub=None,
                      submit="_submit", single="_submit_single_job", process="_process_job_status"),
    "k8s": dict(file="redun/executors/k8s.py", cls="K8SExecutor", flag="is_running",
                tracked="pending_k8s_jobs", queue=None, mon="_thread", sub=None,
                submit="_submit", single="_submit_single_job", process="_process_k8s_job_status"),
    "gcp_batch": dict(file="redun/executors/gcp_batch.py", cls="GCPBatchExecutor", flag="is_running",
                      tracked="pending_batch_tasks", queue=None, mon="_thread", sub=None,
                      submit="_submit", single="_submit_single_job", process="_process_task_status"),
    "aws_glue": dict(file="redun/executors/aws_glue.py", cls="AWSGlueExecutor", flag="is_running",
                     tracked="running_glue_jobs", queue="pending_glue_jobs", mon="_monitor_thread",
                     sub="_submit_thread", submit="submit", single=None, process="_process_job_status"),
}

# Statements of `_start` / `stop` / `_monitor` that touch no state of the protocol.
NOOPS = {
    "os.makedirs(self._scratch_prefix, exist_ok=True)",
    "self._aws_user = aws_utils.get_aws_user()",
    "self._setup_secrets()",
    "if self.create_namespace:\n    k8s_utils.create_namespace(self._k8s_client, self.namespace)",
    "self._docker_executor.stop()",
    "self.arrayer.stop()",
    "gcp_batch_client = gcp_utils.get_gcp_batch_client()",
    "chunk_size = 100",
    "pending_truncate = 10",
    "self.log('Shutting down executor...', level=logging.DEBUG)",
    "self.log('_monitor got exception', level=logging.INFO)",
}


def is_noop(st):
    return src(st) in NOOPS or isinstance(st, ast.Assert)


def single_line(node, what):
    if node.lineno != node.end_lineno:
        fail(f"{what}: statement spans several lines, cannot be a single scheduling point", node)
    return node.lineno


class Ex:
    """Translation of one executor class."""

    def __init__(self, key, source=None):
        self.key = key
        self.sp = sp = SPECS[key]
        self.mod = load(sp["file"], source)
        self.cls = sp["cls"]
        self.lines = {}     # label -> list of line numbers
        self.locked = False
        self.ops = None
        self.stop_joins = False
        self.guard_reads = []
        self.walk = None
        self.errors = []

    def fn(self, name):
        return find_func(self.mod, name, self.cls)

    def mark(self, label, line):
        self.lines.setdefault(label, []).append(line)

    def which(self, attr):
        if attr == self.sp["mon"]:
            return "Mon"
        if self.sp["sub"] and attr == self.sp["sub"]:
            return "Sub"
        fail(f"{self.cls}: unknown thread attribute {attr}")

    # ---- _start ---------------------------------------------------------
    def parse_ops(self, stmts, mark=True):
        F = "self." + self.sp["flag"]
        ops = []
        i = 0
        while i < len(stmts):
            st = stmts[i]
            s = src(st)
            if is_noop(st):
                i += 1
                continue
            if isinstance(st, ast.If) and not st.orelse:
                t = src(st.test)
                if t == f"not {F}":
                    if mark:
                        self.mark("start", single_line(st.test, "_start flag test"))
                    ops.append(("OIfNotFlag", self.parse_ops(st.body, mark)))
                    i += 1
                    continue
                if t == F and len(st.body) == 1 and isinstance(st.body[0], ast.Return) and st.body[0].value is None:
                    if mark:
                        self.mark("start", single_line(st.test, "_start flag test"))
                    ops.append(("OIfNotFlag", self.parse_ops(stmts[i + 1:], mark)))
                    return ops
                for attr in (self.sp["mon"], self.sp["sub"]):
                    if attr and t in (f"not self.{attr} or not self.{attr}.is_alive()", f"not self.{attr}.is_alive()"):
                        if mark:
                            self.mark("start", single_line(st.test, "_start liveness test"))
                        ops.append(("OIfNotAlive", self.which(attr), self.parse_ops(st.body, mark)))
                        break
                else:
                    fail(f"{self.cls}._start: unrecognised test {t!r}", st)
                i += 1
                continue
            if s == f"{F} = True":
                if mark:
                    self.mark("start", single_line(st, "_start flag set"))
                ops.append(("OSetFlag",))
                i += 1
                continue
            if isinstance(st, ast.Assign) and len(st.targets) == 1 and isinstance(st.value, ast.Call) \
                    and src(st.value.func) == "threading.Thread":
                tgt = src(st.targets[0])
                if not tgt.startswith("self."):
                    fail(f"{self.cls}._start: thread stored in {tgt!r}", st)
                attr = tgt[5:]
                w = self.which(attr)
                want = "self._monitor" if w == "Mon" else "self._submission_thread"
                kws = {k.arg: src(k.value) for k in st.value.keywords}
                if st.value.args or kws != {"target": want, "daemon": "False"}:
                    fail(f"{self.cls}._start: unexpected Thread(...) arguments {src(st.value)!r}", st)
                if i + 1 >= len(stmts) or src(stmts[i + 1]) != f"self.{attr}.start()":
                    fail(f"{self.cls}._start: thread creation not followed by .start()", st)
                if mark:
                    self.mark("start", single_line(st, "_start thread creation"))
                ops.append(("OSpawn", w))
                i += 2
                continue
            fail(f"{self.cls}._start: unrecognised statement {s!r}", st)
        return ops

    def tr_start(self):
        body = body_nodoc(self.fn("_start"))
        self.ops = self.parse_ops(body, mark=not self.locked)

    # ---- stop -----------------------------------------------------------
    def tr_stop(self):
        F = "self." + self.sp["flag"]
        T = "self." + self.sp["mon"]
        clears = 0
        for st in body_nodoc(self.fn("stop")):
            s = src(st)
            if s == f"{F} = False":
                clears += 1
                if clears > 1:
                    fail(f"{self.cls}.stop: flag cleared twice", st)
                continue
            if is_noop(st):
                if clears and s == "self.arrayer.stop()" and False:
                    pass
                continue
            if isinstance(st, ast.If) and not st.orelse and \
                    src(st.test) == f"{T} and {T}.is_alive() and (threading.get_ident() != {T}.ident)" and \
                    [src(b) for b in st.body] == [f"{T}.join()"]:
                if not clears:
                    fail(f"{self.cls}.stop: join before the flag is cleared", st)
                self.stop_joins = True
                first = st.test.values[0]
                if st.lineno == first.lineno and st.test.lineno != st.test.end_lineno:
                    fail(f"{self.cls}.stop: join test layout not supported", st)
                self.mark("join", first.lineno)
                continue
            fail(f"{self.cls}.stop: unrecognised statement {s!r}", st)
        if clears != 1:
            fail(f"{self.cls}.stop does not clear {F}")

    # ---- _monitor -------------------------------------------------------
    def guard_of(self, test, what):
        """test must be  FLAG and X ; X = TRACKED | (TRACKED or arrayer.num_pending) | (TRACKED or QUEUE)."""
        F = "self." + self.sp["flag"]
        TR = "self." + self.sp["tracked"]
        if not (isinstance(test, ast.BoolOp) and isinstance(test.op, ast.And) and len(test.values) == 2
                and src(test.values[0]) == F):
            fail(f"{self.cls}.{what}: loop guard is not `{F} and ...`", test)
        x = src(test.values[1])
        if x == TR:
            return ["tracked"]
        if x == f"{TR} or self.arrayer.num_pending":
            return ["tracked", "arrayer"]
        if self.sp["queue"] and x == f"{TR} or self.{self.sp['queue']}":
            return ["tracked", "queue"]
        fail(f"{self.cls}.{what}: unrecognised loop guard {src(test)!r}", test)

    def tr_monitor(self):
        F = "self." + self.sp["flag"]
        TR = "self." + self.sp["tracked"]
        fn = self.fn("_monitor")
        body = [st for st in body_nodoc(fn) if not is_noop(st)]
        if not body or not isinstance(body[0], ast.Try):
            fail(f"{self.cls}._monitor: expected try/except around the loop", fn)
        tr = body[0]
        rest = body[1:]
        if tr.orelse or tr.finalbody or len(tr.handlers) != 1 or src(tr.handlers[0].type) != "Exception" \
                or tr.handlers[0].name != "error":
            fail(f"{self.cls}._monitor: unexpected exception handling", tr)
        hb = [st for st in tr.handlers[0].body if not is_noop(st)]
        tb = [st for st in tr.body if not is_noop(st)]
        if len(tb) != 1 or not isinstance(tb[0], ast.While) or tb[0].orelse:
            fail(f"{self.cls}._monitor: expected a single while loop in the try body", tr)
        loop = tb[0]
        lbody = list(loop.body)
        if src(loop.test) == "True":
            # fixed discipline: with self._lock: if not (FLAG and X): FLAG = False; break
            w = lbody[0] if lbody else None
            if not (isinstance(w, ast.With) and [src(i.context_expr) for i in w.items] == ["self._lock"]
                    and len(w.body) == 1 and isinstance(w.body[0], ast.If) and not w.body[0].orelse):
                fail(f"{self.cls}._monitor: `while True` loop does not start with the locked guard", loop)
            iff = w.body[0]
            if not (isinstance(iff.test, ast.UnaryOp) and isinstance(iff.test.op, ast.Not)):
                fail(f"{self.cls}._monitor: locked guard is not `if not (...)`", iff)
            self.guard_reads = self.guard_of(iff.test.operand, "_monitor")
            if [src(b) for b in iff.body] != [f"{F} = False", "break"]:
                fail(f"{self.cls}._monitor: locked guard body must clear the flag and break", iff)
            self.locked = True
            # scheduling point = acquisition of self._lock (the harness wraps the lock), not a line
            self.mark("lock", single_line(w.items[0].context_expr, "locked guard"))
            lbody = lbody[1:]
            if [src(s) for s in hb] != ["with self._lock:\n    " + f"{F} = False", "self._scheduler.reject_job(None, error)"]:
                fail(f"{self.cls}._monitor (locked): handler must clear the flag under the lock, then reject_job(None, error)", tr)
            if rest:
                fail(f"{self.cls}._monitor (locked): unexpected statements after the loop: {src(rest[0])!r}", rest[0])
        else:
            self.guard_reads = self.guard_of(loop.test, "_monitor")
            self.mark("guard", single_line(loop.test, "monitor guard"))
            if [src(s) for s in hb] != ["self._scheduler.reject_job(None, error)"]:
                fail(f"{self.cls}._monitor: handler is not reject_job(None, error)", tr)
            if [src(s) for s in rest] != ["self.stop()"]:
                fail(f"{self.cls}._monitor: must end with self.stop()", fn)
            self.mark("stop", rest[0].lineno)
        self.mark("ret", fn.name)
        calls = [n for n in ast.walk(loop) if isinstance(n, ast.Call) and src(n.func) == "self." + self.sp["process"]]
        if len(calls) != 1:
            fail(f"{self.cls}._monitor: expected exactly one call of {self.sp['process']} in the loop", loop)
        # snapshot statement: first statement of the loop body that is not logging
        snap = None
        for st in lbody:
            s = src(st)
            if s.startswith("self.log(") or (isinstance(st, ast.If) and "logger.level" in src(st.test)):
                continue
            snap = st
            break
        if not isinstance(snap, ast.Assign):
            fail(f"{self.cls}._monitor: no snapshot statement at the head of the loop body", loop)
        copies = [n for n in ast.walk(snap.value)
                  if isinstance(n, ast.Call) and src(n) in (f"dict({TR})", f"list({TR}.keys())")]
        inside = {id(n) for c in copies for n in ast.walk(c)}
        bare = [n for n in ast.walk(snap.value)
                if isinstance(n, ast.Attribute) and src(n) == TR and id(n) not in inside]
        if len(copies) == 1 and not bare:
            self.walk = "Snapshot"
            c = copies[0]
            if snap.lineno != snap.end_lineno and c.lineno == snap.lineno:
                fail(f"{self.cls}._monitor: snapshot layout not supported", snap)
            self.mark("snap", c.lineno)
        elif not copies and len(bare) == 1 and snap.lineno == snap.end_lineno:
            # the status collection is handed the live pending map (Model/MonWalk.v, variant Live)
            self.walk = "Live"
            self.mark("snap", snap.lineno)
        else:
            fail(f"{self.cls}._monitor: snapshot statement neither copies {TR} exactly once nor walks it live: "
                 f"{src(snap)!r}", snap)

    # ---- process status: pop lines ---------------------------------------
    def tr_process(self, pins):
        TR = "self." + self.sp["tracked"]
        fn = self.fn(self.sp["process"])
        meth = "get" if self.key == "aws_glue" else "pop"
        n = 0
        for st in ast.walk(fn):
            if isinstance(st, (ast.Assign, ast.AnnAssign)) and st.value is not None and any(
                    isinstance(c, ast.Call) and src(c.func) == f"{TR}.{meth}" and len(c.args) == 1
                    for c in ast.walk(st.value)):
                self.mark("pop", single_line(st, "pop statement"))
                n += 1
        if n == 0:
            fail(f"{self.cls}.{fn.name}: no `{TR}.{meth}(id)` assignment found", fn)
        self.check_pin(fn, pins)

    # ---- submit -----------------------------------------------------------
    def tr_submit(self, pins):
        TR = "self." + self.sp["tracked"]
        fn = self.fn(self.sp["submit"])
        body = body_nodoc(fn)
        last = body[-1]
        if isinstance(last, ast.With) and [src(i.context_expr) for i in last.items] == ["self._lock"]:
            inner = last.body
            if len(inner) != 2 or not self.is_insert(inner[0], TR) or src(inner[1]) != "self._start()":
                fail(f"{self.cls}.{fn.name}: locked tail must be insert; self._start()", last)
            if not self.locked:
                fail(f"{self.cls}: submit holds the lock but the monitor guard does not", last)
            self.mark("lock", single_line(last.items[0].context_expr, "locked submit"))
            return
        if self.locked:
            fail(f"{self.cls}: monitor guard is locked but the submit tail is not", last)
        if src(last) != "self._start()":
            fail(f"{self.cls}.{fn.name}: does not end with self._start()", last)
        if self.sp["single"]:
            prev = body[-2]
            if src(prev) not in ("if batch_job_id is None:\n    self.arrayer.add_job(job)",
                                 "if k8s_job_id is None:\n    self.arrayer.add_job(job)",
                                 "if batch_task_name is None:\n    self.arrayer.add_job(job)"):
                fail(f"{self.cls}.{fn.name}: statement before self._start() is not the arrayer hand-off", prev)
            cb = self.fn("_submit_jobs")
            if "self._submit_single_job(jobs[0])" not in src(cb):
                fail(f"{self.cls}._submit_jobs: does not call _submit_single_job", cb)
            sfn = self.fn(self.sp["single"])
            ins = [st for st in body_nodoc(sfn) if self.is_insert(st, TR)]
            if len(ins) != 1:
                fail(f"{self.cls}.{sfn.name}: expected exactly one insertion into {TR}", sfn)
            self.mark("insert", single_line(ins[0], "insert"))
            self.check_pin(sfn, pins)
        elif self.sp["queue"]:
            q = "self." + self.sp["queue"]
            prev = body[-2]
            if not (isinstance(prev, ast.If) and src(prev.test) == "glue_job_id is None"
                    and src(prev.body[-1]) == f"{q}.append(job)"):
                fail(f"{self.cls}.{fn.name}: statement before self._start() does not append to {q}", prev)
            self.mark("insert", single_line(prev.body[-1], "insert"))
        else:
            prev = body[-2]
            if not self.is_insert(prev, TR):
                fail(f"{self.cls}.{fn.name}: statement before self._start() is not the insertion into {TR}", prev)
            self.mark("insert", single_line(prev, "insert"))
        self.check_pin(fn, pins)

    @staticmethod
    def is_insert(st, TR):
        return (isinstance(st, ast.Assign) and len(st.targets) == 1 and isinstance(st.targets[0], ast.Subscript)
                and src(st.targets[0].value) == TR and src(st.value) == "job")

    # ---- Glue submission thread ---------------------------------------------
    def tr_subthread(self, pins):
        F = "self." + self.sp["flag"]
        Q = "self." + self.sp["queue"]
        TR = "self." + self.sp["tracked"]
        fn = self.fn("_submission_thread")
        body = [st for st in body_nodoc(fn) if not is_noop(st)]
        if len(body) != 1 or not isinstance(body[0], ast.Try):
            fail(f"{self.cls}._submission_thread: expected a single try statement", fn)
        tb = body[0].body
        if len(tb) != 1 or not isinstance(tb[0], ast.While) or src(tb[0].test) != f"{F} and {Q}":
            fail(f"{self.cls}._submission_thread: outer loop guard changed", fn)
        outer = tb[0]
        inner = [st for st in outer.body if isinstance(st, ast.While)]
        if len(inner) != 1 or src(inner[0].test) != f"fail_counter < 5 and {Q}":
            fail(f"{self.cls}._submission_thread: inner loop guard changed", outer)
        ins = [st for st in ast.walk(inner[0]) if self.is_insert(st, TR)]
        if len(ins) != 1:
            fail(f"{self.cls}._submission_thread: expected one insertion into {TR}", inner[0])
        self.mark("uguard", single_line(outer.test, "submission guard"))
        self.mark("uinner", single_line(inner[0].test, "submission inner guard"))
        self.mark("uinsert", single_line(ins[0], "submission insert"))
        self.mark("ret", fn.name)
        self.check_pin(fn, pins)

    def check_pin(self, fn, pins):
        name = f"{self.key}.{fn.name}"
        got = pin(fn)
        if pins is None:
            self.newpins[name] = got
            return
        exp = pins.get(name)
        if got != exp and got not in (exp if isinstance(exp, list) else []):
            fail(f"{self.cls}.{fn.name}: shape changed (pin {got}, expected {exp}); the hand-written "
                 f"model of insert / pop+report may no longer match", fn)

    newpins: dict = {}

    def attempt(self, f, *a):
        """Run one part of the translation; a rejected shape is recorded, the other parts (and their
        scheduling points) are still extracted so that the search on the real code can run."""
        try:
            f(*a)
        except TranslateError as e:
            self.errors.append(str(e))

    def run(self, pins):
        self.attempt(self.tr_monitor)          # decides self.locked
        self.attempt(self.tr_start)
        self.attempt(self.tr_stop)
        self.attempt(self.tr_process, pins)
        self.attempt(self.tr_submit, pins)
        if self.sp["sub"]:
            self.attempt(self.tr_subthread, pins)
        self.attempt(self.final_checks)
        self.lines.setdefault("ret", ["_monitor"] + (["_submission_thread"] if self.sp["sub"] else []))
        return self

    def final_checks(self):
        if self.sp["queue"] and "queue" not in self.guard_reads:
            fail(f"{self.cls}: monitor guard does not read the queue")
        # executors that hand jobs to a JobArrayer must keep the monitor alive while the arrayer holds
        # jobs (the model assumes arraying off, where num_pending is 0; dropping the term would lose
        # arrayed jobs, which this check could not see)
        if self.sp["single"] and "arrayer" not in self.guard_reads:
            fail(f"{self.cls}: monitor guard no longer reads self.arrayer.num_pending")


def cq_ops(ops):
    out = []
    for o in ops:
        if o[0] == "OIfNotFlag":
            out.append(f"OIfNotFlag {cq_ops(o[1])}")
        elif o[0] == "OIfNotAlive":
            out.append(f"OIfNotAlive {o[1]} {cq_ops(o[2])}")
        elif o[0] == "OSetFlag":
            out.append("OSetFlag")
        else:
            out.append(f"OSpawn {o[1]}")
    return "[" + "; ".join(out) + "]"


def cq_cfg(e: Ex) -> str:
    b = lambda x: "true" if x else "false"
    # under the locked discipline the monitor never runs stop(): stop_joins is irrelevant, normalised
    joins = False if e.locked else e.stop_joins
    return (f"{{| start_ops := {cq_ops(e.ops)}; use_queue := {b(bool(e.sp['queue']))}; "
            f"stop_joins := {b(joins)}; locked := {b(e.locked)} |}}")


def translate_counter(source=None):
    """redun/job_array.py: every write of `self.num_pending` and whether it is inside `with self._lock:`.
    Returns dict(locked=bool, lines=...). Anything but the two known disciplines fails closed."""
    mod = load("redun/job_array.py", source)
    cls = "JobArrayer"
    writes = []   # (function name, statement, inside lock?)

    def walk(stmts, fname, locked):
        for st in stmts:
            tg = []
            if isinstance(st, ast.Assign):
                tg = st.targets
            elif isinstance(st, (ast.AugAssign, ast.AnnAssign)):
                tg = [st.target]
            for t in tg:
                for n in ast.walk(t):
                    if isinstance(n, ast.Attribute) and n.attr == "num_pending":
                        writes.append((fname, st, locked))
            if isinstance(st, ast.With):
                lk = locked or [src(i.context_expr) for i in st.items] == ["self._lock"]
                walk(st.body, fname, lk)
            else:
                for fld in ("body", "orelse", "finalbody"):
                    sub = getattr(st, fld, None)
                    if isinstance(sub, list) and sub and isinstance(sub[0], ast.stmt):
                        walk(sub, fname, locked)
                for h in getattr(st, "handlers", []) or []:
                    walk(h.body, fname, locked)
    c = None
    for n in mod.body:
        if isinstance(n, ast.ClassDef) and n.name == cls:
            c = n
    if c is None:
        fail("class JobArrayer not found")
    for f in c.body:
        if isinstance(f, (ast.FunctionDef, ast.AsyncFunctionDef)):
            walk(f.body, f.name, False)
    # any other mention that could write it (setattr etc.) is out of the recognised shapes
    for n in ast.walk(mod):
        if isinstance(n, ast.Call) and src(n.func) in ("setattr", "object.__setattr__") and "num_pending" in src(n):
            fail("job_array.py: num_pending written through setattr", n)
    seen = {}
    for fname, st, locked in writes:
        s = src(st)
        if fname == "__init__" and s == "self.num_pending = 0":
            continue
        if fname == "add_job" and s == "self.num_pending += 1":
            if not locked:
                fail("JobArrayer.add_job: num_pending incremented outside `with self._lock:` (no such variant is modelled)", st)
            seen["inc"] = st
            continue
        if fname == "submit_pending_jobs" and s == "self.num_pending -= len(jobs)":
            if "dec" in seen:
                fail("JobArrayer.submit_pending_jobs: num_pending decremented twice", st)
            seen["dec"] = (st, locked)
            continue
        fail(f"JobArrayer.{fname}: unrecognised write of num_pending: {s!r}", st)
    if "inc" not in seen or "dec" not in seen:
        fail("JobArrayer: expected one locked increment in add_job and one decrement in submit_pending_jobs")
    add = find_func(mod, "add_job", cls)
    if "self.pending[descr].append(job)" not in [src(x) for w in ast.walk(add) if isinstance(w, ast.With)
                                                  and [src(i.context_expr) for i in w.items] == ["self._lock"]
                                                  for x in w.body]:
        fail("JobArrayer.add_job: the job is not appended to self.pending inside the same critical section", add)
    sub = find_func(mod, "submit_pending_jobs", cls)
    body = body_nodoc(sub)
    first = body[0]
    if not (isinstance(first, ast.With) and [src(i.context_expr) for i in first.items] == ["self._lock"]
            and src(first.body[0]) == "jobs = self.pending.pop(descr)"):
        fail("JobArrayer.submit_pending_jobs: jobs are not popped under the lock first", sub)
    dec, dlocked = seen["dec"]
    last = body[-1]
    if not (last is dec or (isinstance(last, ast.With) and last.body and last.body[-1] is dec and len(last.body) == 1)):
        fail("JobArrayer.submit_pending_jobs: the num_pending decrement is not the final statement", dec)
    loop = find_func(mod, "_monitor_stale_jobs", cls)
    whiles = [n for n in ast.walk(loop) if isinstance(n, ast.While)]
    if len(whiles) != 1 or src(whiles[0].test) != "not self._exit_flag.wait(timeout=self.interval)":
        fail("JobArrayer._monitor_stale_jobs: loop shape changed", loop)
    return dict(locked=dlocked, file="redun/job_array.py",
                lines=dict(idle=[single_line(whiles[0].test, "arrayer loop")], dec=[single_line(dec, "decrement")]))


def translate_lifecycle(source=None):
    """redun/job_array.py: where JobArrayer sets / clears `_exit_flag`.  Returns the Coq clear_variant:
    'ClearInStart' (start() clears it unconditionally before creating the thread) or
    'ClearInStopIfAlive' (only stop() clears it, after joining a live thread); anything else fails closed."""
    mod = load("redun/job_array.py", source)
    cls = "JobArrayer"
    c = find_class_node(mod, cls)
    uses = []
    for f in c.body:
        if isinstance(f, (ast.FunctionDef, ast.AsyncFunctionDef)):
            for n in ast.walk(f):
                if isinstance(n, ast.Attribute) and n.attr == "_exit_flag":
                    uses.append(f.name)
    for fname in uses:
        if fname not in ("__init__", "start", "stop", "_monitor_stale_jobs"):
            fail(f"JobArrayer.{fname}: unexpected use of _exit_flag")
    start = [src(s) for s in body_nodoc(find_func(mod, "start", cls))]
    head = ["if not self.min_array_size:\n    return", "if self._monitor_thread.is_alive():\n    return"]
    tail = ["self._monitor_thread = threading.Thread(target=self._monitor_stale_jobs, daemon=True)",
            "self._monitor_thread.start()"]
    if start == head + ["self._exit_flag.clear()"] + tail:
        clear_in_start = True
    elif start == head + tail:
        clear_in_start = False
    else:
        fail(f"JobArrayer.start: unrecognised body {start!r}")
    stop = body_nodoc(find_func(mod, "stop", cls))
    if len(stop) != 2 or src(stop[0]) != "self._exit_flag.set()" or not isinstance(stop[1], ast.If) \
            or stop[1].orelse or src(stop[1].test) != "self._monitor_thread.is_alive()":
        fail("JobArrayer.stop: unrecognised body")
    sb = [src(s) for s in stop[1].body]
    if sb == ["self._monitor_thread.join()"]:
        clear_in_stop = False
    elif sb == ["self._monitor_thread.join()", "self._exit_flag.clear()"]:
        clear_in_stop = True
    else:
        fail(f"JobArrayer.stop: unrecognised join branch {sb!r}")
    if clear_in_start and not clear_in_stop:
        return "ClearInStart"
    if clear_in_stop and not clear_in_start:
        return "ClearInStopIfAlive"
    fail("JobArrayer: _exit_flag is cleared in neither / both of start() and stop() - no such variant is modelled")


def find_class_node(mod, name):
    for n in mod.body:
        if isinstance(n, ast.ClassDef) and n.name == name:
            return n
    fail(f"class {name} not found")


GLUE_ALWAYS = [("OIfNotFlag", [("OSetFlag",)]), ("OIfNotAlive", "Mon", [("OSpawn", "Mon")]),
               ("OIfNotAlive", "Sub", [("OSpawn", "Sub")])]
GLUE_EARLY = [("OIfNotFlag", [("OSetFlag",), ("OIfNotAlive", "Mon", [("OSpawn", "Mon")]),
                              ("OIfNotAlive", "Sub", [("OSpawn", "Sub")])])]


def translate(sources: dict | None = None, pins="file"):
    """Returns (coq_text, info). coq_text = coq/Gen/C10Gen.v (definitions extracted from the source);
    info['_tie_text'] = coq/Gen/C10Tie.v (tie lemmas; kept apart so that the correspondence can still run
    against what the code says when a tie breaks). info[key] = {'variant', 'lines', 'file', 'locked', ...}."""
    if pins == "file":
        pins = json.loads(PINS_FILE.read_text()) if PINS_FILE.exists() else {}
    Ex.newpins = {}
    info = {}
    errors = []
    head = ["(* Generated by translate/tr_monitor.py from redun/executors/{docker,aws_batch,k8s,gcp_batch,aws_glue}.py"
            " and redun/job_array.py - do not edit. *)",
            "From Coq Require Import List Bool.",
            "From RV Require Import Model.Monitor Model.ArrCounter Model.ArrLife Model.GlueWaves Model.MonWalk.",
            "Import ListNotations.", ""]
    out = list(head)
    tie = [head[0], "From Coq Require Import List Bool.",
           "From RV Require Import Model.Monitor Model.ArrCounter Model.ArrLife Model.GlueWaves Model.MonWalk Gen.C10Gen.",
           "Import ListNotations.", ""]
    for key in SPECS:
        e = Ex(key, (sources or {}).get(key)).run(pins)
        variant = "fixed" if e.locked else "shipped"
        errors += [f"{key}: {m}" for m in e.errors]
        if not e.errors:
            out.append(f"Definition gen_{key} : cfg := {cq_cfg(e)}.")
            target = "fixed_cfg" if e.locked else f"shipped_{key}"
            tie.append(f"Lemma C10_tie_{key} : gen_{key} = {target}.")
            tie.append("Proof. reflexivity. Qed.")
            out.append(f"Definition gen_walk_{key} : walk_source := {e.walk}.")
            tie.append(f"Lemma C10_tie_walk_{key} : gen_walk_{key} = {e.walk}.")
            tie.append("Proof. reflexivity. Qed.")
        info[key] = dict(variant=variant, lines=e.lines, file=e.sp["file"], cls=e.cls, locked=e.locked,
                         stop_joins=e.stop_joins, guard_reads=e.guard_reads, ops=e.ops, walk=e.walk,
                         errors=list(e.errors))
    try:
        cnt = translate_counter((sources or {}).get("job_array"))
        life = translate_lifecycle((sources or {}).get("job_array"))
    except TranslateError as e:
        # job_array.py not recognised: arrayer-mode search falls back to the shipped discipline's scheduling points
        errors.append(f"job_array: {e}")
        cnt = dict(locked=True, file="redun/job_array.py", lines=dict(idle=[], dec=[]), unrecognised=True)
        life = "ClearInStart"
    out.append(f"Definition gen_counter : acfg := {{| counter_locked := {'true' if cnt['locked'] else 'false'} |}}.")
    tie.append(f"Lemma C10_tie_counter : gen_counter = {'arr_locked' if cnt['locked'] else 'arr_unlocked'}.")
    tie.append("Proof. reflexivity. Qed.")
    info["_counter"] = cnt
    out.append(f"Definition gen_life : clear_variant := {life}.")
    tie.append(f"Lemma C10_tie_life : gen_life = {life}.")
    tie.append("Proof. reflexivity. Qed.")
    info["_life"] = life
    # Glue _start: are the thread-alive checks reached when is_running is already true?
    gops = info["aws_glue"]["ops"]
    gv = None
    if not info["aws_glue"]["locked"] and not info["aws_glue"]["errors"]:
        gv = "AlwaysCheck" if gops == GLUE_ALWAYS else "EarlyReturn" if gops == GLUE_EARLY else None
    if gv:
        out.append(f"Definition gen_glue_start : start_variant := {gv}.")
        tie.append(f"Lemma C10_tie_glue_start : gen_glue_start = {gv}.")
        tie.append("Proof. reflexivity. Qed.")
    info["_glue_start"] = gv
    out.append("")
    tie.append("")
    info["_tie_text"] = "\n".join(tie)
    info["_errors"] = errors
    return "\n".join(out), info


def repin():
    translate(pins=None)
    PINS_FILE.write_text(json.dumps(Ex.newpins, indent=1) + "\n")
    return Ex.newpins


if __name__ == "__main__":
    import sys
    if "--repin" in sys.argv:
        print(repin())
    else:
        text, info = translate()
        print(text)
        print(json.dumps(info, indent=1, default=str))
