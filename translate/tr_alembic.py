"""Translator for redun/backends/db/alembic/versions/*.py (+ the version table in
redun/backends/db/__init__.py) -> coq/Gen/C36Gen.v   (fail closed).

Every `upgrade()` is read statement by statement; only a closed set of alembic calls is
recognised (create_table, create_index, batch add_column/create_index/create_foreign_key/
alter_column, alter_column(type_), dialect tests, op.execute of *known* SQL text).  SQL text is
compared after whitespace normalisation with the table below; any other text fails closed.  The
Python bodies of the two data migrations (companion values, stub executions) are hand-modelled in
Model/Migrate.v and pinned by shape.  `downgrade()` is not part of the property and is ignored.
"""
from __future__ import annotations

import ast
import json
import re
import sys
from pathlib import Path

from . import astutil
from .astutil import TranslateError, body_nodoc, fail, find_assign, find_class, find_func, is_call, load, pin, src

VERSIONS_DIR = "redun/backends/db/alembic/versions"
DB_INIT = "redun/backends/db/__init__.py"


def norm_sql(s: str) -> str:
    s = re.sub(r"--[^\n]*", " ", s)
    return re.sub(r"\s+", " ", s).strip().rstrip(";").strip().lower()


# ---- known SQL texts -> model operations (as Coq text). -------------------------------------
SQL_UTC_SHIPPED = norm_sql("""update job set
              start_time = datetime(start_time, 'utc'),
              end_time = datetime(end_time, 'utc');""")
SQL_UTC_FIXED = norm_sql("""update job set
              start_time = datetime(substr(start_time, 1, 19), 'utc') || substr(start_time, 20),
              end_time = datetime(substr(end_time, 1, 19), 'utc') || substr(end_time, 20);""")
SQL_PG_UTC = norm_sql("""
            alter table job
            alter column start_time type timestamp with time zone;

            alter table job
            alter column end_time type timestamp with time zone;

            alter table call_node
            alter column "timestamp" type timestamp with time zone;

            alter table redun_version
            alter column "timestamp" type timestamp with time zone;

            -- Create trigger that only runs for old clients to help convert their timestamps.
            CREATE OR REPLACE FUNCTION check_job_utc()
            RETURNS TRIGGER AS $$
            BEGIN
                IF current_setting('redun.version', true) IS NULL THEN
                    -- For older redun clients, convert time from local timezone to UTC.
                    set local timezone = '{local_timezone}';
                    NEW.start_time := NEW.start_time AT TIME ZONE 'UTC';
                    NEW.end_time := NEW.end_time AT TIME ZONE 'UTC';
                END IF;

                RETURN NEW;
            END;
            $$ LANGUAGE plpgsql;


            DROP TRIGGER IF EXISTS check_job_utc ON job;
            CREATE TRIGGER check_job_utc
            BEFORE INSERT ON job
            FOR EACH ROW
            EXECUTE FUNCTION check_job_utc();
            """)
SQL_PG_DEFERRABLE = norm_sql("""alter table execution
            alter constraint execution_job_id_fkey deferrable initially deferred;""")
SQL_TMP_DROP_IF = norm_sql("drop table if exists tmp_ancestors;")
SQL_TMP_CREATE = norm_sql("""
        create table tmp_ancestors as
        with recursive ancestors as (
            -- Get root jobs and their execution.
            select j.id as job_id, e.id as exec_id
            from job j
            join execution e on e.job_id = j.id
            union
            -- recurse.
            select j2.id, a.exec_id
            from job j2
            join ancestors a on a.job_id = j2.parent_id
        )
        select job_id, exec_id
        from ancestors;
        """)
SQL_TMP_INDEX = norm_sql("create index ix_tmp_ancestors_job_id on tmp_ancestors(job_id);")
SQL_EXEC_UPDATE = norm_sql("""
        update job
        set execution_id = (
            select a.exec_id
            from tmp_ancestors a
            where a.job_id = job.id
        );
        """)
SQL_TMP_DROP = norm_sql("drop table tmp_ancestors;")
SQL_COMMIT = "commit"

SQL_STUB_QUERY = norm_sql("""
            select job.id
            from job
            left join execution on execution.job_id = job.id
            where
              job.parent_id is null and
              execution.id is null
        """)

# The back-fill is the *sequence* drop-if / create-as / index / update / drop / commit; it is
# emitted as one BackfillExecutionId at the UPDATE, the rest being data-neutral.
BACKFILL_SEQ = [SQL_TMP_DROP_IF, SQL_TMP_CREATE, SQL_TMP_INDEX, SQL_EXEC_UPDATE, SQL_TMP_DROP, SQL_COMMIT]

DIALECT_TEST = {
    'op.get_bind().dialect.name == "postgresql"': "IfPg",
    "op.get_bind().dialect.name == 'postgresql'": "IfPg",
    "op.get_bind().dialect.name == 'sqlite'": "IfSqlite",
    "op.get_bind().dialect.name != 'sqlite'": "IfNotSqlite",
}
NEG = {"IfPg": "IfNotPg", "IfSqlite": "IfNotSqlite"}


def q(s: str) -> str:
    assert all(32 <= ord(c) < 127 for c in s), s
    return '"' + s.replace('"', '""') + '"'


def cbool(b) -> str:
    return "true" if b else "false"


def const_str(node, what):
    if not (isinstance(node, ast.Constant) and isinstance(node.value, str)):
        fail(f"{what}: expected a string literal, got {src(node)!r}", node)
    return node.value


def const_bool(node, what):
    if not (isinstance(node, ast.Constant) and isinstance(node.value, bool)):
        fail(f"{what}: expected True/False, got {src(node)!r}", node)
    return node.value


def str_list(node, what):
    if not isinstance(node, ast.List):
        fail(f"{what}: expected a list of strings", node)
    return [const_str(e, what) for e in node.elts]


def kw(call, allowed, what):
    out = {}
    for k in call.keywords:
        if k.arg is None or k.arg not in allowed:
            fail(f"{what}: unexpected keyword {k.arg!r}", call)
        out[k.arg] = k.value
    return out


def sa_type(node, env, what):
    """SQLAlchemy type expression -> (sqlite type name, postgres type name)."""
    s = src(node)
    if isinstance(node, ast.Name) and node.id in env:
        return env[node.id]
    if s == "sa.String()":
        return ("VARCHAR", "VARCHAR")
    if s == "sa.VARCHAR()":
        return ("VARCHAR", "VARCHAR")
    m = re.fullmatch(r"sa\.String\(length=(\d+)\)", s)
    if m:
        return (f"VARCHAR({m.group(1)})",) * 2
    if s == "sa.String(length=None)":
        return ("VARCHAR", "VARCHAR")
    if s == "sa.Integer()":
        return ("INTEGER", "INTEGER")
    if s == "sa.DateTime()":
        return ("DATETIME", "TIMESTAMP")
    if s == "sa.Boolean()":
        return ("BOOLEAN", "BOOLEAN")
    if s == "sa.LargeBinary()":
        return ("BLOB", "BYTEA")
    if s == "DateTimeUTC(timezone=True)":
        return ("DATETIME", "TIMESTAMPTZ")
    if is_call(node, "sa.Enum"):
        k = kw(node, {"name"}, what)
        vals = [const_str(a, what) for a in node.args]
        if not vals or "name" not in k:
            fail(f"{what}: sa.Enum needs values and a name", node)
        return (f"VARCHAR({max(len(v) for v in vals)})", const_str(k["name"], what))
    fail(f"{what}: unrecognised column type {s!r}", node)


def sa_column(node, env, what):
    if not is_call(node, "sa.Column") or len(node.args) != 2:
        fail(f"{what}: expected sa.Column(name, type, nullable=...)", node)
    k = kw(node, {"nullable"}, what)
    if "nullable" not in k:
        fail(f"{what}: column without explicit nullable=", node)
    name = const_str(node.args[0], what)
    ty = sa_type(node.args[1], env, what)
    return name, ty, const_bool(k["nullable"], what)


def col_coq(name, ty, nullable):
    return f"{{| c_name := {q(name)}; c_type := {q(ty)}; c_null := {cbool(nullable)} |}}"


def emit_dialect(ops, guard, mk):
    """Append the operation(s) `mk(i)` (i = 0 sqlite types, 1 postgres types) under `guard`."""
    a, b = mk(0), mk(1)
    if a == b:
        ops.append((guard, a))
        return
    if guard == "Always":
        ops.append(("IfSqlite", a))
        ops.append(("IfPg", b))
    elif guard == "IfSqlite":
        ops.append((guard, a))
    elif guard in ("IfPg", "IfNotSqlite"):
        ops.append((guard, b))
    else:
        raise TranslateError(f"unsupported guard {guard}")


def index_name(node, fname, what):
    if is_call(node, fname, 1):
        return const_str(node.args[0], what)
    return const_str(node, what)


def execute_sql(call, what):
    """op.execute(<str or f-string>) -> normalised SQL text ({name} kept for f-string fields)."""
    if not is_call(call, "op.execute", 1):
        fail(f"{what}: expected op.execute(<sql>)", call)
    a = call.args[0]
    if isinstance(a, ast.Constant) and isinstance(a.value, str):
        return norm_sql(a.value)
    if isinstance(a, ast.JoinedStr):
        parts = []
        for v in a.values:
            if isinstance(v, ast.Constant):
                parts.append(v.value)
            elif isinstance(v, ast.FormattedValue) and isinstance(v.value, ast.Name) and v.conversion == -1 \
                    and v.format_spec is None:
                parts.append("{" + v.value.id + "}")
            else:
                fail(f"{what}: unsupported f-string field", a)
        return norm_sql("".join(parts))
    fail(f"{what}: SQL is not a literal", a)


class Upgrade:
    def __init__(self, rev, mod, pins):
        self.rev, self.mod, self.pins = rev, mod, pins
        self.ops = []          # (guard, coq op text)
        self.env = {}          # dialect-dependent type variables
        self.utc_variant = None
        self.backfill_pos = 0
        self.backfill = None
        self.got_pins = {}

    def what(self, node=None):
        return f"{self.rev}.upgrade"

    # -- statements ------------------------------------------------------------------
    def block(self, stmts, guard):
        i = 0
        while i < len(stmts):
            i = self.stmt(stmts, i, guard)

    def stmt(self, stmts, i, guard):
        s = stmts[i]
        w = self.what()
        if isinstance(s, ast.Pass):
            return i + 1
        if isinstance(s, ast.If):
            return self.if_stmt(stmts, i, guard)
        if isinstance(s, ast.With):
            self.batch(s, guard)
            return i + 1
        # session = Session(bind=op.get_bind()); try: ... finally: session.close()
        if isinstance(s, ast.Assign) and src(s) == "session = Session(bind=op.get_bind())":
            if i + 1 >= len(stmts) or not isinstance(stmts[i + 1], ast.Try):
                fail(f"{w}: session opened without the try/finally data migration", s)
            self.data_migration(stmts[i + 1], guard)
            return i + 2
        if isinstance(s, ast.Assign) and src(s) == "local_timezone = os.environ.get('REDUN_LOCALTIMEZONE', 'UTC')":
            return i + 1        # only interpolated into the pinned PostgreSQL trigger text
        if isinstance(s, ast.Expr) and isinstance(s.value, ast.Call):
            c = s.value
            f = src(c.func)
            if f == "op.create_table":
                self.create_table(c, guard)
            elif f == "op.create_index":
                self.create_index(c, guard)
            elif f == "op.alter_column":
                self.alter_column_type(c, guard)
            elif f == "op.execute":
                self.execute(c, guard)
            else:
                fail(f"{w}: unrecognised call {f}", s)
            return i + 1
        fail(f"{w}: unrecognised statement {src(s)[:80]!r}", s)

    def if_stmt(self, stmts, i, guard):
        s = stmts[i]
        w = self.what()
        t = src(s.test)
        if t == "context.is_offline_mode()":
            if len(s.body) != 1 or src(s.body[0]) != "return" or s.orelse:
                fail(f"{w}: unexpected offline-mode branch", s)
            return i + 1       # offline (SQL script) mode is outside the property: no database is upgraded
        if t not in DIALECT_TEST:
            fail(f"{w}: unrecognised condition {t!r}", s)
        if guard != "Always":
            fail(f"{w}: nested dialect tests", s)
        g = DIALECT_TEST[t]
        # type-variable selection: if pg: json_type = X else: json_type = Y
        if len(s.body) == 1 and isinstance(s.body[0], ast.Assign) and len(s.orelse) == 1 \
                and isinstance(s.orelse[0], ast.Assign) and g == "IfPg":
            a, b = s.body[0], s.orelse[0]
            if src(a.targets[0]) != src(b.targets[0]) or not isinstance(a.targets[0], ast.Name):
                fail(f"{w}: unexpected dialect assignment", s)
            tys = {"sa.dialects.postgresql.JSONB": "JSONB", "sa.String": "VARCHAR"}
            if src(a.value) not in tys or src(b.value) not in tys:
                fail(f"{w}: unrecognised dialect type {src(a.value)} / {src(b.value)}", s)
            self.env[a.targets[0].id] = (tys[src(b.value)], tys[src(a.value)])
            return i + 1
        self.block(s.body, g)
        rest = s.orelse
        if rest:
            if len(rest) == 1 and isinstance(rest[0], ast.If) and src(rest[0].test) in DIALECT_TEST:
                g2 = DIALECT_TEST[src(rest[0].test)]
                if {g, g2} != {"IfPg", "IfSqlite"} or rest[0].orelse:
                    fail(f"{w}: unsupported dialect elif chain", s)
                self.block(rest[0].body, g2)
            else:
                fail(f"{w}: dialect test with a bare else branch", s)
        return i + 1

    # -- alembic calls ----------------------------------------------------------------
    def create_table(self, c, guard):
        w = f"{self.rev}: create_table"
        if c.keywords or not c.args:
            fail(f"{w}: unexpected arguments", c)
        t = const_str(c.args[0], w)
        cols = []
        for a in c.args[1:]:
            f = src(a.func) if isinstance(a, ast.Call) else None
            if f == "sa.Column":
                cols.append(sa_column(a, self.env, w))
            elif f == "sa.ForeignKeyConstraint":
                if len(a.args) != 2 or a.keywords:
                    fail(f"{w}: unexpected ForeignKeyConstraint", a)
                for x in str_list(a.args[0], w):
                    if x not in [n for n, _, _ in cols]:
                        fail(f"{w}: foreign key on unknown column {x}", a)
            elif f == "sa.PrimaryKeyConstraint":
                if a.keywords:
                    fail(f"{w}: unexpected PrimaryKeyConstraint", a)
                for x in a.args:
                    n = const_str(x, w)
                    hit = [cc for cc in cols if cc[0] == n]
                    if not hit or hit[0][2]:
                        fail(f"{w}: primary key column {n} unknown or nullable", a)
            else:
                fail(f"{w}: unrecognised table item {src(a)[:60]!r}", a)
        emit_dialect(self.ops, guard, lambda i: "CreateTable " + q(t) + " [" + "; ".join(
            col_coq(n, ty[i], nl) for n, ty, nl in cols) + "]")

    def create_index(self, c, guard, table=None, fname="op.f"):
        w = f"{self.rev}: create_index"
        k = kw(c, {"unique", "postgresql_ops", "postgresql_where", "sqlite_where"}, w)
        args = list(c.args)
        if table is None:
            if len(args) != 3:
                fail(f"{w}: expected (name, table, columns)", c)
            name, table, cols = index_name(args[0], fname, w), const_str(args[1], w), str_list(args[2], w)
        else:
            if len(args) != 2:
                fail(f"{w}: expected (name, columns)", c)
            name, cols = index_name(args[0], fname, w), str_list(args[1], w)
        if "unique" not in k:
            fail(f"{w}: index without explicit unique=", c)
        uniq = const_bool(k["unique"], w)
        if ("postgresql_where" in k) != ("sqlite_where" in k):
            fail(f"{w}: partial index on one dialect only", c)
        self.ops.append((guard, f"CreateIndex {{| i_name := {q(name)}; i_table := {q(table)}; "
                                f"i_cols := [{'; '.join(q(x) for x in cols)}]; i_unique := {cbool(uniq)} |}}"))

    def alter_column_type(self, c, guard):
        w = f"{self.rev}: alter_column"
        k = kw(c, {"existing_type", "type_"}, w)
        if len(c.args) != 2 or set(k) != {"existing_type", "type_"}:
            fail(f"{w}: expected (table, column, existing_type=, type_=)", c)
        t, col = const_str(c.args[0], w), const_str(c.args[1], w)
        sa_type(k["existing_type"], self.env, w)
        ty = sa_type(k["type_"], self.env, w)
        if guard == "Always":
            fail(f"{w}: a type change outside a dialect test is not modelled for SQLite", c)
        emit_dialect(self.ops, guard, lambda i: f"AlterType {q(t)} {q(col)} {q(ty[i])}")

    def batch(self, s, guard):
        w = f"{self.rev}: batch_alter_table"
        if len(s.items) != 1 or src(s.items[0].optional_vars) != "batch_op":
            fail(f"{w}: unexpected with statement", s)
        c = s.items[0].context_expr
        if not is_call(c, "op.batch_alter_table") or len(c.args) != 1:
            fail(f"{w}: unexpected context manager", s)
        k = kw(c, {"schema"}, w)
        if "schema" in k and src(k["schema"]) != "None":
            fail(f"{w}: schema= given", s)
        t = const_str(c.args[0], w)
        for b in s.body:
            if not (isinstance(b, ast.Expr) and isinstance(b.value, ast.Call)):
                fail(f"{w}: unrecognised statement {src(b)[:60]!r}", b)
            cc = b.value
            f = src(cc.func)
            if f == "batch_op.add_column":
                if len(cc.args) != 1 or cc.keywords:
                    fail(f"{w}: add_column arguments", cc)
                n, ty, nl = sa_column(cc.args[0], self.env, w)
                emit_dialect(self.ops, guard, lambda i: f"AddColumn {q(t)} {col_coq(n, ty[i], nl)}")
            elif f == "batch_op.create_index":
                self.create_index(cc, guard, table=t, fname="batch_op.f")
            elif f == "batch_op.create_foreign_key":
                kk = kw(cc, {"deferrable", "initially"}, w)
                if len(cc.args) != 4:
                    fail(f"{w}: create_foreign_key arguments", cc)
                name, rt = const_str(cc.args[0], w), const_str(cc.args[1], w)
                str_list(cc.args[2], w), str_list(cc.args[3], w)
                self.ops.append((guard, f"CreateFK {q(name)} {q(t)} {q(rt)}"))
            elif f == "batch_op.alter_column":
                kk = kw(cc, {"existing_type", "nullable"}, w)
                if len(cc.args) != 1 or "nullable" not in kk:
                    fail(f"{w}: only alter_column(col, existing_type=, nullable=) is modelled", cc)
                if "existing_type" in kk:
                    sa_type(kk["existing_type"], self.env, w)
                self.ops.append((guard, f"AlterNullable {q(t)} {q(const_str(cc.args[0], w))} "
                                        f"{cbool(const_bool(kk['nullable'], w))}"))
            else:
                fail(f"{w}: unrecognised batch operation {f}", cc)

    def execute(self, c, guard):
        w = f"{self.rev}: op.execute"
        sql = execute_sql(c, w)
        if sql == SQL_UTC_SHIPPED or sql == SQL_UTC_FIXED:
            if guard != "IfSqlite":
                fail(f"{w}: SQLite datetime() update outside the sqlite branch", c)
            v = "Truncating" if sql == SQL_UTC_SHIPPED else "KeepFraction"
            if self.utc_variant is not None:
                fail(f"{w}: job times converted twice", c)
            self.utc_variant = v
            self.ops.append((guard, f"JobTimesToUtc {v}"))
        elif sql == SQL_PG_UTC:
            if guard != "IfPg":
                fail(f"{w}: PostgreSQL DDL outside the postgresql branch", c)
            for t, col in (("job", "start_time"), ("job", "end_time"), ("call_node", "timestamp"),
                           ("redun_version", "timestamp")):
                self.ops.append((guard, f"PgTimestamptz {q(t)} {q(col)}"))
            self.ops.append((guard, 'SqlNoData "trigger check_job_utc"'))
        elif sql == SQL_PG_DEFERRABLE:
            if guard != "IfPg":
                fail(f"{w}: PostgreSQL DDL outside the postgresql branch", c)
            self.ops.append((guard, 'SqlNoData "execution_job_id_fkey deferrable"'))
        elif self.backfill_pos < len(BACKFILL_SEQ) and sql == BACKFILL_SEQ[self.backfill_pos]:
            if guard != "Always":
                fail(f"{w}: execution_id back-fill under a dialect test", c)
            if sql == SQL_EXEC_UPDATE:
                self.ops.append((guard, "BackfillExecutionId"))
            else:
                self.ops.append((guard, f"SqlNoData {q('tmp_ancestors step %d' % self.backfill_pos)}"))
            self.backfill_pos += 1
        else:
            fail(f"{w}: unknown SQL text {sql[:100]!r}", c)

    # -- hand-modelled python data migrations, pinned ----------------------------------------
    def data_migration(self, tr, guard):
        w = f"{self.rev}: data migration"
        if guard != "Always":
            fail(f"{w}: under a dialect test", tr)
        if tr.handlers or tr.orelse or [src(x) for x in tr.finalbody] != ["session.close()"]:
            fail(f"{w}: expected try/finally session.close()", tr)
        body = [src(x) for x in tr.body]
        if body == ["backfill_values_for_lonely_tasks(session)"]:
            lt, wm = self.backfill_variant()
            scripts = self.known_scripts()
            self.backfill = (lt, wm)
            self.ops.append((guard, f"BackfillTaskValues {lt} {wm} [" + "; ".join(q(x) for x in scripts) + "]"))
            return
        # stub executions: query + loop + commit, with the local Job/Execution classes
        self.pin_check(f"{self.rev}.stub_try", tr)
        self.pin_check(f"{self.rev}.Execution", find_class(self.mod, "Execution"))
        sqls = [n for n in ast.walk(tr) if is_call(n, "text", 1)]
        if len(sqls) != 1 or norm_sql(const_str(sqls[0].args[0], w)) != SQL_STUB_QUERY:
            fail(f"{w}: the root-jobs-without-execution query changed", tr)
        self.ops.append((guard, "StubExecutions"))

    # The two variant sites of the companion-value back-fill (Model/Migrate.v lonely_test, write_mode).
    LONELY_ANY = ["return session.query(db.Task).filter_by(value=None).all()"]
    LONELY_TYPED = [
        "task_values = session.query(db.Value.value_hash).filter(db.Value.type == Task.type_name).subquery()",
        "return session.query(db.Task).outerjoin(task_values, task_values.c.value_hash == db.Task.hash)"
        ".filter(task_values.c.value_hash.is_(None)).all()"]

    def backfill_variant(self):
        w = f"{self.rev}: companion-value back-fill"
        # (1) which tasks are lonely
        fn = find_func(self.mod, "get_lonely_tasks")
        if [a.arg for a in fn.args.args] != ["session"] or fn.decorator_list:
            fail(f"{w}: get_lonely_tasks signature", fn)
        body = [src(x) for x in body_nodoc(fn)]
        if body == self.LONELY_ANY:
            lt = "AnyValue"
        elif body == self.LONELY_TYPED:
            lt = "TypedValue"
        else:
            fail(f"{w}: get_lonely_tasks is neither `filter_by(value=None)` nor the anti-join against Task-typed values", fn)
        # (2) how the rows are written: the function with the write call and the commit test normalised, pinned
        import copy
        fn = copy.deepcopy(find_func(self.mod, "backfill_values_for_lonely_tasks"))
        writes = [n for n in ast.walk(fn) if isinstance(n, ast.Call) and src(n.func) in ("session.add", "session.merge")]
        if len(writes) != 1:
            fail(f"{w}: expected exactly one session.add / session.merge call", fn)
        mode = src(writes[0].func)
        writes[0].func = ast.Name(id="WRITE", ctx=ast.Load())
        last = fn.body[-1]
        if not isinstance(last, ast.If) or last.orelse or [src(x) for x in last.body] != ["session.commit()"]:
            fail(f"{w}: expected a final `if ...: session.commit()`", fn)
        test = src(last.test)
        if test not in ("session.new", "session.new or session.dirty"):
            fail(f"{w}: unrecognised commit condition {test!r}", last)
        last.test = ast.Name(id="COMMIT_TEST", ctx=ast.Load())
        if mode == "session.merge" and test == "session.new":
            fail(f"{w}: session.merge with a commit on session.new only (merged rows would be rolled back): not modelled", last)
        self.pin_check(f"{self.rev}.backfill_values_for_lonely_tasks", fn)
        return lt, ("AddRow" if mode == "session.add" else "MergeRow")

    def known_scripts(self):
        fn = find_func(self.mod, "guess_is_script")
        b = body_nodoc(fn)
        if len(b) != 2 or not isinstance(b[0], ast.Assign) or src(b[0].targets[0]) != "known_script_tasks" \
                or not isinstance(b[0].value, ast.Set) or src(b[1]) != "return task.fullname in known_script_tasks":
            fail(f"{self.rev}: guess_is_script has an unexpected shape", fn)
        return sorted(const_str(e, "guess_is_script") for e in b[0].value.elts)

    def pin_check(self, name, node):
        got = pin(node)
        self.got_pins[name] = got
        if self.pins is not None:
            exp = self.pins.get(name)
            if got != exp:
                fail(f"{name}: shape changed (pin {got}, expected {exp}); the hand-written model of this data "
                     f"migration is no longer known to match", node)


def module_header(mod, fname):
    rev = const_str(find_assign(mod, "revision"), fname)
    down = find_assign(mod, "down_revision")
    if isinstance(down, ast.Constant) and down.value is None:
        down = ""
    else:
        down = const_str(down, fname)
    for n in ("branch_labels", "depends_on"):
        v = find_assign(mod, n)
        if not (isinstance(v, ast.Constant) and v.value is None):
            fail(f"{fname}: {n} is not None (branching histories are not modelled)", v)
    if not fname.startswith(rev + "_"):
        fail(f"{fname}: file name does not start with its revision id {rev}")
    return rev, down


def db_versions(init_mod):
    """REDUN_DB_VERSIONS / MIN / MAX from redun/backends/db/__init__.py."""
    def info(node, what):
        if not is_call(node, "DBVersionInfo", 4):
            fail(f"{what}: expected DBVersionInfo(id, major, minor, descr)", node)
        a = node.args
        if not all(isinstance(x, ast.Constant) for x in a[:3]) or not isinstance(a[1].value, int) \
                or not isinstance(a[2].value, int) or not isinstance(a[0].value, str):
            fail(f"{what}: non-literal version info", node)
        return a[0].value, a[1].value, a[2].value
    lst = find_assign(init_mod, "REDUN_DB_VERSIONS")
    if not isinstance(lst, ast.List):
        fail("REDUN_DB_VERSIONS is not a list literal", lst)
    vs = [info(e, "REDUN_DB_VERSIONS") for e in lst.elts]
    for n in ast.walk(init_mod):
        if isinstance(n, (ast.Attribute, ast.Subscript)) and isinstance(n.ctx, (ast.Store, ast.Del)) \
                and src(n.value) == "REDUN_DB_VERSIONS":
            fail("REDUN_DB_VERSIONS is mutated", n)
        if is_call(n) and src(n.func).startswith("REDUN_DB_VERSIONS."):
            fail("REDUN_DB_VERSIONS is mutated through a method call", n)
    vmin = info(find_assign(init_mod, "REDUN_DB_MIN_VERSION"), "REDUN_DB_MIN_VERSION")
    vmax = info(find_assign(init_mod, "REDUN_DB_MAX_VERSION"), "REDUN_DB_MAX_VERSION")
    keys = [(a, b) for _, a, b in vs]
    if keys != sorted(keys) or len(set(keys)) != len(keys):
        fail("REDUN_DB_VERSIONS is not strictly increasing in (major, minor)")
    return vs, vmin[1:], vmax[1:]


# functions of the library that are hand-modelled (Model/Migrate.v: upgrade, compatible) or that the
# data migrations rely on; pinned by shape
LIB_PINS = [
    (DB_INIT, "RedunBackendDb", "migrate"), (DB_INIT, "RedunBackendDb", "load"),
    (DB_INIT, "RedunBackendDb", "get_db_version"), (DB_INIT, "RedunBackendDb", "is_db_compatible"),
    (DB_INIT, None, "with_defer_constraints"), (DB_INIT, "Task", "fullname"),
    ("redun/backends/db/alembic/env.py", None, "run_migrations_online"),
    ("redun/backends/db/alembic/env.py", None, "run_migrations"),
    ("redun/task.py", "Task", "_validate"),
]


def translate(pins: dict | None = None):
    """Returns (coq text, got_pins, info). info: variant, revisions."""
    vdir = astutil.REPO / VERSIONS_DIR
    files = sorted(p for p in vdir.glob("*.py") if p.name != "__init__.py")
    if not files:
        fail("no migration files found")
    got = {}
    migs = {}
    variant = None
    backfill = None
    for p in files:
        mod = load(f"{VERSIONS_DIR}/{p.name}")
        rev, down = module_header(mod, p.name)
        if rev in migs:
            fail(f"duplicate revision {rev}")
        up = Upgrade(rev, mod, pins)
        fn = find_func(mod, "upgrade")
        if fn.args.args or fn.decorator_list:
            fail(f"{rev}.upgrade: unexpected signature", fn)
        up.block(body_nodoc(fn), "Always")
        if up.backfill_pos not in (0, len(BACKFILL_SEQ)):
            fail(f"{rev}: incomplete execution_id back-fill sequence ({up.backfill_pos} of {len(BACKFILL_SEQ)} statements)")
        if up.utc_variant:
            variant = up.utc_variant
        if up.backfill:
            backfill = up.backfill
        got.update(up.got_pins)
        migs[rev] = (down, up.ops)
    # linear chain
    roots = [r for r, (d, _) in migs.items() if d == ""]
    if len(roots) != 1:
        fail(f"expected exactly one root revision, got {roots}")
    order = [roots[0]]
    while True:
        nxt = [r for r, (d, _) in migs.items() if d == order[-1]]
        if len(nxt) > 1:
            fail(f"revision {order[-1]} has several successors {nxt}")
        if not nxt:
            break
        order.append(nxt[0])
    if len(order) != len(migs):
        fail(f"revision chain is not linear: reached {order}, files {sorted(migs)}")
    init_mod = load(DB_INIT)
    vs, vmin, vmax = db_versions(init_mod)
    if [v[0] for v in vs] != order:
        fail(f"REDUN_DB_VERSIONS {[v[0] for v in vs]} differs from the alembic chain {order}")
    if variant is None:
        fail("no migration converts job times to UTC on SQLite (unknown variant)")
    if backfill is None:
        fail("no migration back-fills the companion Task values (unknown variant)")
    tv = find_assign(find_class(init_mod, "Task"), "value")      # filter_by(value=None) is this relationship
    got["db.Task.value"] = pin(tv)
    if pins is not None and pins.get("db.Task.value") != got["db.Task.value"]:
        fail(f"db.Task.value: shape changed (pin {got['db.Task.value']}, expected {pins.get('db.Task.value')})", tv)
    for rel, cls, name in LIB_PINS:
        node = find_func(load(rel), name, cls)
        key = f"{Path(rel).stem if Path(rel).stem != '__init__' else 'db'}.{(cls + '.') if cls else ''}{name}"
        got[key] = pin(node)
        if pins is not None and pins.get(key) != got[key]:
            fail(f"{key}: shape changed (pin {got[key]}, expected {pins.get(key)}); hand-written model may no longer match", node)

    v = ["(* GENERATED by translate/tr_alembic.py from /repo/redun/backends/db/alembic/versions/*.py and",
         "   /repo/redun/backends/db/__init__.py -- do not edit *)",
         "From Coq Require Import List String ZArith Bool.",
         "From RV Require Import Model.Migrate Model.MigrateChain.",
         "Import ListNotations.", "Open Scope string_scope.", "Open Scope list_scope.", "",
         "Definition gen_chain : list migration := ["]
    items = []
    for r in order:
        down, ops = migs[r]
        body = ";\n      ".join(f"({g}, {o})" for g, o in ops)
        items.append(f"  {{| m_rev := {q(r)}; m_down := {q(down)}; m_ops := [\n      {body}] |}}")
    v.append(";\n".join(items))
    v.append("].")
    v.append("Definition gen_versions : versions := [" + "; ".join(
        f"({q(i)}, ({a}%Z, {b}%Z))" for i, a, b in vs) + "].")
    v.append(f"Definition gen_vmin : Z * Z := ({vmin[0]}%Z, {vmin[1]}%Z).")
    v.append(f"Definition gen_vmax : Z * Z := ({vmax[0]}%Z, {vmax[1]}%Z).")
    v.append("")
    lt, wm = backfill
    v.append(f"(* The theorems of Props/C36.v are about [chain_gen AnyValue AddRow v] (= [chain v]), [db_versions], [vmin], [vmax];")
    v.append(f"   this is the tie.  Other back-fill variants are modelled too (C36_backfill_typed_merge_refuted). *)")
    v.append(f"Lemma C36_tie : gen_chain = chain_gen {lt} {wm} {variant} /\\ gen_versions = db_versions /\\ gen_vmin = vmin /\\ gen_vmax = vmax.")
    v.append("Proof. repeat split; vm_compute; reflexivity. Qed.")
    return "\n".join(v) + "\n", got, {"variant": variant, "backfill": backfill, "revisions": order, "versions": vs}


if __name__ == "__main__":
    text, pins, info = translate()
    sys.stdout.write(text)
    print(json.dumps(pins, indent=1), file=sys.stderr)
    print(info["variant"], file=sys.stderr)
