"""Translator for the status code of redun/backends/db/query.py and redun/backends/db/__init__.py
-> coq/Gen/C33Gen.v  (fail closed).

Extracted (becomes the Coq record `gen : cfg` of Model/Status.v):
  * query.REDUN_ERROR_TYPE_NAME
  * CallGraphQuery._job_status_term: the if/elif chain status -> SQLAlchemy filter expression,
    translated into the closed term language (is_(None) / isnot(None) / is_(True|False) / == / != /
    & / | / ~ / sa.and_ / sa.or_ / sa.not_ over Job.end_time, Job.call_hash, Job.cached, Value.type)
  * CallGraphQuery.filter_execution_statuses: the `if "X" in job_statuses: job_statuses.append("Y")`
    widening; everything else in that function and filter_job_statuses must have the known text
  * CallGraphQuery._join_values: outerjoin / join kind of the CallNode and the Value join (the join
    conditions must be the known ones); _join_jobs must be the known inner join
  * Job.calc_status: the if/elif decision list;  Execution._job_status2exec_status: the status map
Pinned by shape (hand-modelled in Model/Status.v, tied by the correspondence run):
  CallGraphQuery.build / all / clone, Job.status, Execution.status, Execution.calc_status, the column and
  relationship definitions the model reads, RedunBackendDb.record_job_start / record_job_end.
"""
from __future__ import annotations

import ast
import sys

from .astutil import TranslateError, body_nodoc, fail, find_class, find_func, load, pin, src

QUERY = "redun/backends/db/query.py"
DB = "redun/backends/db/__init__.py"
STATUSES = ("RUNNING", "CACHED", "FAILED", "DONE")
COLS = {"Job.end_time": "JobEndTime", "Job.call_hash": "JobCallHash", "Job.cached": "JobCached",
        "Value.type": "ValueType"}

# what the unchanged tree translates to (only used to choose which tie lemma to emit; Coq re-checks it)
SHIPPED = {
    "err_name": "redun.ErrorValue",
    "terms": [("RUNNING", "TAnd (IsNull JobEndTime) (IsNull JobCallHash)"),
              ("CACHED", "IsBool JobCached true"),
              ("FAILED", 'EqStr ValueType "redun.ErrorValue"'),
              ("DONE", 'TAnd (IsBool JobCached false) (NeStr ValueType "redun.ErrorValue")')],
    "exec_extra": [("DONE", "CACHED")],
    "outer_cn": True, "outer_val": True,
    "calc_rules": [('CTypeIs "redun.ErrorValue"', "FAILED"), ("CEnded false", "RUNNING"), ("CCached true", "CACHED")],
    "calc_default": "DONE",
    "exec_none": "FAILED",
    "exec_map": [("CACHED", "DONE"), ("DONE", "DONE")],
}


def cq_string(s: str) -> str:
    if not all(32 <= ord(c) < 127 for c in s):
        fail(f"non-ASCII string constant {s!r}")
    return '"' + s.replace('"', '""') + '"'


def status_const(node, what):
    if not (isinstance(node, ast.Constant) and isinstance(node.value, str)):
        fail(f"{what}: expected a status string literal, got {src(node)!r}", node)
    if node.value not in STATUSES:
        fail(f"{what}: unknown status {node.value!r}", node)
    return node.value


class Ctx:
    def __init__(self, consts):
        self.consts = consts  # module-level string constants of query.py

    def string(self, node, what):
        if isinstance(node, ast.Constant) and isinstance(node.value, str):
            return node.value
        if isinstance(node, ast.Name) and node.id in self.consts:
            return self.consts[node.id]
        fail(f"{what}: expected a string literal or module string constant, got {src(node)!r}", node)

    def col(self, node, what):
        s = src(node)
        if s not in COLS:
            fail(f"{what}: unrecognised column {s!r}", node)
        return COLS[s]

    def term(self, node) -> str:
        """SQLAlchemy boolean expression -> Coq `term`."""
        if isinstance(node, ast.BinOp) and isinstance(node.op, (ast.BitAnd, ast.BitOr)):
            k = "TAnd" if isinstance(node.op, ast.BitAnd) else "TOr"
            return f"{k} ({self.term(node.left)}) ({self.term(node.right)})"
        if isinstance(node, ast.UnaryOp) and isinstance(node.op, ast.Invert):
            return f"TNot ({self.term(node.operand)})"
        if isinstance(node, ast.Compare) and len(node.ops) == 1 and isinstance(node.ops[0], (ast.Eq, ast.NotEq)):
            c = self.col(node.left, "comparison")
            s = self.string(node.comparators[0], "comparison")
            return f"{'EqStr' if isinstance(node.ops[0], ast.Eq) else 'NeStr'} {c} {cq_string(s)}"
        if isinstance(node, ast.Call) and not node.keywords:
            f = node.func
            if isinstance(f, ast.Attribute) and f.attr in ("is_", "isnot", "is_not") and len(node.args) == 1:
                c = self.col(f.value, f.attr)
                a = node.args[0]
                if not (isinstance(a, ast.Constant) and (a.value is None or isinstance(a.value, bool))):
                    fail(f"{f.attr}(...): expected None/True/False, got {src(a)!r}", a)
                if a.value is None:
                    return f"{'IsNull' if f.attr == 'is_' else 'IsNotNull'} {c}"
                if f.attr != "is_":
                    fail("isnot(True/False) is not in the recognised term language", node)
                return f"IsBool {c} {'true' if a.value else 'false'}"
            fs = src(f)
            if fs in ("sa.and_", "sa.or_", "and_", "or_") and len(node.args) >= 2:
                k = "TAnd" if fs.endswith("and_") else "TOr"
                out = self.term(node.args[0])
                for a in node.args[1:]:
                    out = f"{k} ({out}) ({self.term(a)})"
                return out
            if fs in ("sa.not_", "not_") and len(node.args) == 1:
                return f"TNot ({self.term(node.args[0])})"
        fail(f"unrecognised filter expression {src(node)!r}", node)


def if_chain(stmt):
    """[(test, body)], orelse  of an if/elif/else statement."""
    out = []
    node = stmt
    while True:
        out.append((node.test, node.body))
        if len(node.orelse) == 1 and isinstance(node.orelse[0], ast.If):
            node = node.orelse[0]
            continue
        return out, node.orelse


def tr_job_status_term(cls, ctx):
    fn = find_func(cls, "_job_status_term", None)
    if [a.arg for a in fn.args.args] != ["self", "status"]:
        fail("_job_status_term: signature changed", fn)
    body = body_nodoc(fn)
    if len(body) != 1 or not isinstance(body[0], ast.If):
        fail("_job_status_term: expected a single if/elif chain", fn)
    chain, orelse = if_chain(body[0])
    terms = []
    for test, b in chain:
        if not (isinstance(test, ast.Compare) and src(test.left) == "status" and len(test.ops) == 1
                and isinstance(test.ops[0], ast.Eq)):
            fail(f"_job_status_term: unrecognised test {src(test)!r}", test)
        st = status_const(test.comparators[0], "_job_status_term")
        if len(b) != 1 or not isinstance(b[0], ast.Return) or b[0].value is None:
            fail(f"_job_status_term: branch {st} is not a single return", test)
        if st in [s for s, _ in terms]:
            fail(f"_job_status_term: status {st} tested twice", test)
        terms.append((st, ctx.term(b[0].value)))
    if not (len(orelse) == 1 and isinstance(orelse[0], ast.Raise) and orelse[0].exc is not None
            and src(orelse[0].exc).startswith("NotImplementedError(")):
        fail("_job_status_term: final else must raise NotImplementedError", fn)
    # the tests are equalities with distinct constants: branch order is irrelevant, use the canonical one
    return sorted(terms, key=lambda p: STATUSES.index(p[0]))


def tr_filter_execution_statuses(cls):
    fn = find_func(cls, "filter_execution_statuses", None)
    body = body_nodoc(fn)
    texts = [src(s) for s in body]
    head = ["assert execution_statuses", "job_statuses = list(execution_statuses)"]
    tail = ["execution_clause = reduce(sa.or_, map(self._job_status_term, job_statuses))",
            "def filter(query):\n    return query.clone(executions=query._executions.filter(execution_clause))",
            "return self.clone(filter_types=self._filter_types & {'Execution'}, joins=self._joins | {'job', 'value'}, "
            "filters=self._filters + [filter], order_by='time')"]
    if texts[:2] != head or texts[-3:] != tail or len(body) < 5:
        fail("filter_execution_statuses: unexpected statements " + repr(texts), fn)
    extra = []
    for s in body[2:-3]:
        ok = (isinstance(s, ast.If) and not s.orelse and len(s.body) == 1
              and isinstance(s.test, ast.Compare) and len(s.test.ops) == 1 and isinstance(s.test.ops[0], ast.In)
              and src(s.test.comparators[0]) == "job_statuses"
              and isinstance(s.body[0], ast.Expr) and isinstance(s.body[0].value, ast.Call)
              and src(s.body[0].value.func) == "job_statuses.append" and len(s.body[0].value.args) == 1
              and not s.body[0].value.keywords)
        if not ok:
            fail(f"filter_execution_statuses: unrecognised statement {src(s)!r}", s)
        a = status_const(s.test.left, "filter_execution_statuses")
        b = status_const(s.body[0].value.args[0], "filter_execution_statuses")
        if extra:
            # a second widening would see the list already extended by the first; not modelled
            fail("filter_execution_statuses: more than one widening statement", s)
        extra.append((a, b))
    return extra


def tr_filter_job_statuses(cls):
    fn = find_func(cls, "filter_job_statuses", None)
    texts = [src(s) for s in body_nodoc(fn)]
    want = ["assert job_statuses",
            "job_clause = reduce(sa.or_, map(self._job_status_term, job_statuses))",
            "def filter(query):\n    return query.clone(jobs=query._jobs.filter(job_clause))",
            "return self.clone(filter_types=self._filter_types & {'Job'}, filters=self._filters + [filter], "
            "joins=self._joins | {'value'})"]
    if texts != want:
        fail("filter_job_statuses: unexpected statements " + repr(texts), fn)


def join_chain(node, base, what):
    """base.<j1>(CallNode, CallNode.call_hash == Job.call_hash).<j2>(Value, Value.value_hash == CallNode.value_hash)"""
    kinds = []
    want = [("Value", {"Value.value_hash == CallNode.value_hash", "CallNode.value_hash == Value.value_hash"}),
            ("CallNode", {"CallNode.call_hash == Job.call_hash", "Job.call_hash == CallNode.call_hash"})]
    for table, conds in want:
        if not (isinstance(node, ast.Call) and isinstance(node.func, ast.Attribute) and not node.keywords
                and node.func.attr in ("outerjoin", "join") and len(node.args) == 2
                and src(node.args[0]) == table and src(node.args[1]) in conds):
            fail(f"{what}: unrecognised join {src(node)!r}", node)
        kinds.append(node.func.attr == "outerjoin")
        node = node.func.value
    if src(node) != base:
        fail(f"{what}: joins start from {src(node)!r}, expected {base}", node)
    outer_val, outer_cn = kinds
    return outer_cn, outer_val


def tr_join_values(cls):
    fn = find_func(cls, "_join_values", None)
    body = body_nodoc(fn)
    if not (len(body) == 1 and isinstance(body[0], ast.Return) and isinstance(body[0].value, ast.Call)
            and src(body[0].value.func) == "self.clone" and not body[0].value.args):
        fail("_join_values: expected `return self.clone(executions=..., jobs=...)`", fn)
    kws = {k.arg: k.value for k in body[0].value.keywords}
    if set(kws) != {"executions", "jobs"}:
        fail(f"_join_values: unexpected clone keywords {sorted(kws)}", fn)
    je = join_chain(kws["executions"], "self._executions", "_join_values(executions)")
    jj = join_chain(kws["jobs"], "self._jobs", "_join_values(jobs)")
    if je != jj:
        fail("_join_values: executions and jobs are joined differently (not modelled)", fn)
    return jj


def tr_join_jobs(cls):
    fn = find_func(cls, "_join_jobs", None)
    texts = [src(s) for s in body_nodoc(fn)]
    if texts not in (["return self.clone(executions=self._executions.join(Job, Job.id == Execution.job_id))"],
                     ["return self.clone(executions=self._executions.join(Job, Execution.job_id == Job.id))"]):
        fail("_join_jobs: unexpected body " + repr(texts), fn)


def tr_calc_status(cls):
    fn = find_func(cls, "calc_status", None)
    if [a.arg for a in fn.args.args] != ["self", "result_type"]:
        fail("Job.calc_status: signature changed", fn)
    body = body_nodoc(fn)
    if not (len(body) == 2 and isinstance(body[0], ast.If) and src(body[1]) == "return self._status"):
        fail("Job.calc_status: expected an if/elif chain followed by `return self._status`", fn)
    chain, orelse = if_chain(body[0])

    def assigned(b, where):
        if not (len(b) == 1 and isinstance(b[0], ast.Assign) and len(b[0].targets) == 1
                and src(b[0].targets[0]) == "self._status"):
            fail(f"Job.calc_status: branch {where} is not `self._status = <status>`", fn)
        return status_const(b[0].value, "Job.calc_status")

    attrs = {"self.end_time": "CEnded", "self.cached": "CCached", "self.call_hash": "CHasCall"}
    rules = []
    for test, b in chain:
        t = test
        if isinstance(t, ast.Compare) and src(t.left) == "result_type" and len(t.ops) == 1 \
                and isinstance(t.ops[0], (ast.Eq, ast.NotEq)) and isinstance(t.comparators[0], ast.Constant) \
                and isinstance(t.comparators[0].value, str):
            k = ("CTypeIs " if isinstance(t.ops[0], ast.Eq) else "CTypeIsNot ") + cq_string(t.comparators[0].value)
        elif isinstance(t, ast.UnaryOp) and isinstance(t.op, ast.Not) and src(t.operand) in attrs:
            k = attrs[src(t.operand)] + " false"
        elif src(t) in attrs:
            k = attrs[src(t)] + " true"
        else:
            fail(f"Job.calc_status: unrecognised test {src(t)!r}", t)
        rules.append((k, assigned(b, src(t))))
    if not orelse:
        fail("Job.calc_status: no final else", fn)
    return rules, assigned(orelse, "else")


def tr_job_status2exec(cls):
    fn = find_func(cls, "_job_status2exec_status", None)
    if [a.arg for a in fn.args.args] != ["self", "job_status"]:
        fail("_job_status2exec_status: signature changed", fn)
    body = body_nodoc(fn)
    if len(body) != 1 or not isinstance(body[0], ast.If):
        fail("_job_status2exec_status: expected a single if/elif chain", fn)
    chain, orelse = if_chain(body[0])
    if [src(s) for s in orelse] != ["return job_status"]:
        fail("_job_status2exec_status: final else must be `return job_status`", fn)

    def ret(b):
        if not (len(b) == 1 and isinstance(b[0], ast.Return) and b[0].value is not None):
            fail("_job_status2exec_status: branch is not a single return", fn)
        return status_const(b[0].value, "_job_status2exec_status")

    test0, b0 = chain[0]
    if src(test0) != "job_status is None":
        fail("_job_status2exec_status: first test must be `job_status is None`", test0)
    none = ret(b0)
    mp = []
    for test, b in chain[1:]:
        if isinstance(test, ast.Compare) and src(test.left) == "job_status" and len(test.ops) == 1:
            if isinstance(test.ops[0], ast.In) and isinstance(test.comparators[0], (ast.Set, ast.Tuple, ast.List)):
                keys = [status_const(e, "_job_status2exec_status") for e in test.comparators[0].elts]
            elif isinstance(test.ops[0], ast.Eq):
                keys = [status_const(test.comparators[0], "_job_status2exec_status")]
            else:
                fail(f"_job_status2exec_status: unrecognised test {src(test)!r}", test)
        else:
            fail(f"_job_status2exec_status: unrecognised test {src(test)!r}", test)
        r = ret(b)
        for k in keys:
            if k not in [x for x, _ in mp]:
                mp.append((k, r))
    # keys are distinct statuses (first branch wins above): the map is a function, use the canonical order
    return none, sorted(mp, key=lambda p: STATUSES.index(p[0]))


def class_assign(cls, name):
    for n in cls.body:
        if isinstance(n, ast.Assign) and len(n.targets) == 1 and isinstance(n.targets[0], ast.Name) \
                and n.targets[0].id == name:
            return n.value
    fail(f"{cls.name}.{name}: assignment not found")


def collect_pins(qmod, dmod):
    q = find_class(qmod, "CallGraphQuery")
    job, execution, cn, val = (find_class(dmod, n) for n in ("Job", "Execution", "CallNode", "Value"))
    backend = find_class(dmod, "RedunBackendDb")
    pins = {}
    for name in ("build", "all", "clone"):
        pins[f"CallGraphQuery.{name}"] = pin(find_func(q, name, None))
    for cls, name in ((job, "status"), (job, "_load"), (execution, "status"), (execution, "calc_status"),
                      (execution, "_load"), (backend, "record_job_start"), (backend, "record_job_end")):
        pins[f"{cls.name}.{name}"] = pin(find_func(cls, name, None))
    for cls, name in ((job, "id"), (job, "end_time"), (job, "cached"), (job, "call_hash"), (job, "call_node"),
                      (cn, "call_hash"), (cn, "value_hash"), (cn, "value"), (val, "value_hash"), (val, "type"),
                      (execution, "id"), (execution, "job_id"), (execution, "job")):
        pins[f"{cls.name}.{name}="] = pin(class_assign(cls, name))
    return pins


def extract(qsource=None, dsource=None):
    qmod = load(QUERY, qsource)
    dmod = load(DB, dsource)
    consts = {}
    for n in qmod.body:
        if isinstance(n, ast.Assign) and len(n.targets) == 1 and isinstance(n.targets[0], ast.Name) \
                and isinstance(n.value, ast.Constant) and isinstance(n.value.value, str):
            consts[n.targets[0].id] = n.value.value
    if "REDUN_ERROR_TYPE_NAME" not in consts:
        fail("query.REDUN_ERROR_TYPE_NAME is not a module-level string constant")
    # the constant must be bound exactly once (the module-level assignment)
    stores = [n for n in ast.walk(qmod) if isinstance(n, ast.Name) and n.id == "REDUN_ERROR_TYPE_NAME"
              and isinstance(n.ctx, (ast.Store, ast.Del))]
    if len(stores) != 1:
        fail("REDUN_ERROR_TYPE_NAME is bound more than once")
    ctx = Ctx(consts)
    q = find_class(qmod, "CallGraphQuery")
    job = find_class(dmod, "Job")
    execution = find_class(dmod, "Execution")
    cfg = {"err_name": consts["REDUN_ERROR_TYPE_NAME"]}
    cfg["terms"] = tr_job_status_term(q, ctx)
    cfg["exec_extra"] = tr_filter_execution_statuses(q)
    tr_filter_job_statuses(q)
    cfg["outer_cn"], cfg["outer_val"] = tr_join_values(q)
    tr_join_jobs(q)
    cfg["calc_rules"], cfg["calc_default"] = tr_calc_status(job)
    cfg["exec_none"], cfg["exec_map"] = tr_job_status2exec(execution)
    return cfg, collect_pins(qmod, dmod)


def cq_cfg(cfg) -> str:
    b = lambda x: "true" if x else "false"  # noqa: E731
    pairs = lambda l: "[" + "; ".join(f"({a}, {c})" for a, c in l) + "]"  # noqa: E731
    return ("{|\n"
            f"  err_name := {cq_string(cfg['err_name'])};\n"
            f"  terms := {pairs(cfg['terms'])};\n"
            f"  exec_extra := {pairs(cfg['exec_extra'])};\n"
            f"  outer_cn := {b(cfg['outer_cn'])};\n"
            f"  outer_val := {b(cfg['outer_val'])};\n"
            f"  calc_rules := {pairs(cfg['calc_rules'])};\n"
            f"  calc_default := {cfg['calc_default']};\n"
            f"  exec_none := {cfg['exec_none']};\n"
            f"  exec_map := {pairs(cfg['exec_map'])}\n"
            "|}")


def translate(qsource=None, dsource=None, pins: dict | None = None):
    """Returns (Gen/C33Gen.v text, Gen/C33Tie.v text, variant, pins).  variant: 'shipped' (the configuration is the one the
    _refuted/_partial theorems are about) or 'checked' (anything else: the tie is the finite check
    cfg_ok, which makes the generic theorems apply)."""
    cfg, got = extract(qsource, dsource)
    if pins is not None:
        for name, exp in pins.items():
            if name not in got:
                fail(f"pin {name}: not computed by the translator")
            if got[name] != exp:
                fail(f"{name}: shape changed (pin {got[name]} != {exp}); the hand-written model of this "
                     f"function/definition is no longer known to match")
        for name in got:
            if name not in pins:
                fail(f"pin {name}: missing from pins_C33.json")
    variant = "shipped" if cfg == SHIPPED else "checked"
    g = ["(* GENERATED by translate/tr_status.py from /repo/redun/backends/db/query.py and "
         "/repo/redun/backends/db/__init__.py -- do not edit *)",
         "From Coq Require Import List String Bool NArith.",
         "From RV Require Import Model.Status.",
         "Import ListNotations.",
         "Open Scope string_scope.",
         "Definition gen : cfg := " + cq_cfg(cfg) + "."]
    v = ["(* GENERATED by translate/tr_status.py -- do not edit.  The tie between the regenerated",
         "   configuration (Gen/C33Gen.v) and the theorems of Props/C33.v. *)",
         "From Coq Require Import List String Bool NArith.",
         "From RV Require Import Model.Status Proofs.StatusFacts Props.C33 Gen.C33Gen.",
         "Import ListNotations."]
    if variant == "shipped":
        v += ["(* The current source is the shipped variant: C33_jobs_refuted, C33_jobs_shipped_partial and",
              "   C33_execs_shipped_partial of Props/C33.v are statements about this configuration. *)",
              "Lemma C33_tie : gen = shipped.",
              "Proof. reflexivity. Qed.",
              "Lemma C33_tie_violates : cfg_ok_jobs gen = false.",
              "Proof. vm_compute. reflexivity. Qed."]
    else:
        v += ["(* The current source is not the shipped variant: the finite row check must pass, which makes",
              "   the generic theorems C33_jobs_of_ok / C33_execs_of_ok apply to the regenerated configuration. *)",
              "Lemma C33_tie : cfg_ok gen = true.",
              "Proof. vm_compute. reflexivity. Qed.",
              "Theorem C33_jobs_gen : forall h d, run empty_db h = Some d -> forall s, jobs_agree gen d s.",
              "Proof. apply C33_jobs_of_ok. pose proof C33_tie as H. unfold cfg_ok in H. "
              "apply andb_prop in H. apply H. Qed.",
              "Theorem C33_execs_gen : forall h d, run empty_db h = Some d -> forall s, In s exec_status -> "
              "execs_agree gen d s.",
              "Proof. apply C33_execs_of_ok. pose proof C33_tie as H. unfold cfg_ok in H. "
              "apply andb_prop in H. apply H. Qed."]
    return "\n".join(g) + "\n", "\n".join(v) + "\n", variant, got


if __name__ == "__main__":
    import json
    if "--pins" in sys.argv:
        _, got = extract()
        print(json.dumps(got, indent=1))
    else:
        text, tie, variant, _ = translate()
        sys.stdout.write(text + tie)
        print("variant:", variant, file=sys.stderr)
