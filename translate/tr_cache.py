"""Translator for C02: the backend cache as the scheduler uses it -> coq/Gen/C02Gen.v (fail closed).

Extracted (structure, compared with the model by tie lemmas):
  * the final if/elif chain of Scheduler._get_cache (via tr_getcache.extract)    -> gen_chain = code_chain
  * whether the validity check looks inside a SimpleExpression
    (redun/expression.py: is_valid on SimpleExpression / ApplyExpression)        -> v_proj_valid
  * whether catch() consults and writes its private Evaluation entry
    (redun/scheduler.py catch: key, check_cache call, hit path, on_success/on_recover) -> v_catch_cache
  * the shape facts the model's keys rely on: hash_eval = H("Eval", task_hash, args_hash);
    TaskExpression._calc_hash names the task by task_name; done_job writes the row only when the job
    was not cached; Scheduler.set_cache -> backend.set_eval_cache; TaskExpression.is_valid /
    Task.is_valid shapes.
Pinned by shape (translate/pins_C02.json): RedunBackendDb.check_cache / get_eval_cache / set_eval_cache,
Task._calc_hash, Task.__setstate__, Value.is_valid, File.is_valid, SchedulerExpression (class), the
statements of _get_cache before the chain, _is_valid_value, is_valid_nested, iter_nested_value(_children).
Anything else raises TranslateError.
"""
from __future__ import annotations

import ast
import json
import sys
from pathlib import Path

from . import tr_getcache
from .astutil import TranslateError, body_nodoc, fail, find_class, find_func, load, pin, src

ARGS_VALID = ("all((not isinstance(value, Value) or value.is_valid() for value in "
              "iter_nested_value((self.args, self.kwargs))))")
TASKEXPR_VALID = f"bool(get_task_registry().get(self.task_name)) and {ARGS_VALID}"


def _returns(fn):
    return [s for s in ast.walk(fn) if isinstance(s, ast.Return)]


def class_method(cls, name):
    for n in cls.body:
        if isinstance(n, (ast.FunctionDef, ast.AsyncFunctionDef)) and n.name == name:
            return n
    return None


# ------------------------------------------------------------------------------- expression.py
def extract_proj_valid(mod):
    """True iff a SimpleExpression validates the values in its arguments."""
    texpr = find_class(mod, "TaskExpression")
    tv = class_method(texpr, "is_valid")
    if tv is None:
        fail("TaskExpression.is_valid not found")
    rets = _returns(tv)
    if len(rets) != 1:
        fail("TaskExpression.is_valid: expected a single return", tv)
    got = src(rets[0].value)
    if got not in (TASKEXPR_VALID, f"bool(get_task_registry().get(self.task_name)) and super().is_valid()"):
        fail(f"TaskExpression.is_valid: unrecognised test {got!r}", tv)
    delegates = "super().is_valid()" in got
    found = {}
    for cname in ("Expression", "ApplyExpression", "SimpleExpression"):
        m = class_method(find_class(mod, cname), "is_valid")
        if m is not None:
            rets = _returns(m)
            if len(rets) != 1 or src(rets[0].value) != ARGS_VALID:
                fail(f"{cname}.is_valid: unrecognised shape", m)
            found[cname] = True
    if "Expression" in found:
        fail("Expression.is_valid is defined: not a recognised variant")
    if delegates and "ApplyExpression" not in found:
        fail("TaskExpression.is_valid delegates to super() but ApplyExpression.is_valid is not defined")
    # bases must be the known ones, so that a SimpleExpression inherits from ApplyExpression
    bases = {c: [src(b) for b in find_class(mod, c).bases] for c in ("ApplyExpression", "TaskExpression", "SimpleExpression", "SchedulerExpression")}
    want = {"ApplyExpression": ["Expression[Result]"], "TaskExpression": ["ApplyExpression[Result]"],
            "SimpleExpression": ["ApplyExpression[Result]"], "SchedulerExpression": ["TaskExpression[Result]"]}
    if bases != want:
        fail(f"expression class hierarchy changed: {bases}")
    return bool(found)


def check_taskexpr_hash(mod):
    fn = class_method(find_class(mod, "TaskExpression"), "_calc_hash")
    lists = [src(c.args[0]) for c in ast.walk(fn) if isinstance(c, ast.Call) and src(c.func) == "hash_struct" and c.args
             and isinstance(c.args[0], ast.List)]
    want = ["['TaskExpression', self.task_name, args_hash, options_hash]",
            "['TaskExpression', self.task_name, args_hash, options_hash, export_options_hash]"]
    if sorted(lists) != sorted(want):
        fail(f"TaskExpression._calc_hash: the hashed structure changed: {lists} (the model keys catch entries by task NAME)", fn)


# ------------------------------------------------------------------------------- scheduler.py catch
def _calls(node, attr):
    return [c for c in ast.walk(node) if isinstance(c, ast.Call) and isinstance(c.func, ast.Attribute) and c.func.attr == attr]


def extract_catch_cache(smod):
    fn = find_func(smod, "catch")
    body = body_nodoc(fn)
    inner = {n.name: n for n in body if isinstance(n, ast.FunctionDef)}
    if "promise_catch" not in inner:
        fail("catch: inner function promise_catch not found", fn)
    # promise_catch: evaluates recover(error) and (maybe) caches it, else re-raises
    pc = inner["promise_catch"]
    pc_rets = [src(r.value) for r in _returns(pc)]
    ev_rec = "scheduler.evaluate(recover_expr, parent_job=parent_job)"
    if pc_rets not in ([ev_rec + ".then(on_recover)"], [ev_rec]):
        fail(f"catch.promise_catch: unrecognised return {pc_rets}", pc)
    if not isinstance(pc.body[-1], ast.Raise) or src(pc.body[-1]) != "raise error":
        fail("catch.promise_catch: does not end with `raise error`", pc)
    if not any(isinstance(s, ast.Assign) and src(s) == "recover_expr = recover(error_expr)" for s in ast.walk(pc)):
        fail("catch.promise_catch: `recover_expr = recover(error_expr)` not found", pc)
    last = body[-1]
    if not isinstance(last, ast.Return):
        fail("catch: does not end with a return", fn)
    final = src(last.value)
    ev = "scheduler.evaluate(expr, parent_job=parent_job)"
    n_check = len(_calls(fn, "check_cache")) + len(_calls(fn, "get_eval_cache"))
    n_set = len(_calls(fn, "set_cache")) + len(_calls(fn, "set_eval_cache"))
    if n_check == 0 and n_set == 0:
        # no private entry at all
        if final not in (ev + ".catch(promise_catch)", ev + ".then(None, promise_catch)", ev + ".then(on_success, promise_catch)"):
            fail(f"catch (no cache variant): unrecognised final return {final!r}", last)
        if pc_rets != [ev_rec] and "on_recover" in inner and _calls(inner["on_recover"], "set_cache"):
            fail("catch: inconsistent", fn)
        return False
    # ---- the shipped shape
    if final != ev + ".then(on_success, promise_catch)":
        fail(f"catch: unrecognised final return {final!r}", last)
    if pc_rets != [ev_rec + ".then(on_recover)"]:
        fail("catch: promise_catch does not chain on_recover", pc)
    for name, val in (("on_success", "expr"), ("on_recover", "recover_expr")):
        if name not in inner:
            fail(f"catch: inner function {name} not found", fn)
        sc = [src(c) for c in _calls(inner[name], "set_cache")]
        if sc != [f"scheduler.set_cache(eval_hash, catch.hash, args_hash, {val})"]:
            fail(f"catch.{name}: unrecognised cache write {sc}", inner[name])
        if [src(r.value) for r in _returns(inner[name])] != ["result"]:
            fail(f"catch.{name}: does not return its argument", inner[name])
    stmts = [src(s) for s in body]
    key = "eval_hash, args_hash = hash_args_eval(scheduler.type_registry, catch, catch_args, {})"
    if "catch_args = (expr,) + catch_args" not in stmts or key not in stmts or \
            stmts.index("catch_args = (expr,) + catch_args") > stmts.index(key):
        fail("catch: the key is not hash_args_eval(type_registry, catch, (expr,) + catch_args, {})", fn)
    ifs = [s for s in body if isinstance(s, ast.If)]
    if len(ifs) != 1 or src(ifs[0].test) != "scheduler._use_cache and cache_scope != CacheScope.NONE" or ifs[0].orelse:
        fail("catch: unrecognised cache guard", fn)
    blk = ifs[0].body
    cc = _calls(ifs[0], "check_cache")
    if len(cc) != 1 or src(cc[0].func) != "scheduler.backend.check_cache" or cc[0].args:
        fail("catch: unrecognised check_cache call", ifs[0])
    kw = {k.arg: src(k.value) for k in cc[0].keywords}
    want = {"task_hash": "catch.hash", "args_hash": "args_hash", "eval_hash": "eval_hash",
            "execution_id": "parent_job.execution.id", "cache_scope": "cache_scope", "check_valid": "CacheCheckValid.FULL",
            "scheduler_task_hashes": "scheduler.task_registry.task_hashes", "allowed_cache_results": "{CacheResult.SINGLE}"}
    if kw != want:
        fail(f"catch: check_cache arguments changed: {kw}", cc[0])
    bind = [s for s in blk if isinstance(s, ast.Assign) and s.value is cc[0]]
    if len(bind) != 1 or src(bind[0].targets[0]) != "(cached_expr, call_hash, cache_type)":
        fail("catch: check_cache result is not bound to (cached_expr, call_hash, cache_type)", ifs[0])
    hit = [s for s in blk if isinstance(s, ast.If)]
    if len(hit) != 1 or src(hit[0].test) != "cache_type != CacheResult.MISS" or hit[0].orelse:
        fail("catch: unrecognised hit test", ifs[0])
    hb = hit[0].body
    if src(hb[-1]) != "return scheduler.evaluate(cached_expr, parent_job=parent_job).catch(promise_catch)":
        fail(f"catch: unrecognised hit path {src(hb[-1])!r}", hb[-1])
    for s in hb[:-1]:
        t = src(s)
        if t not in ("derive_expression(cached_expr, sexpr)", "expr = cached_expr"):
            fail(f"catch: unrecognised statement on the hit path: {t!r}", s)
    for s in blk:
        if s is not bind[0] and s is not hit[0] and src(s) != "assert parent_job.execution":
            fail(f"catch: unrecognised statement in the cache block: {src(s)[:80]!r}", s)
    return True


def check_done_job(smod):
    fn = find_func(smod, "_done_job_main_thread", "Scheduler")
    blocks = [s for s in body_nodoc(fn) if isinstance(s, ast.If) and src(s.test) == "not job.was_cached"]
    if len(blocks) != 1:
        fail("_done_job_main_thread: `if not job.was_cached:` block not found", fn)
    writes = [s for s in ast.walk(blocks[0]) if isinstance(s, ast.If) and src(s.test) == "job.recording_provenance()"
              and [src(x) for x in s.body] == ["self.set_cache(job.eval_hash, job.task.hash, job.args_hash, result)"]]
    if len(writes) != 1:
        fail("_done_job_main_thread: the cache write of a job that ran is not the recognised one", blocks[0])
    if len(_calls(fn, "set_cache")) != 1:
        fail("_done_job_main_thread: more than one cache write", fn)
    sc = find_func(smod, "set_cache", "Scheduler")
    if [src(s) for s in body_nodoc(sc)] != ["self.backend.set_eval_cache(eval_hash, task_hash, args_hash, value, value_hash=None)"]:
        fail("Scheduler.set_cache: unrecognised body", sc)


def check_hash_eval(hmod):
    fn = find_func(hmod, "hash_eval")
    stm = [src(s) for s in body_nodoc(fn)]
    if stm != ["args_hash = hash_arguments(type_registry, args, kwargs)",
               "return (hash_struct(['Eval', task_hash, args_hash]), args_hash)"]:
        fail(f"hash_eval: the key is no longer H('Eval', task_hash, args_hash): {stm}", fn)


def extract(sources: dict | None = None):
    sources = sources or {}
    smod = load("redun/scheduler.py", sources.get("redun/scheduler.py"))
    emod = load("redun/expression.py", sources.get("redun/expression.py"))
    hmod = load("redun/hashing.py", sources.get("redun/hashing.py"))
    bmod = load("redun/backends/db/__init__.py", sources.get("redun/backends/db/__init__.py"))
    tmod = load("redun/task.py", sources.get("redun/task.py"))
    vmod = load("redun/value.py", sources.get("redun/value.py"))
    fmod = load("redun/file.py", sources.get("redun/file.py"))
    chain, gpins = tr_getcache.extract(sources.get("redun/scheduler.py"))
    pv = extract_proj_valid(emod)
    check_taskexpr_hash(emod)
    cc = extract_catch_cache(smod)
    check_done_job(smod)
    check_hash_eval(hmod)
    tv = class_method(find_class(tmod, "Task"), "is_valid")
    if [src(r.value) for r in _returns(tv)] != ["self.hash == self._calc_hash()"]:
        fail("Task.is_valid: unrecognised shape", tv)
    pins = {k: v for k, v in gpins.items() if k in ("sched._get_cache.prefix", "sched._is_valid_value",
                                                    "value.TypeRegistry.is_valid", "value.TypeRegistry.is_valid_nested",
                                                    "value.Value.is_valid", "utils.iter_nested_value",
                                                    "utils.iter_nested_value_children")}
    pins["db.check_cache"] = pin(find_func(bmod, "check_cache", "RedunBackendDb"))
    pins["db.get_eval_cache"] = pin(find_func(bmod, "get_eval_cache", "RedunBackendDb"))
    pins["db.set_eval_cache"] = pin(find_func(bmod, "set_eval_cache", "RedunBackendDb"))
    pins["task.Task._calc_hash"] = pin(find_func(tmod, "_calc_hash", "Task"))
    pins["task.Task.__setstate__"] = pin(find_func(tmod, "__setstate__", "Task"))
    pins["file.File.is_valid"] = pin(find_func(fmod, "is_valid", "File"))
    pins["expression.SchedulerExpression"] = pin(find_class(emod, "SchedulerExpression"))
    pins["task.hash_args_eval"] = pin(find_func(tmod, "hash_args_eval"))
    return chain, pv, cc, pins


VARIANT_NAME = {(False, True): "shipped", (True, False): "fixed", (True, True): "proj_fixed_only", (False, False): "catch_off_only"}


def translate(sources: dict | None = None, pins: dict | None = None):
    chain, pv, cc, got = extract(sources)
    if pins is not None:
        for k, exp in pins.items():
            if k not in got:
                fail(f"pin {k} is no longer produced")
            if got[k] != exp:
                fail(f"{k}: shape changed (pin {got[k]} != {exp}); the hand-written model (Model/CacheHist.v) is no longer "
                     f"known to match; re-examine and re-pin")
    b = lambda x: "true" if x else "false"
    name = VARIANT_NAME[(pv, cc)]
    v = ["(* GENERATED by translate/tr_cache.py from /repo/redun/{scheduler,expression,hashing,task}.py -- do not edit *)",
         "From Coq Require Import List Arith Bool.",
         "From RV Require Import Model.CacheHist Proofs.CacheHistBase Proofs.CacheHistInv Props.C02.",
         "Import ListNotations.",
         "Definition gen_chain : gc_chain := [" + "; ".join(f"({t}, {o})" for t, o in chain) + "].",
         "Lemma C02_tie_chain : gen_chain = code_chain.\nProof. reflexivity. Qed.",
         f"Definition gen_variant : variant := mkVariant {b(pv)} {b(cc)}.",
         f"Lemma C02_tie_variant : gen_variant = {name}.\nProof. reflexivity. Qed."]
    if not pv or cc:
        v.append("(* the property is refuted for the variant the source is in *)")
        lem = "C02_refuted_catch" if cc else "C02_refuted_proj"
        v.append("Lemma C02_current_refuted : exists P ops, map fst (run_hist gen_variant gen_chain content_id P 30 h0 ops) <> "
                 "map fst (run_fresh gen_variant gen_chain content_id P 30 h0 ops).\n"
                 f"Proof. exact ({lem} gen_variant eq_refl). Qed.")
    else:
        v.append("(* the property holds for the variant the source is in *)")
        v.append("Lemma C02_current_holds : forall content (P : program) fuel ops, "
                 "map fst (run_hist gen_variant gen_chain content P fuel h0 ops) = map fst (run_fresh gen_variant gen_chain content P fuel h0 ops).\n"
                 "Proof. exact C02_holds_fixed. Qed.")
    if pv:
        v.append("Lemma C02_current_invariant : forall content (P : program) fuel ops h, InvC (lang_sem content P) (h_cache h) -> "
                 "InvC (lang_sem content P) (h_cache (fold_left (fun h o => fst (step gen_variant gen_chain content P fuel h o)) ops h)).\n"
                 "Proof. exact (C02_invariant_preserved gen_variant eq_refl). Qed.")
    return "\n".join(v) + "\n", (pv, cc), got


if __name__ == "__main__":
    text, variant, pins = translate()
    sys.stdout.write(text)
    print(json.dumps(pins, indent=1), file=sys.stderr)
