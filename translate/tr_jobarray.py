"""Translator for redun/job_array.py (JobArrayer) -> coq/Gen/C11Gen.v   (fail closed).

What is extracted from the *current* source:
  * for add_job, get_stale_descrs and submit_pending_jobs: the sequence of shared-state accesses of
    every path, each with the flag "inside `with self._lock`".  The statements are recognised from a
    closed table (STMT_EVENTS); any other statement raises TranslateError.
  * the model's `layout` (is the staleness comprehension under the lock; is the counter decrement
    under the lock).
The generated file states, and Coq checks by computation, that the model's own step function
(Model/Arrayer.v, probed thread by thread) performs exactly these access sequences, and instantiates
the theorems of Proofs/Arrayer*.v for the extracted layout.

Hand-modelled and pinned by shape (translate/pins_C11.json): JobArrayer.__init__, start, stop,
_monitor_stale_jobs, class JobDescription; in the three executors: the `_submit_jobs` / `_on_error`
callbacks and that `self.arrayer.add_job(job)` is called exactly once, inside `_submit`.
"""
from __future__ import annotations

import ast
import json
import sys
from pathlib import Path

from .astutil import TranslateError, body_nodoc, fail, find_class, find_func, load, pin, src

# labels of Model/Arrayer.v
ACQ, BLOCKED, PGET, TIME, TSSET, NGET, NSET, REL, ALIVE, SUBMIT, WAIT, ITER, NEXT, TSGET, PPOP, TSPOP, ONERR, EXIT = range(1, 19)

# statement (ast.unparse text) -> shared accesses it performs, in evaluation order
STMT_EVENTS = {
    "self.pending[descr].append(job)": [PGET],
    "self.pending_timestamps[descr] = time.time()": [TIME, TSSET],
    "self.num_pending += 1": [NGET, NSET],
    "self.start()": [ALIVE],
    "currtime = time.time()": [TIME],
    "jobs = self.pending.pop(descr)": [PPOP],
    "timestamp = self.pending_timestamps.pop(descr)": [TSPOP],
    "self._submit_jobs(jobs)": [SUBMIT],
    "self._submit_jobs([job])": [SUBMIT],
    "self.pending[descr].extend(remainder)": [PGET],
    "self.pending_timestamps[descr] = timestamp": [TSSET],
    "self.num_pending -= len(jobs)": [NGET, NSET],
    # thread-local statements
    "descr = JobDescription(job)": [],
    "remainder = jobs[self.max_array_size:]": [],
    "jobs = jobs[:self.max_array_size]": [],
    "return": [],
    "return stales": [],
}
COMPREHENSION = ("stales = [descr for descr in self.pending if currtime - self.pending_timestamps[descr] > "
                 "self.stale_time]")
PIN_FILE = Path(__file__).with_name("pins_C11.json")
EXECUTORS = {"redun/executors/aws_batch.py": "AWSBatchExecutor", "redun/executors/gcp_batch.py": "GCPBatchExecutor",
             "redun/executors/k8s.py": "K8SExecutor"}


def is_lock_with(s):
    return (isinstance(s, ast.With) and len(s.items) == 1 and s.items[0].optional_vars is None
            and src(s.items[0].context_expr) == "self._lock")


def simple_events(stmts, locked, what, n_iter=1):
    """events of a straight-line statement list: [(label, locked)]"""
    out = []
    for s in stmts:
        if is_lock_with(s):
            if locked:
                fail(f"{what}: nested `with self._lock` (threading.Lock is not re-entrant)", s)
            out.append((ACQ, False))
            out += simple_events(s.body, True, what, n_iter)
            out.append((REL, True))
            continue
        t = src(s)
        if t == COMPREHENSION:
            out.append((ITER, locked))
            for _ in range(n_iter):
                out += [(NEXT, locked), (TSGET, locked)]
            out.append((NEXT, locked))
            continue
        if t not in STMT_EVENTS:
            fail(f"{what}: statement not in the recognised set: {t!r}", s)
        out += [(e, locked) for e in STMT_EVENTS[t]]
    return out


def plain_method(fn, params, what):
    a = fn.args
    if [x.arg for x in a.args] != params or a.vararg or a.kwarg or a.kwonlyargs or a.posonlyargs or a.defaults \
            or fn.decorator_list:
        fail(f"{what}: signature changed", fn)
    return body_nodoc(fn)


def tr_add_job(fn):
    b = plain_method(fn, ["self", "job"], "add_job")
    if len(b) < 2 or not (isinstance(b[0], ast.If) and not b[0].orelse
                          and src(b[0].test) == "job.task.script or not self.min_array_size"
                          and [src(x) for x in b[0].body] == ["self._submit_jobs([job])", "return"]):
        fail("add_job: expected the direct-submission guard `if job.task.script or not self.min_array_size:` first", fn)
    direct = simple_events(b[0].body, False, "add_job")
    enq = simple_events(b[1:], False, "add_job")
    want = [(ACQ, False), (PGET, True), (TIME, True), (TSSET, True), (NGET, True), (NSET, True), (REL, True), (ALIVE, False)]
    if enq != want:
        fail(f"add_job: access sequence {enq} is not the modelled one {want}", fn)
    return direct, enq


def tr_get_stale(fn):
    b = plain_method(fn, ["self"], "get_stale_descrs")
    flat = []
    for s in b:
        flat += s.body if is_lock_with(s) else [s]
    if [src(x) for x in flat] != ["currtime = time.time()", COMPREHENSION, "return stales"]:
        fail("get_stale_descrs: statements changed", fn)
    ev = simple_events(b, False, "get_stale_descrs")
    locked = dict((e, l) for e, l in ev)
    if locked[TIME]:
        fail("get_stale_descrs: time.time() under the lock is not a modelled layout", fn)
    stale_locked = locked[ITER]
    return ev, stale_locked


def tr_submit(fn):
    b = plain_method(fn, ["self", "descr"], "submit_pending_jobs")
    if len(b) != 3 or not is_lock_with(b[0]) or not isinstance(b[1], ast.If):
        fail("submit_pending_jobs: expected `with self._lock: pop, pop`, the size branch, the counter update", fn)
    head = simple_events([b[0]], False, "submit_pending_jobs")
    if head != [(ACQ, False), (PPOP, True), (TSPOP, True), (REL, True)]:
        fail(f"submit_pending_jobs: first locked region performs {head}", b[0])
    i = b[1]
    if not (src(i.test) == "len(jobs) > self.max_array_size" and len(i.orelse) == 1 and isinstance(i.orelse[0], ast.If)
            and src(i.orelse[0].test) == "len(jobs) < self.min_array_size" and len(i.orelse[0].orelse) == 1):
        fail("submit_pending_jobs: size branch changed", i)
    big = simple_events(i.body, False, "submit_pending_jobs(big)")
    want_big = [(SUBMIT, False), (ACQ, False), (PGET, True), (TSSET, True), (REL, True)]
    if big != want_big or [src(x) for x in i.body[:3]] != ["remainder = jobs[self.max_array_size:]",
                                                           "jobs = jobs[:self.max_array_size]", "self._submit_jobs(jobs)"]:
        fail(f"submit_pending_jobs: the over-size branch performs {big}, modelled {want_big}", i)
    small = i.orelse[0].body
    if not (len(small) == 1 and isinstance(small[0], ast.For) and not small[0].orelse
            and src(small[0].target) == "job" and src(small[0].iter) == "jobs"
            and [src(x) for x in small[0].body] == ["self._submit_jobs([job])"]):
        fail("submit_pending_jobs: the under-size branch is not `for job in jobs: self._submit_jobs([job])`", i.orelse[0])
    mid = simple_events(i.orelse[0].orelse, False, "submit_pending_jobs(mid)")
    if mid != [(SUBMIT, False)]:
        fail("submit_pending_jobs: the array branch changed", i.orelse[0])
    tail = simple_events([b[2]], False, "submit_pending_jobs")
    if tail == [(NGET, False), (NSET, False)]:
        cnt_locked = False
    elif tail == [(ACQ, False), (NGET, True), (NSET, True), (REL, True)]:
        cnt_locked = True
    else:
        fail(f"submit_pending_jobs: counter update performs {tail}", b[2])
    return head, big, [(SUBMIT, False)], mid, tail, cnt_locked


def executor_pins(got):
    for rel, cls in EXECUTORS.items():
        mod = load(rel)
        c = find_class(mod, cls)
        short = rel.split("/")[-1][:-3]
        for m in ("_submit_jobs", "_on_error"):
            f = next((n for n in c.body if isinstance(n, ast.FunctionDef) and n.name == m), None)
            if f is None:
                fail(f"{rel}: {cls}.{m} not found")
            got[f"{short}.{m}"] = pin(f)
        calls = []
        for meth in c.body:
            if isinstance(meth, ast.FunctionDef):
                for n in ast.walk(meth):
                    if isinstance(n, ast.Call) and src(n.func) == "self.arrayer.add_job":
                        calls.append((meth.name, src(n)))
        if calls != [("_submit", "self.arrayer.add_job(job)")]:
            fail(f"{rel}: add_job call sites are {calls}; modelled: exactly one, in {cls}._submit (scheduler thread)")
        ctor = [n for n in ast.walk(c) if isinstance(n, ast.Call) and src(n.func) == "JobArrayer"]
        if len(ctor) != 1 or [src(a) for a in ctor[0].args] != ["self._submit_jobs", "self._on_error"]:
            fail(f"{rel}: JobArrayer(...) construction changed")


def cq_events(ev):
    return "[" + "; ".join(f"({l}, {'true' if k else 'false'})" for l, k in ev) + "]"


def translate(pins=None, source=None):
    mod = load("redun/job_array.py", source)
    cls = find_class(mod, "JobArrayer")
    direct, enq = tr_add_job(find_func(mod, "add_job", "JobArrayer"))
    stale_ev, stale_locked = tr_get_stale(find_func(mod, "get_stale_descrs", "JobArrayer"))
    head, big, single, mid, tail, cnt_locked = tr_submit(find_func(mod, "submit_pending_jobs", "JobArrayer"))
    # names the model relies on must be the real modules / class
    imports = [src(n) for n in mod.body if isinstance(n, (ast.Import, ast.ImportFrom))]
    for need in ("import threading", "import time", "from collections import defaultdict"):
        if need not in imports:
            fail(f"job_array.py: `{need}` missing")
    methods = sorted(n.name for n in cls.body if isinstance(n, ast.FunctionDef))
    if methods != sorted(["__init__", "_monitor_stale_jobs", "start", "stop", "add_job", "get_stale_descrs",
                          "submit_pending_jobs"]):
        fail(f"JobArrayer: method set changed: {methods}")
    got = {"job_array.JobDescription": pin(find_class(mod, "JobDescription")),
           "job_array.MAX_ARRAY_SIZE": src(next(n for n in mod.body if isinstance(n, ast.Assign)
                                                and src(n.targets[0]) == "MAX_ARRAY_SIZE").value)}
    for m in ("__init__", "_monitor_stale_jobs", "start", "stop"):
        got[f"job_array.JobArrayer.{m}"] = pin(find_func(mod, m, "JobArrayer"))
    if source is None:
        executor_pins(got)
    if pins is None:
        pins = json.loads(PIN_FILE.read_text()) if PIN_FILE.exists() else {}
    for k, v in got.items():
        if k not in pins:
            fail(f"no pin recorded for {k} (got {v})")
        if pins[k] != v:
            fail(f"{k}: shape changed (pin {v}, expected {pins[k]}); the hand-written model of it may no longer match")
    wait = [(WAIT, False)]
    pass_single = wait + stale_ev + head + single + tail
    pass_mid = wait + stale_ev + head + mid + tail
    pass_big = wait + stale_ev + head + big + tail
    b = lambda x: "true" if x else "false"
    lay = f"(mklayout {b(stale_locked)} {b(cnt_locked)})"
    name = {(False, False): "shipped", (True, True): "fixed"}.get((stale_locked, cnt_locked))
    text = f"""(** GENERATED by translate/tr_jobarray.py from redun/job_array.py — do not edit. *)
From Coq Require Import List ZArith Bool Arith.
From RV Require Import Model.Arrayer Proofs.ArrayerThms.
Import ListNotations.
Open Scope list_scope.

(** which of the two sites run under `self._lock` in the current source *)
Definition gen_layout : layout := {lay}.
{f"Lemma C11_tie_layout : gen_layout = {name}. Proof. reflexivity. Qed." if name else "(* a mixed layout: one site locked *)"}

(** shared accesses (label, inside the lock) of every path, read off the source *)
Definition gen_add_direct : list (nat * bool) := {cq_events(direct)}.
Definition gen_add_enqueue : list (nat * bool) := {cq_events(enq)}.
Definition gen_pass_single : list (nat * bool) := {cq_events(pass_single)}.
Definition gen_pass_array : list (nat * bool) := {cq_events(pass_mid)}.
Definition gen_pass_oversize : list (nat * bool) := {cq_events(pass_big)}.

(** the model's step function performs exactly these accesses *)
Lemma C11_tie_add_direct : probe_add gen_layout true = gen_add_direct. Proof. vm_compute. reflexivity. Qed.
Lemma C11_tie_add_enqueue : probe_add gen_layout false = gen_add_enqueue. Proof. vm_compute. reflexivity. Qed.
Lemma C11_tie_pass_single : probe_pass gen_layout 1 2 3 = gen_pass_single. Proof. vm_compute. reflexivity. Qed.
Lemma C11_tie_pass_array : probe_pass gen_layout 2 2 3 = gen_pass_array. Proof. vm_compute. reflexivity. Qed.
Lemma C11_tie_pass_oversize : probe_pass gen_layout 3 2 2 = gen_pass_oversize. Proof. vm_compute. reflexivity. Qed.

(** the theorems, for the code as it is now *)
Definition C11_gen_conservation := conservation gen_layout.
Definition C11_gen_batches := batches_wellformed gen_layout.
{"Definition C11_gen_never_fails := never_fails_stale_locked gen_layout eq_refl." if stale_locked else
 "Definition C11_gen_fails := (runtime_error_witness, key_error_witness).  (* unlocked iteration: refuted *)"}
{"Definition C11_gen_counter_exact := counter_exact_cnt_locked gen_layout eq_refl." if cnt_locked else
 "Definition C11_gen_counter_wrong := lost_update_witness.  (* unlocked decrement: refuted *)"}
"""
    return text, {"layout": (stale_locked, cnt_locked), "pins": got}


if __name__ == "__main__":
    if len(sys.argv) > 1 and sys.argv[1] == "--pins":
        try:
            translate(pins={})
        except TranslateError:
            pass
        # recompute and print the current pins
        mod = load("redun/job_array.py")
        got = {"job_array.JobDescription": pin(find_class(mod, "JobDescription")),
               "job_array.MAX_ARRAY_SIZE": src(next(n for n in mod.body if isinstance(n, ast.Assign)
                                                    and src(n.targets[0]) == "MAX_ARRAY_SIZE").value)}
        for m in ("__init__", "_monitor_stale_jobs", "start", "stop"):
            got[f"job_array.JobArrayer.{m}"] = pin(find_func(mod, m, "JobArrayer"))
        executor_pins(got)
        print(json.dumps(got, indent=1))
    else:
        print(translate()[0])
