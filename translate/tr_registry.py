"""Translator for class TaskRegistry in redun/task.py -> coq/Gen/C37Gen.v  (fail closed).

Extracted (and tied to Model.Registry.shipped by C37_tie):
  * TaskRegistry.add      -> list of add_step   (statement sequence)
  * TaskRegistry.rename   -> list of ren_step   (statement sequence, signature, `return task`)
  * _decrement_hash_count -> the three integer constants of its decision structure
  * `+= 1` in add, `>= 1` / `> 0` in task_hashes
Pinned by shape (hand-modelled in Model/Registry.v, tied by the correspondence run):
  wraps_task (create_tasks / recursive_rename), task (registration), TaskRegistry.__init__/get/__iter__,
  Task.fullname/_format_fullname/get_task_option/recompute_hash, get_task_registry.
Whole-package checks: nothing but rename/__init__/__setstate__/recompute_hash stores a Task's
name / namespace / hash, recompute_hash is only called from Task.__init__, the registry's
dictionaries are only touched inside the class, no class in task.py defines __bool__/__len__
(`if old_task:` must be an is-not-None test).
"""
from __future__ import annotations

import ast
import sys

from .astutil import REPO, TranslateError, body_nodoc, fail, find_class, find_func, load, pin, src

REG_METHODS = {"__init__", "task_hashes", "_decrement_hash_count", "add", "get", "rename", "__iter__"}
PINNED = {
    "wraps_task": (None, "wraps_task"),
    "task": (None, "task"),
    "get_task_registry": (None, "get_task_registry"),
    "TaskRegistry.__init__": ("TaskRegistry", "__init__"),
    "TaskRegistry.get": ("TaskRegistry", "get"),
    "TaskRegistry.__iter__": ("TaskRegistry", "__iter__"),
    "Task.fullname": ("Task", "fullname"),
    "Task._format_fullname": ("Task", "_format_fullname"),
    "Task.get_task_option": ("Task", "get_task_option"),
    "Task.recompute_hash": ("Task", "recompute_hash"),
}


def int_const(node, what):
    if isinstance(node, ast.Constant) and type(node.value) is int:
        return node.value
    fail(f"{what}: expected an integer literal, got {src(node)!r}", node)


def cmp1(node, left, op, what):
    """`left <op> <int>` -> the int."""
    if not (isinstance(node, ast.Compare) and src(node.left) == left and len(node.ops) == 1
            and isinstance(node.ops[0], op) and len(node.comparators) == 1):
        fail(f"{what}: unrecognised comparison {src(node)!r}", node)
    return int_const(node.comparators[0], what)


def args_of(fn):
    a = fn.args
    if a.posonlyargs or a.kwonlyargs or a.vararg or a.kwarg or a.defaults or a.kw_defaults:
        fail(f"{fn.name}: unexpected parameter kinds/defaults", fn)
    return [x.arg for x in a.args]


def tr_decrement(fn):
    if args_of(fn) != ["self", "task"]:
        fail("_decrement_hash_count: signature changed", fn)
    b = body_nodoc(fn)
    if not (len(b) == 1 and isinstance(b[0], ast.If) and not b[0].orelse
            and src(b[0].test) == "task.hash in self._task_hash_counts"):
        fail("_decrement_hash_count: expected a single `if task.hash in self._task_hash_counts:`", fn)
    s = b[0].body
    if len(s) != 3:
        fail("_decrement_hash_count: expected 3 statements under the if", b[0])
    if src(s[0]) != "count = self._task_hash_counts[task.hash]":
        fail(f"_decrement_hash_count: unrecognised {src(s[0])!r}", s[0])
    if not (isinstance(s[1], ast.Assert)):
        fail("_decrement_hash_count: expected `assert count > 0`", s[1])
    a_gt = cmp1(s[1].test, "count", ast.Gt, "_decrement_hash_count assert")
    i = s[2]
    if not (isinstance(i, ast.If) and len(i.body) == 1 and len(i.orelse) == 1):
        fail("_decrement_hash_count: expected if/else on count", i)
    pop_eq = cmp1(i.test, "count", ast.Eq, "_decrement_hash_count if")
    if src(i.body[0]) != "self._task_hash_counts.pop(task.hash)":
        fail(f"_decrement_hash_count: unrecognised {src(i.body[0])!r}", i.body[0])
    e = i.orelse[0]
    if not (isinstance(e, ast.Assign) and len(e.targets) == 1
            and src(e.targets[0]) == "self._task_hash_counts[task.hash]"
            and isinstance(e.value, ast.BinOp) and isinstance(e.value.op, ast.Sub) and src(e.value.left) == "count"):
        fail(f"_decrement_hash_count: unrecognised {src(e)!r}", e)
    delta = int_const(e.value.right, "_decrement_hash_count decrement")
    return a_gt, pop_eq, delta


def tr_add(fn):
    if args_of(fn) != ["self", "task"]:
        fail("add: signature changed", fn)
    steps, inc = [], None
    for s in body_nodoc(fn):
        t = src(s)
        if t == "old_task = self._tasks.pop(task.fullname, None)":
            steps.append("APopOld")
        elif isinstance(s, ast.If) and src(s.test) == "old_task" and not s.orelse and len(s.body) == 1 \
                and src(s.body[0]) == "self._decrement_hash_count(old_task)":
            steps.append("ADecOld")
        elif t == "self._tasks[task.fullname] = task":
            steps.append("AStore")
        elif isinstance(s, ast.AugAssign) and isinstance(s.op, ast.Add) \
                and src(s.target) == "self._task_hash_counts[task.hash]":
            d = int_const(s.value, "add increment")
            if inc is not None and inc != d:
                fail("add: two different increments", s)
            inc = d
            steps.append("AIncr")
        else:
            fail(f"add: unrecognised statement {t!r}", s)
    if inc is None:
        fail("add: no `self._task_hash_counts[task.hash] += n`", fn)
    return steps, inc


def tr_rename(fn):
    if args_of(fn) != ["self", "old_name", "new_namespace", "new_name"]:
        fail("rename: signature changed", fn)
    b = body_nodoc(fn)
    if not (b and isinstance(b[-1], ast.Return) and b[-1].value is not None and src(b[-1].value) == "task"):
        fail("rename: must end with `return task`", fn)
    table = {
        "assert old_name in self._tasks": "RAssertIn",
        "task = self._tasks.pop(old_name)": "RPop",
        "self._decrement_hash_count(task)": "RDec",
        "task.namespace = new_namespace": "RSetNs",
        "task.name = new_name": "RSetName",
        "self.add(task)": "RAdd",
    }
    steps = []
    for s in b[:-1]:
        t = src(s)
        if t not in table:
            fail(f"rename: unrecognised statement {t!r}", s)
        steps.append(table[t])
    return steps


def tr_task_hashes(fn):
    if not any(src(d) == "property" for d in fn.decorator_list):
        fail("task_hashes is not a property", fn)
    b = body_nodoc(fn)
    if not (len(b) == 2 and isinstance(b[0], ast.Assert) and isinstance(b[1], ast.Return)):
        fail("task_hashes: expected `assert all(...)` and `return {...}`", fn)
    t = b[0].test
    if not (isinstance(t, ast.Call) and src(t.func) == "all" and len(t.args) == 1 and not t.keywords
            and isinstance(t.args[0], ast.GeneratorExp) and len(t.args[0].generators) == 1):
        fail("task_hashes: unrecognised assert", b[0])
    g = t.args[0].generators[0]
    if not (src(g.target) == "count" and src(g.iter) == "self._task_hash_counts.values()" and not g.ifs):
        fail("task_hashes: unrecognised assert generator", b[0])
    a_ge = cmp1(t.args[0].elt, "count", ast.GtE, "task_hashes assert")
    r = b[1].value
    if not (isinstance(r, ast.SetComp) and src(r.elt) == "task_hash" and len(r.generators) == 1):
        fail("task_hashes: unrecognised return", b[1])
    g = r.generators[0]
    if not (src(g.target) == "(task_hash, count)" and src(g.iter) == "self._task_hash_counts.items()"
            and len(g.ifs) == 1):
        fail("task_hashes: unrecognised set comprehension", b[1])
    k_gt = cmp1(g.ifs[0], "count", ast.Gt, "task_hashes filter")
    return a_ge, k_gt


# ---------------------------------------------------------------- whole-package side conditions
def enclosing_map(mod):
    """node -> (class name or None, function name or None) for every node."""
    out = {}

    def rec(node, cls, fn):
        for ch in ast.iter_child_nodes(node):
            c, f = cls, fn
            if isinstance(ch, ast.ClassDef):
                c, f = ch.name, None
            elif isinstance(ch, (ast.FunctionDef, ast.AsyncFunctionDef)):
                f = ch.name if fn is None else fn   # outermost function of the class / module
            out[ch] = (c, f)
            rec(ch, c, f)
    rec(mod, None, None)
    return out


def store_targets(mod):
    for n in ast.walk(mod):
        tg = []
        if isinstance(n, ast.Assign):
            tg = n.targets
        elif isinstance(n, (ast.AugAssign, ast.AnnAssign)):
            tg = [n.target]
        elif isinstance(n, ast.Delete):
            tg = n.targets
        for t in tg:
            for x in ast.walk(t):
                if isinstance(x, ast.Attribute) and isinstance(x.ctx, (ast.Store, ast.Del)):
                    yield n, x


def side_conditions(task_mod, sources=None):
    enc = enclosing_map(task_mod)
    # (a) stores to .hash/.name/.namespace in task.py
    ok_self = {("Task", "__init__"), ("Task", "__setstate__"), ("Task", "recompute_hash"),
               ("PartialTask", "__init__"), ("PartialTask", "__setstate__")}
    for stmt, x in store_targets(task_mod):
        if x.attr not in ("hash", "name", "namespace"):
            continue
        where = enc.get(stmt, (None, None))
        base = src(x.value)
        if base == "self" and where in ok_self:
            continue
        if base == "task" and where == ("TaskRegistry", "rename") and x.attr in ("name", "namespace"):
            continue
        fail(f"task.py stores `{src(x)}` in {where[0]}.{where[1]}: a registered task's hash/name may change "
             f"behind the registry's back", stmt)
    # (b) recompute_hash callers; registry internals; truthiness of a Task
    for n in ast.walk(task_mod):
        if isinstance(n, ast.Attribute) and n.attr == "recompute_hash" and enc.get(n) != ("Task", "__init__"):
            fail("recompute_hash is referenced outside Task.__init__", n)
        if isinstance(n, ast.Attribute) and n.attr in ("_tasks", "_task_hash_counts") \
                and enc.get(n, (None,))[0] != "TaskRegistry":
            fail(f"registry internals `{src(n)}` touched outside class TaskRegistry", n)
        if isinstance(n, (ast.FunctionDef, ast.AsyncFunctionDef)) and n.name in ("__bool__", "__len__"):
            fail(f"{n.name} defined in task.py: `if old_task:` may no longer mean `is not None`", n)
    # (c) the rest of the package (not tests)
    if sources is None:
        sources = {}
        for p in sorted((REPO / "redun").rglob("*.py")):
            rel = p.relative_to(REPO).as_posix()
            if "/tests/" in rel or rel == "redun/task.py":
                continue
            sources[rel] = p.read_text()
    for rel, text in sources.items():
        if "recompute_hash" not in text and "_task_hash_counts" not in text and ".hash" not in text \
                and ".namespace" not in text and "_task_registry" not in text:
            continue
        m = ast.parse(text, filename=rel)
        parent = {ch: n for n in ast.walk(m) for ch in ast.iter_child_nodes(n)}
        for n in ast.walk(m):
            if isinstance(n, ast.Attribute) and n.attr in ("recompute_hash", "_task_hash_counts"):
                fail(f"{rel}: `{src(n)}` used outside redun/task.py", n)
            if isinstance(n, ast.Attribute) and n.attr == "_tasks" and "registry" in src(n.value).lower():
                p1 = parent.get(n)
                readonly = (isinstance(p1, ast.Attribute) and p1.attr in ("keys", "values", "items", "get")
                            and isinstance(parent.get(p1), ast.Call) and parent[p1].func is p1)
                if not readonly:
                    fail(f"{rel}: registry internals `{src(n)}` touched (not a read-only keys/values/items/get)", n)
        for stmt, x in store_targets(m):
            if x.attr in ("hash", "namespace") and src(x.value) != "self":
                fail(f"{rel}: stores `{src(x)}` on another object (a Task's hash/namespace may change "
                     f"while registered)", stmt)


# ---------------------------------------------------------------- main
def translate(source: str | None = None, pins: dict | None = None, other_sources=None):
    mod = load("redun/task.py", source)
    cls = find_class(mod, "TaskRegistry")
    methods = {n.name: n for n in cls.body if isinstance(n, (ast.FunctionDef, ast.AsyncFunctionDef))}
    if set(methods) != REG_METHODS:
        fail(f"TaskRegistry methods changed: {sorted(set(methods) ^ REG_METHODS)} (every method that can touch "
             f"the dictionaries must be modelled)", cls)
    for n in cls.body:
        if not isinstance(n, (ast.FunctionDef, ast.AsyncFunctionDef)) and not (
                isinstance(n, ast.Expr) and isinstance(n.value, ast.Constant)):
            fail(f"TaskRegistry: unexpected class-level statement {src(n)!r}", n)
    for name in ("add", "rename", "_decrement_hash_count", "get", "__iter__", "__init__"):
        if methods[name].decorator_list:
            fail(f"TaskRegistry.{name} is decorated", methods[name])
    a_gt, pop_eq, delta = tr_decrement(methods["_decrement_hash_count"])
    add_steps, inc = tr_add(methods["add"])
    ren_steps = tr_rename(methods["rename"])
    th_ge, th_gt = tr_task_hashes(methods["task_hashes"])

    # Task.__init__ sets name, namespace and the hash the way the model's Define assumes
    init = find_func(mod, "__init__", "Task")
    stmts = {src(s) for s in ast.walk(init) if isinstance(s, ast.stmt)}
    for need in ("self.name = name or func.__name__", "self.namespace = compute_namespace(func, namespace)",
                 "self.recompute_hash()"):
        if need not in stmts:
            fail(f"Task.__init__ no longer contains `{need}`", init)
    # the module-level singleton and its accessor
    reg = [n for n in mod.body if isinstance(n, ast.Assign) and src(n.targets[0]) == "_task_registry"]
    if len(reg) != 1 or src(reg[0].value) != "TaskRegistry()":
        fail("`_task_registry = TaskRegistry()` not found exactly once")

    side_conditions(mod, other_sources)

    got = {}
    for key, (c, f) in PINNED.items():
        got[key] = pin(find_func(mod, f, c))
    if pins is not None:
        for key in PINNED:
            if pins.get(key) != got[key]:
                fail(f"{key}: shape changed (pin {got[key]} != {pins.get(key)}); the hand-written model of it in "
                     f"Model/Registry.v is no longer known to match")

    def z(n):
        return f"({n})%Z"

    v = ["(* GENERATED by translate/tr_registry.py from /repo/redun/task.py -- do not edit *)",
         "From Coq Require Import List ZArith.",
         "From RV Require Import Model.Registry.",
         "Import ListNotations.",
         "Definition gen : reg_cfg := {|",
         "  c_add := [" + "; ".join(add_steps) + "];",
         "  c_rename := [" + "; ".join(ren_steps) + "];",
         f"  c_dec_assert_gt := {z(a_gt)}; c_dec_pop_eq := {z(pop_eq)}; c_dec_delta := {z(delta)};",
         f"  c_inc_delta := {z(inc)}; c_th_assert_ge := {z(th_ge)}; c_th_keep_gt := {z(th_gt)}",
         "|}.",
         "(* The theorems of Props/C37.v are about [shipped]; this is the tie. *)",
         "Lemma C37_tie : gen = shipped.",
         "Proof. reflexivity. Qed."]
    cfg = {"add": add_steps, "rename": ren_steps, "dec": [a_gt, pop_eq, delta], "inc": inc, "th": [th_ge, th_gt]}
    return "\n".join(v) + "\n", got, cfg


if __name__ == "__main__":
    import json
    text, pins, cfg = translate()
    sys.stdout.write(text)
    print(json.dumps(pins, indent=1), file=sys.stderr)
