"""Common machinery for every property check.

A check is a subclass of PropertyCheck. `run()` does, in order:
  1. build    - make sure the static Coq development (Base/Model/Proofs/Props) is compiled
  2. regen    - run the property's translators against /repo (fail closed)
  3. prove    - compile the generated tie files; collect Print Assumptions of the
                property's theorems; scan the development for forbidden constructs
  4. correspond - run model (inside Coq, vm_compute) and implementation on the same cases
  5. oracle   - decide the property directly on the implementation for concrete inputs
                (corpus first).  This is also the *search* used when 2-4 break.
  6. decide / report - evidence file, VIOLATION / KNOWN-FINDING lines, exit code.
"""
from __future__ import annotations

import fcntl
import hashlib
import json
import os
import random
import re
import shutil
import subprocess
import sys
import tempfile
import time
import traceback
from pathlib import Path

VERIF = Path(os.environ.get("VERIF_ROOT", "/verif"))
REPO = Path(os.environ.get("VERIF_REPO", "/repo"))
COQ = VERIF / "coq"
GEN = COQ / "Gen"
CASES = COQ / "Cases"
# evidence describes /repo; a run pointed at another tree (VERIF_REPO=<scratch worktree with a seeded patch>) writes its
# record elsewhere so that it can never replace, or be committed as, the record of the unchanged tree
EVIDENCE = (VERIF / "evidence") if os.environ.get("VERIF_REPO", "/repo") == "/repo" else (VERIF / "replays" / "evidence_other_tree")
REPLAYS = VERIF / "replays"
CORPUS = VERIF / "corpus"
NCPU = os.cpu_count() or 4

COQ_FLAGS = ["-R", str(COQ), "RV", "-w",
             "-notation-overridden,-deprecated-hint-without-locality,-deprecated-instance-without-locality"]

FORBIDDEN = re.compile(
    r"\b(Admitted|admit|Axiom|Axioms|Parameter|Parameters|Conjecture|Conjectures|Abort All|"
    r"Admit Obligations|bypass_check|native_compute)\b|Unset\s+Guard|Unset\s+Positivity|"
    r"Unset\s+Universe|type-in-type|impredicative-set")
# `Variable`/`Hypothesis`/`Context` are only allowed inside a Section; checked separately.

ALLOWED_STDLIB_AXIOMS: dict[str, str] = {
    # name -> where it comes from; a property lists the ones it accepts
    "functional_extensionality_dep": "Coq.Logic.FunctionalExtensionality",
    "proof_irrelevance": "Coq.Logic.ProofIrrelevance",
    "classic": "Coq.Logic.Classical_Prop",
    "JMeq_eq": "Coq.Logic.JMeq",
    "Eqdep.Eq_rect_eq.eq_rect_eq": "Coq.Logic.Eqdep",
}


class TranslateError(Exception):
    """A translator met source it does not recognise (fail closed)."""


# --------------------------------------------------------------------------
# Coq literal helpers
# --------------------------------------------------------------------------
def cq_Z(n: int) -> str:
    return f"({n})%Z"


def cq_nat(n: int) -> str:
    return f"{n}%nat"


def cq_bool(b: bool) -> str:
    return "true" if b else "false"


def cq_list(items) -> str:
    return "[" + "; ".join(items) + "]"


def cq_bytes(b: bytes) -> str:
    """bytes as `list ascii` via RV.Base.Lit.bs (list of N codes)."""
    return "(bs [" + ";".join(str(x) for x in b) + "]%N)"


def cq_str(s: str) -> str:
    """A Coq `string` literal (ASCII printable only), for names/enum messages."""
    assert all(32 <= ord(c) < 127 for c in s), s
    return '"' + s.replace('"', '""') + '"%string'


def cq_opt(x) -> str:
    return "None" if x is None else f"(Some {x})"


# --------------------------------------------------------------------------
# Running Coq
# --------------------------------------------------------------------------
def run(cmd, timeout=600, cwd=None, env=None, input=None):
    t0 = time.time()
    try:
        p = subprocess.run(cmd, cwd=cwd, env=env, input=input, capture_output=True, text=True,
                           timeout=timeout)
        return p.returncode, p.stdout, p.stderr, time.time() - t0
    except subprocess.TimeoutExpired as e:
        out = e.stdout.decode() if isinstance(e.stdout, bytes) else (e.stdout or "")
        err = e.stderr.decode() if isinstance(e.stderr, bytes) else (e.stderr or "")
        return 124, out, err + "\nTIMEOUT", time.time() - t0


def ensure_static_built(targets=None, timeout=1800):
    """Build the static part of the development that this check needs (`targets`: .vo paths
    relative to coq/, default everything). Does not depend on /repo. Serialised by a lock so that
    checks running in parallel do not race on .vo files. Full .vo build, never -vos."""
    lock = COQ / ".build.lock"
    with open(lock, "w") as lf:
        fcntl.flock(lf, fcntl.LOCK_EX)
        rc, out, err, dt = run(["sh", str(VERIF / "tools" / "gen_coqproject.sh")], timeout=120)
        if rc != 0:
            return False, out + err
        cmd = ["make", "-j", str(NCPU), "COQC=timeout 900 coqc"] + list(targets or [])
        rc, out, err, dt = run(cmd, cwd=COQ, timeout=timeout)
        return rc == 0, (out + err)[-4000:]


def coqc(path: Path, timeout=600):
    """Compile one file in place. Returns (ok, stdout+stderr)."""
    rc, out, err, dt = run(["coqc", *COQ_FLAGS, str(path)], cwd=COQ, timeout=timeout)
    return rc == 0, out + err


def coq_eval(requires: list[str], body: str, tag: str, timeout=600):
    """Compile a throw-away file with `body`; returns (ok, output)."""
    CASES.mkdir(exist_ok=True)
    p = CASES / f"{tag}.v"
    p.write_text("".join(f"From RV Require Import {r}.\n" for r in requires) + body)
    ok, out = coqc(p, timeout)
    for ext in (".vo", ".vok", ".vos", ".glob"):
        q = p.with_suffix(ext)
        if q.exists():
            q.unlink()
    aux = p.parent / ("." + p.stem + ".aux")
    if aux.exists():
        aux.unlink()
    return ok, out


def dep_closure(targets):
    """Transitive .v dependencies (inside coq/) of the given .vo targets, from coq_makefile's
    .Makefile.d; None if it cannot be determined."""
    d = COQ / ".Makefile.d"
    if not d.exists():
        return None
    deps = {}
    for line in d.read_text().splitlines():
        if ":" not in line:
            continue
        lhs, rhs = line.split(":", 1)
        for t in lhs.split():
            if t.endswith(".vo"):
                deps[t] = [x for x in rhs.split() if x.endswith(".vo")]
    seen, todo = set(), list(targets)
    while todo:
        t = todo.pop()
        if t in seen:
            continue
        seen.add(t)
        if t not in deps:
            return None
        todo += deps[t]
    return [COQ / (t[:-1]) for t in sorted(seen)]


def scan_forbidden(files=None):
    """Return list of (file, line, text) for forbidden constructs in the given .v files
    (default: the whole development)."""
    hits = []
    if files is None:
        files = []
        for d in ("Base", "Model", "Proofs", "Props", "Gen", "Extract"):
            files += sorted((COQ / d).glob("**/*.v")) if (COQ / d).exists() else []
    for f in files:
        depth = 0
        txt = strip_coq_comments(Path(f).read_text())
        for i, line in enumerate(txt.splitlines(), 1):
            if FORBIDDEN.search(line):
                hits.append((str(f), i, line.strip()))
            if re.match(r"\s*(Section|Module Type)\b", line):
                depth += 1
            elif re.match(r"\s*End\b", line):
                depth = max(0, depth - 1)
            elif depth == 0 and re.match(r"\s*(Variable|Variables|Hypothesis|Hypotheses|Context)\b", line):
                hits.append((str(f), i, line.strip()))
    return hits


def strip_coq_comments(s: str) -> str:
    out = []
    depth = 0
    i = 0
    instr = False
    while i < len(s):
        if not instr and s.startswith("(*", i):
            depth += 1
            i += 2
            continue
        if not instr and depth and s.startswith("*)", i):
            depth -= 1
            i += 2
            continue
        c = s[i]
        if depth == 0:
            if c == '"':
                instr = not instr
            out.append(c)
        elif c == "\n":
            out.append(c)
        i += 1
    return "".join(out)


def print_assumptions(module: str, theorems: list[str], tag: str, extra_requires=()):
    """Returns (ok, {thm: [axiom names]} , raw). A theorem missing from the module makes ok False."""
    body = ""
    for t in theorems:
        body += f'Goal True. idtac "@@THM {t}". exact I. Qed.\nPrint Assumptions {t}.\n'
    ok, out = coq_eval([module, *extra_requires], body, f"pa_{tag}")
    res: dict[str, list[str]] = {}
    cur = None
    for line in out.splitlines():
        m = re.match(r"@@THM (\S+)", line)
        if m:
            cur = m.group(1)
            res[cur] = []
            continue
        if cur is None:
            continue
        if line.startswith("Closed under the global context") or line.startswith("Axioms:"):
            continue
        m = re.match(r"^([A-Za-z_][\w.']*)\s*:", line)
        if m:
            res[cur].append(m.group(1))
    return ok, res, out


def parse_nat_list(out: str):
    """Parse the `= [a; b; ...] : list nat` printed by one Eval; returns list or None."""
    m = re.search(r"=\s*(\[.*?\]|nil)\s*:\s*list nat", out.replace("\n", " "), re.S)
    if not m:
        return None
    body = m.group(1)
    if body == "nil":
        return []
    return [int(x) for x in re.findall(r"\d+", body)]


def run_bool_cases(tag: str, requires: list[str], preamble: str, terms: list[str],
                   chunk=400, timeout=900):
    """Each term is a Coq `bool` that compares the model with what the implementation did.
    Returns (ok, failing_indices, diagnostics). Shards are compiled in parallel."""
    CASES.mkdir(exist_ok=True)
    shards = [terms[i:i + chunk] for i in range(0, len(terms), chunk)]
    files = []
    for k, sh in enumerate(shards):
        p = CASES / f"{tag}_{k}.v"
        src = "".join(f"From RV Require Import {r}.\n" for r in requires)
        src += "From Coq Require Import List ZArith Ascii Bool.\nImport ListNotations.\nOpen Scope list_scope.\n"
        src += preamble + "\n"
        src += "Definition cs : list bool := [\n  " + ";\n  ".join(sh) + "\n].\n"
        src += ("Fixpoint find_false (i : nat) (l : list bool) : list nat := match l with [] => [] "
                "| b :: r => if b then find_false (S i) r else i :: find_false (S i) r end.\n")
        src += "Eval vm_compute in (find_false 0 cs).\n"
        p.write_text(src)
        files.append(p)
    procs = []
    failing: list[int] = []
    diags = []
    ok = True
    from concurrent.futures import ThreadPoolExecutor
    with ThreadPoolExecutor(max_workers=min(NCPU, 12)) as ex:
        results = list(ex.map(lambda f: coqc(f, timeout), files))
    for k, (f, (cok, out)) in enumerate(zip(files, results)):
        lst = parse_nat_list(out) if cok else None
        if lst is None:
            ok = False
            diags.append(f"shard {f.name}: coqc failed or unparsable output:\n{out[-1500:]}")
        else:
            failing += [k * chunk + i for i in lst]
        for ext in (".vo", ".vok", ".vos", ".glob", ".v"):
            q = f.with_suffix(ext)
            if q.exists() and not (ext == ".v" and lst is None):
                q.unlink()
        aux = f.parent / ("." + f.stem + ".aux")
        if aux.exists():
            aux.unlink()
    return ok, failing, diags


def sha512_40(b: bytes) -> str:
    return hashlib.sha512(b).hexdigest()[:40]


def scratch_dir(prefix="rv_"):
    base = os.environ.get("VERIF_TMP") or tempfile.gettempdir()
    return Path(tempfile.mkdtemp(prefix=prefix, dir=base))


# --------------------------------------------------------------------------
# Known findings
# --------------------------------------------------------------------------
def load_known_findings():
    p = VERIF / "known_findings.json"
    if not p.exists():
        return []
    return json.loads(p.read_text()).get("findings", [])


# --------------------------------------------------------------------------
# The check skeleton
# --------------------------------------------------------------------------
class Obligation:
    def __init__(self, kind, name, ok, detail=""):
        self.kind, self.name, self.ok, self.detail = kind, name, bool(ok), detail

    def to_json(self):
        return {"kind": self.kind, "name": self.name, "discharged": self.ok,
                **({"detail": self.detail[-2000:]} if self.detail and not self.ok else {})}


class Finding:
    """A concrete violation of the property on the implementation (or model witness).
    `key` identifies it for the known-findings file."""

    def __init__(self, key: str, what: str, replay: dict):
        self.key, self.what, self.replay = key, what, replay


class PropertyCheck:
    id = "C00"
    module = None            # e.g. "Props.C14"
    theorems: list[str] = []
    extra_modules: list[str] = []    # further static modules the correspondence needs, e.g. "Base.Lit"
    allowed_axioms: list[str] = []   # names (suffix match) accepted in Print Assumptions
    section_premises: list[str] = []  # named premises of the theorems (trusted-base text)
    trusted_base: list[str] = []
    assumptions: list[str] = []

    def __init__(self, tier: str, seed: int):
        self.tier = tier
        self.seed = seed
        self.rng = random.Random(seed)
        self.obligations: list[Obligation] = []
        self.findings: list[Finding] = []
        self.samples: list = []
        self.stats: dict = {}
        self.evaluations = 0
        self.distinct: set = set()
        self.t0 = time.time()

    # ---- to be provided by subclasses -------------------------------------
    def translate(self):
        """Run translators; write Gen/<id>*.v; return list of generated tie files to compile
        (in order). Raise TranslateError to fail closed."""
        return []

    def correspond(self):
        """Run model and implementation on the same cases; add Obligation(s) and Finding(s)."""

    def oracle(self):
        """Decide the property on concrete inputs on the real code; add Finding(s)."""

    # ---- helpers -------------------------------------------------------------
    def ob(self, kind, name, ok, detail=""):
        self.obligations.append(Obligation(kind, name, ok, detail))
        return ok

    def count(self, key=None, n=1):
        self.evaluations += n
        if key is not None:
            self.distinct.add(key if isinstance(key, (str, int, bytes, tuple)) else repr(key))

    def sample(self, x, limit=6):
        if len(self.samples) < limit:
            self.samples.append(x)

    def stat(self, name, key, n=1):
        d = self.stats.setdefault(name, {})
        d[str(key)] = d.get(str(key), 0) + n

    # ---- pipeline --------------------------------------------------------
    def run(self) -> int:
        try:
            targets = [self.module.replace(".", "/") + ".vo"] if self.module else []
            targets += [m.replace(".", "/") + ".vo" for m in self.extra_modules]
            ok, out = ensure_static_built(targets or None)
            self.ob("build", "static development needed by this check (make, full .vo): " + " ".join(targets), ok, out)
            closure = dep_closure(targets) if targets else None
            hits = scan_forbidden(closure)
            self.ob("scan", "no Admitted/admit/Axiom/Parameter/top-level Variable/guard switches in the "
                    + (f"{len(closure)} files this check depends on" if closure else "whole development"), not hits,
                    "\n".join(f"{f}:{l}: {t}" for f, l, t in hits))
            ties = []
            try:
                ties = self.translate() or []
                self.ob("translator", f"{self.id} translators recognise the current source", True)
            except TranslateError as e:
                self.ob("translator", f"{self.id} translators recognise the current source", False, str(e))
            except Exception:
                self.ob("translator", f"{self.id} translators recognise the current source", False,
                        traceback.format_exc())
            thits = scan_forbidden([Path(t) for t in ties])
            if thits:
                self.ob("scan", "generated tie files free of forbidden constructs", False, str(thits))
            for t in ties:
                tok, tout = coqc(Path(t))
                self.ob("tie-proof", f"{Path(t).name} (theorems re-checked against regenerated model)", tok, tout)
            if ok and self.module and self.theorems:
                pok, res, raw = print_assumptions(self.module, self.theorems, self.id, getattr(self, "theorem_modules", ()))
                for t in self.theorems:
                    if t not in res or not pok:
                        self.ob("theorem", t, False, raw)
                        continue
                    bad = [a for a in res[t] if not any(a == x or a.endswith("." + x) or a.endswith(x)
                                                       for x in self.allowed_axioms)]
                    self.ob("theorem", t + (" [assumes: " + ", ".join(res[t]) + "]" if res[t] else " [closed]"),
                            not bad, "unexpected axioms: " + ", ".join(bad))
            try:
                self.correspond()
            except Exception:
                self.ob("correspondence", "correspondence harness ran", False, traceback.format_exc())
            try:
                self.oracle()
            except Exception:
                self.ob("oracle", "implementation oracle ran", False, traceback.format_exc())
        except Exception:
            self.ob("harness", "check ran to completion", False, traceback.format_exc())
        return self.report()

    def report(self) -> int:
        known = [k for k in load_known_findings() if k.get("property") == self.id]
        known_keys = {k["key"]: k for k in known}
        rc = 0
        lines = []
        new_findings = []
        seen_known = set()
        for f in self.findings:
            if f.key in known_keys:
                if f.key not in seen_known:
                    seen_known.add(f.key)
                    lines.append(f"KNOWN-FINDING: property={self.id} {known_keys[f.key].get('what', f.what)}")
            else:
                new_findings.append(f)
        broken = [o for o in self.obligations if not o.ok]
        REPLAYS.mkdir(exist_ok=True)
        if new_findings:
            f = new_findings[0]
            p = REPLAYS / f"{self.id}_{self.tier}_{self.seed}.json"
            p.write_text(json.dumps({"property": self.id, "seed": self.seed, "tier": self.tier,
                                     "key": f.key, "what": f.what, "replay": f.replay,
                                     "other_findings": [{"key": g.key, "what": g.what} for g in new_findings[1:10]],
                                     "broken_obligations": [o.to_json() for o in broken]}, indent=1, default=str))
            lines.append(f"VIOLATION property={self.id} replay={p}")
            rc = 1
        elif broken:
            # An obligation broke. If the only explanation found is a listed known finding that
            # the broken obligation is declared to be explained by, it is not a new violation.
            unexplained = [o for o in broken if not getattr(o, "explained_by_known", False)]
            if unexplained:
                p = REPLAYS / f"{self.id}_{self.tier}_{self.seed}.json"
                p.write_text(json.dumps({"property": self.id, "seed": self.seed, "tier": self.tier,
                                         "no_failing_input_found": True,
                                         "broken_obligations": [o.to_json() for o in unexplained]},
                                        indent=1, default=str))
                lines.append(f"VIOLATION property={self.id} replay={p} no-failing-input-found")
                rc = 1
        self.write_evidence(len(new_findings) + (1 if rc and not new_findings else 0), sorted(seen_known))
        for l in lines:
            print(l)
        n_ok = sum(o.ok for o in self.obligations)
        print(f"{self.id} {self.tier}: obligations {n_ok}/{len(self.obligations)} discharged, "
              f"{self.evaluations} cases, {len(self.distinct)} distinct, "
              f"{len(self.findings)} finding(s) ({len(seen_known)} known), {time.time() - self.t0:.1f}s"
              + ("" if rc else " -- OK"))
        sys.stdout.flush()
        return rc

    def write_evidence(self, violations: int, known_seen):
        EVIDENCE.mkdir(exist_ok=True)
        n_ok = sum(o.ok for o in self.obligations)
        ev = {
            "property_id": self.id,
            "tier": self.tier,
            "seed": self.seed,
            "level": "proof",
            "coverage": {
                "obligations": len(self.obligations),
                "discharged": n_ok,
                "obligation_list": [o.to_json() for o in self.obligations],
                "checker_cmd": f"coqc (Coq 8.16.1) via `make` in /verif/coq and per-check tie files; ./check {self.id} --{self.tier}",
                "trusted_base": self.trusted_base or DEFAULT_TRUSTED_BASE,
                "evaluations": self.evaluations,
                "distinct_nontrivial": len(self.distinct),
                "rule": getattr(self, "rule", "cases generated by the property's structured generator; distinct by canonical repr"),
                "samples": self.samples or ["(no correspondence cases for this property)"],
                "distribution": self.stats,
                "known_findings_seen": known_seen,
            },
            "assumptions": self.assumptions + [f"premise (Section hypothesis, not an axiom): {p}" for p in self.section_premises],
            "wall_s": round(time.time() - self.t0, 2),
            "violations": violations,
        }
        (EVIDENCE / f"{self.id}.json").write_text(json.dumps(ev, indent=1, default=str))


DEFAULT_TRUSTED_BASE = [
    "Coq 8.16.1 kernel (coqc); vm_compute for finite sweeps, witnesses and correspondence evaluation; no native_compute",
    "translators under /verif/translate (Python ast, fail closed) and the harness under /verif/harness",
    "the model is hand-written Gallina; its tie to /repo is the regenerated Gen/ files plus the correspondence run of this check",
]
