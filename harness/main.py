"""Entry point: python -m harness.main Cxx --quick|--thorough|--replay FILE"""
import importlib
import json
import os
import sys


def main(argv):
    if len(argv) < 1:
        print("usage: check Cxx [--quick|--thorough|--replay FILE]")
        return 2
    pid = argv[0].upper()
    tier = os.environ.get("VERIF_TIER", "quick")
    replay = None
    i = 1
    while i < len(argv):
        if argv[i] == "--quick":
            tier = "quick"
        elif argv[i] == "--thorough":
            tier = "thorough"
        elif argv[i] == "--replay":
            replay = argv[i + 1]
            i += 1
        i += 1
    seed = int(os.environ.get("VERIF_SEED", "0") or 0)
    try:
        mod = importlib.import_module(f"harness.props.{pid.lower()}")
    except ModuleNotFoundError as e:
        print(f"no check for {pid}: {e}")
        return 2
    chk = mod.Check(tier, seed)
    if replay:
        return chk.replay(json.load(open(replay)))
    return chk.run()


if __name__ == "__main__":
    sys.exit(main(sys.argv[1:]))
