"""Programs for the C28 oracle whose real run depends on more than the recorded call graph: tasks that must run in
every execution (cache=False) and read an execution counter, and File results edited outside redun.
CALLS records every task body that ran; WORLD is the state of the outside world."""
import os

from redun import File, Handle, task

redun_namespace = "rvc28"
CALLS = []
WORLD = {"gen": 1, "clock": {}}


@task(version="1", cache=False)
def tick(k):
    CALLS.append("tick")
    WORLD["clock"][k] = WORLD["clock"].get(k, 0) + 1
    return WORLD["clock"][k]


@task(version="1")
def label(n):
    CALLS.append("label")
    return f"tick-{n}"


@task(version="1")
def stamp(k):
    CALLS.append("stamp")
    return label(tick(k))


@task(version="1")
def fetch(path):
    CALLS.append("fetch")
    f = File(path)
    f.write(f"generation-{WORLD['gen']}")
    return f


@task(version="1")
def summarize(data):
    CALLS.append("summarize")
    return data.read()


@task(version="1")
def report(path):
    CALLS.append("report")
    return summarize(fetch(path))


@task(version="1")
def const(x):
    CALLS.append("const")
    return x


@task(version="1")
def wrap_full(inner_kind, arg, depth):
    CALLS.append("wrap_full")
    return [build(inner_kind, arg, depth - 1), const(depth)]


@task(version="1", check_valid="shallow")
def wrap_shallow(inner_kind, arg, depth):
    CALLS.append("wrap_shallow")
    return {"v": build(inner_kind, arg, depth - 1)}


@task(version="1")
def via_subrun(x):
    """a sub-scheduler run (its dry-run flag travels in run_config, which must not enter the cache key)"""
    from redun.scheduler import subrun
    CALLS.append("via_subrun")
    return subrun(const(x), executor="default", new_execution=False)


class Conn(Handle):
    """a Handle passed from task to task: each job hashes its arguments AFTER the handle was forked for it"""

    def __init__(self, name, namespace=None):
        self.instance = name


@task(version="1")
def h_load(conn, x):
    CALLS.append("h_load")
    return conn


@task(version="1")
def h_count(conn, x):
    CALLS.append("h_count")
    return x * 10


@task(version="1")
def handles(x):
    """a handle threaded through two tasks and used by a third"""
    CALLS.append("handles")
    conn = Conn(f"conn{x}")
    return h_count(h_load(h_load(conn, x), x + 1), x)


def build(kind, arg, depth, wraps=("wrap_full",)):
    """kind 'stamp' | 'report' | 'const' | 'subrun'; depth = number of wrapping tasks (kinds cycle through wraps)."""
    if depth <= 0:
        return {"stamp": stamp, "report": report, "const": const, "subrun": via_subrun, "handles": handles}[kind](arg)
    w = {"wrap_full": wrap_full, "wrap_shallow": wrap_shallow}[wraps[depth % len(wraps)]]
    return w(kind, arg, depth)
