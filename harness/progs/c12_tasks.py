"""Tasks for the C12 oracle: every combination of sync/async task, check_valid full/shallow and where the failure
happens (the task itself, a returned child call, an awaited child call). CALLS records every execution of a body."""
from redun import task

redun_namespace = "rvc12"
CALLS = []
FAIL = [True]


PAYLOAD = [None]     # what the raised error carries: None (a plain ValueError) or something that cannot be pickled


class Busy(ValueError):
    """an error carrying a payload (the scheduler must still report THIS error and record the failure)"""

    def __init__(self, msg, payload):
        super().__init__(msg)
        self.payload = payload


def _gen():
    yield 1


def _body(name, x):
    CALLS.append(name)
    if FAIL[0]:
        kind = PAYLOAD[0]
        if kind is None:
            raise ValueError(f"boom-{name}-{x}")
        import threading
        payload = {"lock": threading.Lock, "file": lambda: open(__file__), "generator": _gen,
                   "lambda": lambda: (lambda: 0)}[kind]()
        raise Busy(f"boom-{name}-{x}", payload)
    return x + 1


@task(version="1")
def leaf_sync_full(x):
    return _body("leaf_sync_full", x)


@task(version="1", check_valid="shallow")
def leaf_sync_shallow(x):
    return _body("leaf_sync_shallow", x)


@task(version="1", cache=False)       # async tasks must set cache explicitly: cache=False, or cache=True + shallow
async def leaf_async_full(x):
    return _body("leaf_async_full", x)


@task(version="1", cache=True, check_valid="shallow")
async def leaf_async_shallow(x):
    return _body("leaf_async_shallow", x)


LEAVES = {"leaf_sync_full": leaf_sync_full, "leaf_sync_shallow": leaf_sync_shallow,
          "leaf_async_full": leaf_async_full, "leaf_async_shallow": leaf_async_shallow}


@task(version="1")
def par_sync_full(leaf, x):
    CALLS.append("par_sync_full")
    return [LEAVES[leaf](x), 7]


@task(version="1", check_valid="shallow")
def par_sync_shallow(leaf, x):
    CALLS.append("par_sync_shallow")
    return {"v": LEAVES[leaf](x)}


@task(version="1", cache=False)
async def par_async_full(leaf, x):
    CALLS.append("par_async_full")
    v = await LEAVES[leaf](x)
    return v + 1


@task(version="1", cache=True, check_valid="shallow")
async def par_async_shallow(leaf, x):
    CALLS.append("par_async_shallow")
    v = await LEAVES[leaf](x)
    return [v]


PARENTS = {"par_sync_full": par_sync_full, "par_sync_shallow": par_sync_shallow,
           "par_async_full": par_async_full, "par_async_shallow": par_async_shallow}


@task(version="1")
def top(parent, leaf, x):
    return [PARENTS[parent](leaf, x)]


@task(version="1")
def via_subrun(leaf, x, new_execution):
    """the failing call runs in a sub-scheduler (extending this execution, or in an execution of its own)"""
    from redun.scheduler import subrun
    CALLS.append("via_subrun")
    return subrun(LEAVES[leaf](x), executor="default", new_execution=new_execution)


def program(shape, parent, leaf, x):
    if shape == "subrun_ext":
        return via_subrun(leaf, x, False)
    if shape == "subrun_new":
        return via_subrun(leaf, x, True)
    if shape == "leaf":
        return LEAVES[leaf](x)
    if shape == "parent":
        return PARENTS[parent](leaf, x)
    return top(parent, leaf, x)
