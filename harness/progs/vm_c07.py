"""Template programs with Handle passing, for C07 (harness/props/c07.py).

A program is a list of task definitions; task 0 is the root.  A task definition is a dict
    {"n": <number of parameters>, "body": <texpr>, "limits": {"r0": 1} | None}
and a template expression (texpr) is a nested tuple
    ("c", v)              a constant: int or nested list of ints
    ("h", name)           a new Handle  H("h<name>")       (name: small int)
    ("p", i)              the i-th (preprocessed) argument of the task
    ("l", (texpr, ...))   a list
    ("call", t, (texpr, ...))   a lazy call of task t
    ("cond", g, a, b)     redun.scheduler.cond(g, a, b): a / b is evaluated (under the same parent job) once g has a value
    ("seq", (texpr, ...)) redun.functools.seq([...]): evaluated one after the other
("cond" / "seq" are not part of the Coq machine of Model/Timing.v; programs using them go through the oracle and the
`_pending_expr` machine of Model/PendingExpr.v only.)
The same language is interpreted by coq/Model/Timing.v (`tbody`).  Every program gets its own
redun tasks (one per definition, created once and reused for all runs of the program so that
task hashes are the same in every run).
"""
from __future__ import annotations

import random

from redun import Handle, task

redun_namespace = "rvc07"


class H(Handle):
    """A Handle without state of its own: its hash is decided by name, fork key and call hash."""

    def __init__(self, name):
        pass


_PROGRAMS: dict = {}


def build(te, args, tasks):
    k = te[0]
    if k == "c":
        return te[1]
    if k == "h":
        return H(f"h{te[1]}")
    if k == "p":
        return args[te[1]]
    if k == "l":
        return [build(x, args, tasks) for x in te[1]]
    if k == "call":
        return tasks[te[1]](*[build(x, args, tasks) for x in te[2]])
    if k == "cond":
        from redun.scheduler import cond
        return cond(build(te[1], args, tasks), build(te[2], args, tasks), build(te[3], args, tasks))
    if k == "seq":
        from redun.functools import seq
        return seq([build(x, args, tasks) for x in te[1]])
    raise AssertionError(te)


def _make_task(i, td, tasks, ns):
    body = td["body"]

    def f(*args):
        return build(body, args, tasks)

    f.__name__ = f"t{i}"
    f.__qualname__ = f"t{i}"
    opts = {}
    if td.get("limits"):
        opts["limits"] = dict(td["limits"])
    return task(name=f"t{i}", namespace=ns, version="1", **opts)(f)


def instantiate(prog):
    """The redun tasks of a program (created once per distinct program)."""
    key = repr(prog)
    if key not in _PROGRAMS:
        ns = f"rvc07p{len(_PROGRAMS)}"
        tasks: list = []
        for i, td in enumerate(prog):
            tasks.append(_make_task(i, td, tasks, ns))
        _PROGRAMS[key] = tasks
    return _PROGRAMS[key]


def root_expr(prog, root_args=()):
    tasks = instantiate(prog)
    return tasks[0](*[build(a, (), tasks) for a in root_args])


# ------------------------------------------------------------------------------- static facts
def subexprs(te):
    k = te[0]
    if k in ("l", "seq"):
        return te[1]
    if k == "call":
        return te[2]
    if k == "cond":
        return te[1:]
    return ()


def has_lazy(prog):
    def f(te):
        return te[0] in ("cond", "seq") or any(f(x) for x in subexprs(te))
    return any(f(td["body"]) for td in prog)


def texpr_has_handle(te):
    k = te[0]
    if k == "h":
        return True
    if k in ("cond", "seq"):
        return any(texpr_has_handle(x) for x in subexprs(te))
    if k == "l":
        return any(texpr_has_handle(x) for x in te[1])
    if k == "call":
        return any(texpr_has_handle(x) for x in te[2])
    return False


def handle_free(prog, root_args=()):
    return not any(texpr_has_handle(td["body"]) for td in prog) and not any(texpr_has_handle(a) for a in root_args)


def prog_size(prog):
    def sz(te):
        k = te[0]
        if k == "l":
            return 1 + sum(sz(x) for x in te[1])
        if k == "call":
            return 1 + sum(sz(x) for x in te[2])
        return 1
    return sum(sz(td["body"]) for td in prog)


# ------------------------------------------------------------------------------- generator
def gen_program(rng: random.Random, handles: str, resources=("r0",), ntasks=None):
    """A terminating random program: task i only calls tasks j > i.

    handles = "none"    no Handle anywhere
              "linear"  every Handle state is passed to at most one call per task body, and a task
                        body uses each of its parameters at most once
              "shared"  Handle states may be passed to several sibling calls
              "lazy"    see gen_lazy: no Handles; one parent demands the same call expression eagerly and again later
              "cross"   see gen_cross: the same un-keyed Handle state passed on by children of DIFFERENT parents

    The same call expression is written twice in one body only if the callee returns an int: a
    duplicated call is evaluated once and its result OBJECT is put in both places, and a value that
    holds one container object twice does not hash like an equal value built from distinct objects
    (known finding, exercised by its own witness in harness/props/c07.py).
    """
    if handles == "cross":
        return gen_cross(rng, resources)
    if handles == "lazy":
        return gen_lazy(rng, resources)
    n = ntasks or rng.choice([3, 4, 4, 5, 5, 6])
    arity = [0] + [rng.randint(0, 2) for _ in range(n - 1)]
    prog: list = [None] * n
    for i in range(n - 1, -1, -1):          # callees first: their bodies are known when task i is written
        callees = list(range(i + 1, n))
        used_params: set = set()
        fresh = [0]
        seen_calls: set = set()

        def int_valued(t):
            return prog[t]["body"][0] == "c"

        def value(depth):
            r = rng.random()
            params = list(range(arity[i]))
            if handles == "linear":
                params = [q for q in params if q not in used_params]
            if params and r < 0.35:
                q = rng.choice(params)
                used_params.add(q)
                return ("p", q)
            if handles != "none" and r < 0.6:
                if handles == "linear":
                    fresh[0] += 1
                    return ("h", i * 4 + fresh[0])       # a new name each time: never shared
                return ("h", rng.randint(0, 1))
            if callees and depth > 0 and r < 0.8:
                return call(depth - 1)
            return ("c", rng.randint(0, 2))

        def call(depth):
            for _ in range(6):
                t = rng.choice(callees)
                ce = ("call", t, tuple(value(depth) for _ in range(arity[t])))
                if ce not in seen_calls or (int_valued(t) and not texpr_has_handle(ce)):
                    break
            else:
                return ("c", 9)
            seen_calls.add(ce)
            return ce

        def body():
            if not callees or (i > 0 and rng.random() < 0.15):
                k = rng.random()
                if arity[i] and k < 0.5:
                    q = rng.randrange(arity[i])
                    used_params.add(q)
                    return ("l", (("c", i), ("p", q)))
                return ("c", i)
            items = []
            for _ in range(rng.choice([1, 2, 2, 3])):
                if rng.random() < 0.8:
                    items.append(call(1))
                else:
                    items.append(value(1))
            twins = [x for x in items if x[0] == "call" and int_valued(x[1]) and not texpr_has_handle(x)]
            if twins and rng.random() < 0.3:
                items.append(rng.choice(twins))          # the same call expression twice: evaluated once
            return ("l", tuple(items))

        b = body()
        lim = None
        if i > 0 and resources and rng.random() < 0.6:
            lim = {rng.choice(list(resources)): 1}
        prog[i] = {"n": arity[i], "body": b, "limits": lim}
    return prog


def gen_cross(rng: random.Random, resources=("r0",)):
    """Two or three PARENT jobs (distinct calls, running concurrently, each optionally gated by its own
    upstream job) each pass the SAME un-keyed Handle state to one child call: a fresh H("h0") constructed in
    every parent, or the result of a common `open()` task (de-duplicated by CSE, so every parent holds the same
    state).  Inside one parent every Handle state is passed to a single call, so with one fork counter per
    parent job every fork is a first fork; which child preprocesses first is decided by the completion order
    of the parents / gates and by limit waits."""
    k = rng.choice([2, 2, 3])
    parents = list(range(1, k + 1))
    nuse = rng.choice([1, 2])
    uses = list(range(k + 1, k + 1 + nuse))
    t_open = k + 1 + nuse
    gates = list(range(t_open + 1, t_open + 1 + k))
    src_kind = rng.choice(["fresh", "open", "open"])
    src = ("h", 0) if src_kind == "fresh" else ("call", t_open, ())
    gated = [rng.random() < 0.6 for _ in parents]

    def lim():
        return {rng.choice(list(resources)): 1} if resources and rng.random() < 0.6 else None

    prog: list = [None] * (gates[-1] + 1)
    prog[0] = {"n": 0, "limits": None,
               "body": ("l", tuple(("call", pt, (("call", gates[i], ()),) if gated[i] else ()) for i, pt in enumerate(parents)))}
    for i, pt in enumerate(parents):
        items = [("call", rng.choice(uses), (src,))]
        if rng.random() < 0.5:
            items.append(("c", i))                      # makes the parents' results differ
        if rng.random() < 0.3:
            items.insert(0, ("call", gates[i], ()))     # an unrelated sibling of the Handle-taking child
        prog[pt] = {"n": 1 if gated[i] else 0, "body": ("l", tuple(items)), "limits": lim()}
    for u in uses:
        kind = rng.choice(["const", "return", "pass"])
        if kind == "const":
            b = ("c", u)
        elif kind == "return":
            b = ("l", (("c", u), ("p", 0)))             # returns the Handle: apply_call(eval_hash) state
        else:
            b = ("l", (("call", gates[0], ()), ("p", 0)))
        prog[u] = {"n": 1, "body": b, "limits": lim()}
    prog[t_open] = {"n": 0, "body": ("h", 0), "limits": lim()}
    for i, g in enumerate(gates):
        prog[g] = {"n": 0, "body": ("c", 100 + i), "limits": lim()}
    return prog


def gen_lazy(rng: random.Random, resources=("r0",)):
    """Handle-free programs in which ONE parent job demands the same call expression more than once, the later
    demand gated by an independent job: `[x, cond(check(), x, 0)]`, `[cond(check(), x, 0), x]`, `seq([x, x])`,
    `[x, cond(check(), [x, y], x)]`, `[x, seq([check(), x])]`.  Whether the later demand finds x still running or
    already concluded is decided by the completion order of x and check (and by limit waits).  x and check return
    ints (no shared container objects)."""
    k = rng.choice([1, 2, 2])
    parents = list(range(1, k + 1))
    xs = [k + 1, k + 2]            # x tasks: one parameter, return it / a constant
    checks = [k + 3, k + 4]        # gates: return 1 / 0
    t_y = k + 5

    def lim():
        return {rng.choice(list(resources)): 1} if resources and rng.random() < 0.5 else None

    def shape(i):
        x = ("call", rng.choice(xs), (("c", rng.randint(0, 2)),))
        chk = ("call", rng.choice(checks), ())
        y = ("call", t_y, ())
        kind = rng.randrange(6)
        if kind == 0:
            return ("l", (x, ("cond", chk, x, ("c", 0))))
        if kind == 1:
            return ("l", (("cond", chk, x, ("c", 0)), x))
        if kind == 2:
            return ("seq", (x, x))
        if kind == 3:
            return ("l", (x, ("cond", chk, ("l", (x, y)), x)))
        if kind == 4:
            return ("l", (x, ("seq", (chk, x))))
        return ("l", (y, x, ("cond", chk, ("cond", ("call", checks[0], ()), x, y), ("c", i))))

    prog: list = [None] * (t_y + 1)
    root_items = [("call", pt, ()) for pt in parents]
    if rng.random() < 0.4:
        root_items.append(shape(0))
    prog[0] = {"n": 0, "body": ("l", tuple(root_items)), "limits": None}
    for i, pt in enumerate(parents):
        prog[pt] = {"n": 0, "body": shape(i + 1), "limits": lim()}
    prog[xs[0]] = {"n": 1, "body": ("p", 0), "limits": lim()}
    prog[xs[1]] = {"n": 1, "body": ("c", 10), "limits": lim()}
    prog[checks[0]] = {"n": 0, "body": ("c", 1), "limits": lim()}
    prog[checks[1]] = {"n": 0, "body": ("c", rng.choice([0, 1])), "limits": lim()}
    prog[t_y] = {"n": 0, "body": ("c", 5), "limits": lim()}
    return prog
