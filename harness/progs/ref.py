"""Reference semantics of the program specs of harness/progs/vm.py (no scheduler, no cache):
the documented graph-reduction result. Used as an implementation-independent oracle."""
from __future__ import annotations


class Ambiguous(Exception):
    """Several outcomes are admissible (a catch around a container with several failing children)."""


class Raised(Exception):
    def __init__(self, msgs):
        self.msgs = set(msgs)


def merge_ctx(parent: dict, override: dict | None) -> dict:
    out = dict(parent)
    out.update(override or {})
    return out


def ref_eval(spec, ctx=None):
    """Value of call(spec) under parent context ctx; raises Raised(set of admissible messages)."""
    ctx = ctx or {}
    name, kind, payload, children = spec[:4]
    opts = spec[4] if len(spec) > 4 and spec[4] else {}
    myctx = merge_ctx(ctx, opts.get("context"))
    if kind == "leaf":
        return payload
    if kind == "ctx":
        return ["ctx", payload, myctx.get("k", "none")]
    if kind == "cfail":
        k = myctx.get("k", "none")
        if k == 1:
            raise Raised([f"strict{payload}"])
        return ["ok", payload, k]
    if kind == "raise":
        raise Raised([str(payload)])
    if kind == "list":
        vals, errs = [], set()
        for ch in children:
            try:
                vals.append(ref_eval(ch, myctx))
            except Raised as r:
                errs |= r.msgs
        if errs:
            raise Raised(errs)       # which one surfaces depends on the schedule
        return [payload, vals]
    if kind == "seq":
        vals = []
        for ch in children:
            vals.append(ref_eval(ch, myctx))   # first failure stops the sequence
        return vals
    if kind == "seqnest":
        vals, errs = [], set()
        for ch in children[:-1]:             # the first item is a list of calls: evaluated together
            try:
                vals.append(ref_eval(ch, myctx))
            except Raised as r:
                errs |= r.msgs
        if errs:
            raise Raised(errs)
        return [vals, [ref_eval(children[-1], myctx)]]
    if kind == "catch":
        try:
            return ref_eval(children[0], myctx)
        except Raised as r:
            if len(r.msgs) == 1:
                return ("recovered", next(iter(r.msgs)))
            raise Ambiguous() from None
    if kind == "catchthen":
        v = ref_eval(children[0], myctx)      # the bare second demand raises what the call raises
        return [v, v]
    if kind == "catchany":
        try:
            return ref_eval(children[0], myctx)
        except Raised as r:
            if len(r.msgs) == 1:
                return ("recovered", next(iter(r.msgs)))
            raise Ambiguous() from None
    if kind == "all":
        outs = []
        for ch in children:
            try:
                outs.append(("val", ref_eval(ch, myctx)))
            except Raised as r:
                if len(r.msgs) != 1:
                    raise Ambiguous() from None
                outs.append(("err", next(iter(r.msgs))))
        errs = [m for t, m in outs if t == "err"]
        if not errs:
            return [v for _, v in outs]
        if payload == 1:
            return ["recovered_all", [[t, v] for t, v in outs]]
        raise Raised([errs[0]])      # positional: the first failing term of the nested value, whatever finished first
    raise AssertionError(kind)
