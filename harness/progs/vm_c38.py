"""Program specs with sub-scheduler runs (C38): harness/progs/vm.py's language plus the kind 'subrun'.

A spec is (name, kind, payload, children[, opts]) as in vm.py; the interpreter is a separate task (`node38`) so that
the sub-scheduler (which imports this module through subrun's load_modules) finds it by name.

  kind 'subrun' : payload is a tuple of pairs, read as a dict:
       new_execution (bool), executor (name in the caller's config), cache_scope / check_valid (forwarded with
       subrun.options(...)), aslist (bool: hand the children over as a nested list of calls instead of one call),
       wrap ('catch' / 'seq': the subrun'd expression is that scheduler-task call over the children)
  opts may carry "lazy": (option name, shape, spec): a call-time option whose value is a lazy expression
     returns subrun(<child call(s)>, executor=..., new_execution=...)
  kind 'ctx'    : returns ["ctx", payload, <context variable k>, <context variable j>] ("none" when unset); the harness
       defines k (never j) in the scheduler's config-level context for some programs
  kind 'probe'  : returns probe38(payload): an impure task reading external state and logging each real execution (only
       used by the multi-execution histories, which compare subrun with direct evaluation, not with the reference)
  every other kind behaves exactly as in vm.py.

`erase(spec)` removes the subrun nodes: the same program evaluated directly.
`ref_outcomes` is the scheduler-free, set-valued reference (subrun is the identity on values and errors, and forwards
the context; call options, lazy or not, do not change a value).
"""
from redun import task
from redun.context import get_context
from redun.functools import seq
from redun.scheduler import catch, subrun

from harness.progs.ref import Raised, merge_ctx

redun_namespace = "rvvm38"


@task(version="1")
def recover38(error):
    return ("recovered", str(error))


def _probe_dir():
    import os
    return os.environ.get("RV_C38_PROBE_DIR") or os.getcwd()


@task(version="1")
def probe38(name):
    """IMPURE on purpose: returns the external state (file `state` in RV_C38_PROBE_DIR, changed by the harness between
    executions) and leaves a mark in `log` every time it really executes, so that re-execution is observable."""
    import os
    d = _probe_dir()
    try:
        with open(os.path.join(d, "state")) as f:
            state = f.read().strip()
    except OSError:
        state = "unset"
    with open(os.path.join(d, "log"), "a") as f:
        f.write(f"{name}\n")
    if state.startswith("fail"):
        raise ValueError(f"probe {name} {state}")      # the cause of the failure lives outside, and can be repaired
    return ["probe", name, state]


@task(version="1")
def node38(spec):
    name, kind, payload, children = spec[:4]
    if kind == "leaf":
        return payload
    if kind == "probe":
        return probe38(payload)
    if kind == "raise":
        raise ValueError(payload)
    if kind == "ctx":
        return ["ctx", payload, get_context("k", "none"), get_context("j", "none")]
    calls = [call38(ch) for ch in children]
    if kind == "list":
        return [payload, calls]
    if kind == "catch":
        return catch(calls[0], ValueError, recover38)
    if kind == "seq":
        return seq(calls)
    if kind == "subrun":
        p = dict(payload)
        sr = subrun
        so = {k: p[k] for k in ("cache_scope", "check_valid") if k in p}
        if so:
            sr = subrun.options(**so)
        inner = list(calls) if p.get("aslist") else calls[0]
        if p.get("wrap") == "catch":          # the subrun'd expression is a scheduler-task call itself
            inner = catch(calls[0], ValueError, recover38)
        elif p.get("wrap") == "seq":
            inner = seq(list(calls))
        return sr(inner, executor=p.get("executor", "default"), new_execution=bool(p.get("new_execution", False)))
    raise AssertionError(kind)


@task(version="1", cache=True, check_valid="shallow")
async def anode38(x):
    """an async task (only used to drive Scheduler._get_cache's async special case; never executed)"""
    return x


def _lazy_options(opts, call):
    """opts["lazy"] = (option name, shape, spec): a call-time option whose VALUE is a lazy expression --
    shape 'call': a task call, 'simple': a SimpleExpression over one, 'nested': one nested in a dict/list value"""
    lz = opts.pop("lazy", None)
    if lz:
        oname, shape, sub = lz
        e = call(sub)
        if shape == "simple":
            e = e + 1
        elif shape == "nested":
            e = {"a": [e, 1]}
        opts[oname] = e
    return opts


def call38(spec):
    opts = _lazy_options(dict(spec[4]) if len(spec) > 4 and spec[4] else {}, call38)
    t = node38
    ctx = opts.pop("context", None)
    if opts:
        t = t.options(**opts)
    if ctx:
        t = t.update_context(ctx)
    return t(spec[:4])


def erase(spec):
    """The same program without sub-scheduler runs (subrun(e) replaced by e, subrun([e..]) by a seq-free list)."""
    name, kind, payload, children = spec[:4]
    opts = spec[4] if len(spec) > 4 else None
    if opts and "lazy" in opts:
        opts = dict(opts, lazy=(opts["lazy"][0], opts["lazy"][1], erase(opts["lazy"][2])))
    ch = tuple(erase(c) for c in children)
    if kind == "subrun":
        p = dict(payload)
        if p.get("wrap"):
            return (name, "alias", p["wrap"], ch, opts)
        if p.get("aslist"):
            return (name, "plainlist", 0, ch, opts)
        return (name, "alias", 0, ch, opts)
    return (name, kind, payload, ch, opts)


@task(version="1")
def direct38(spec):
    """Interpreter of erased specs: 'alias' returns its child call, 'plainlist' the list of child calls."""
    name, kind, payload, children = spec[:4]
    if kind == "leaf":
        return payload
    if kind == "probe":
        return probe38(payload)
    if kind == "raise":
        raise ValueError(payload)
    if kind == "ctx":
        return ["ctx", payload, get_context("k", "none"), get_context("j", "none")]
    calls = [calld(ch) for ch in children]
    if kind == "list":
        return [payload, calls]
    if kind == "catch":
        return catch(calls[0], ValueError, recover38)
    if kind == "seq":
        return seq(calls)
    if kind == "alias":
        if payload == "catch":
            return catch(calls[0], ValueError, recover38)
        if payload == "seq":
            return seq(list(calls))
        return calls[0]
    if kind == "plainlist":
        return list(calls)
    raise AssertionError(kind)


def calld(spec):
    opts = _lazy_options(dict(spec[4]) if len(spec) > 4 and spec[4] else {}, calld)
    t = direct38
    ctx = opts.pop("context", None)
    if opts:
        t = t.options(**opts)
    if ctx:
        t = t.update_context(ctx)
    return t(spec[:4])


# ---------------------------------------------------------------------------------------------------------------
# Set-valued reference: which error of several failing siblings surfaces depends on the schedule, so a program can
# have several admissible outcomes (e.g. catch around a container with two failing children recovers either one).
MAX_OUTCOMES = 512


class TooManyOutcomes(Exception):
    pass


def freeze(v):
    if isinstance(v, (list, tuple)):
        return tuple(freeze(x) for x in v)
    return v


def ref_outcomes(spec, ctx=None):
    """All admissible outcomes of call38(spec) under parent context ctx, as a set of ("val", frozen value) /
    ("err", message).  A superset of what one run can show (equal calls are treated independently), so comparing
    against it never flags behaviour the property allows.  Raises TooManyOutcomes beyond MAX_OUTCOMES."""
    ctx = ctx or {}
    name, kind, payload, children = spec[:4]
    opts = spec[4] if len(spec) > 4 and spec[4] else {}
    myctx = merge_ctx(ctx, opts.get("context"))
    if kind == "leaf":
        return {("val", freeze(payload))}
    if kind == "ctx":
        return {("val", ("ctx", payload, myctx.get("k", "none"), myctx.get("j", "none")))}
    if kind == "raise":
        return {("err", str(payload))}
    kids = [ref_outcomes(ch, myctx) for ch in children]
    wrap = (dict(payload).get("wrap") if kind == "subrun" else payload if kind == "alias" else None) or None
    if wrap == "catch":
        kind = "catch"
    elif wrap == "seq":
        kind = "seq"
    elif kind in ("subrun", "alias") and not (kind == "subrun" and dict(payload).get("aslist")):
        return kids[0]
    if kind == "catch":
        return {o if o[0] == "val" else ("val", ("recovered", o[1])) for o in kids[0]}
    out = set()
    n = 1
    for k in kids:
        n *= max(1, len(k))
        if n > MAX_OUTCOMES:
            raise TooManyOutcomes(name)
    import itertools
    for combo in itertools.product(*kids):
        errs = [o[1] for o in combo if o[0] == "err"]
        if kind == "seq":
            # sequential: the first failing child stops the sequence
            if errs:
                out.add(("err", errs[0]))
            else:
                out.add(("val", tuple(o[1] for o in combo)))
        elif kind in ("list", "plainlist", "subrun"):
            if errs:
                out |= {("err", e) for e in errs}         # whichever failing child is seen first
            else:
                vals = tuple(o[1] for o in combo)
                out.add(("val", (payload, vals) if kind == "list" else vals))
        else:
            raise AssertionError(kind)
    return out
