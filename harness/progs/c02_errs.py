"""Exception classes raised by the generated C02 program family (stable, importable: cached
recover expressions pickle the caught exception by class reference)."""


class PErr(Exception):
    """Base class of every error a generated task body raises; what catch() catches."""
    code = None

    def __reduce__(self):
        return (type(self), ())


def _mk(i):
    return type(f"PErr{i}", (PErr,), {"code": i, "__module__": __name__})


for _i in range(1, 10):
    globals()[f"PErr{_i}"] = _mk(_i)


def err(i):
    return globals()[f"PErr{i}"]()
