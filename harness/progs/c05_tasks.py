"""Programs for the C05 oracle in which a task call appears as a DEFAULT ARGUMENT of a task that is called with a
context override: the default is evaluated under the called task's context, the same call may also be made directly
under the outer context.  Every leaf returns the context it ran under, so sharing across contexts is visible."""
from redun import task
from redun.context import get_context

redun_namespace = "rvc05"
CALLS = []


@task(version="1")
def probe(tag):
    k = get_context("k", "none")
    CALLS.append(("probe", tag, k))
    return ["probe", tag, k]


@task(version="1", check_valid="shallow")
def probe_shallow(tag):
    k = get_context("k", "none")
    CALLS.append(("probe_shallow", tag, k))
    return ["probe", tag, k]


@task(version="1")
def with_default(x, y=probe("d")):
    return [x, y]


@task(version="1")
def with_default_shallow(x, y=probe_shallow("d")):
    return [x, y]


@task(version="1")
def outer_direct_first(override):
    return [probe("d"), with_default.update_context({"k": override})(1)]


@task(version="1")
def outer_override_first(override):
    return [with_default.update_context({"k": override})(1), probe("d")]


@task(version="1")
def outer_shallow(override):
    return [probe_shallow("d"), with_default_shallow.update_context({"k": override})(1)]


@task(version="1")
def show(v):
    return repr(v)


@task(version="1")
def ctx_reader(tag):
    CALLS.append(("ctx_reader", tag))
    return show(get_context("k", "none"))


@task(version="1")
def ctx_mid(tag):
    """does not read the context itself: only its child does"""
    return ctx_reader(tag)


@task(version="1", check_valid="shallow")
def ctx_mid_shallow(tag):
    return ctx_reader(tag)


@task(version="1")
def two_contexts(c1, c2, shallow):
    t = ctx_mid_shallow if shallow else ctx_mid
    return [t.update_context({"k": c1})("a"), t.update_context({"k": c2})("a")]


# pairs of context values that are different values but equal under some lossy rendering
LOOKALIKE = [({1: 10}, {"1": 10}), ((2, 3), [2, 3]), (1, True), (1, 1.0), ("1", 1), ({"a": (1,)}, {"a": [1]}),
             (None, "None"), ([], ())]


def program(shape, override):
    return {"direct-first": outer_direct_first, "override-first": outer_override_first, "shallow": outer_shallow}[shape](override)


def expected(shape, outer_k, override):
    d = ["probe", "d", outer_k]
    o = [1, ["probe", "d", override]]
    return [o, d] if shape == "override-first" else [d, o]
