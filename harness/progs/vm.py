"""Generic redun tasks interpreting a small program spec, used to drive the real Scheduler.

A spec is a nested tuple  (name, kind, payload, children)  where children are specs:
  kind 'leaf'   : returns payload
  kind 'cfail'  : returns cfail_leaf(<context k>, payload): raises ValueError('strict<payload>') iff k == 1
  kind 'ctx'    : returns ["ctx", payload, <context variable k of the job, or "none">]
  kind 'raise'  : raises ValueError(payload)
  kind 'list'   : returns [child calls...] (a nested list of lazy calls)
  kind 'catch'  : returns catch(child0, ValueError, recover) (recover returns ('recovered', msg))
  kind 'seq'    : returns seq([children])
  kind 'seqnest': returns seq([[children[:-1]...], [children[-1]]]) -- seq items that are containers of lazy calls
  kind 'catchthen': returns seq([catch(child0, ValueError, recover), child0]) -- one expression object, demanded twice
  kind 'catchany': returns catch(child0, Exception, recover)
  kind 'all'    : returns catch_all([children], cls, rec): payload 0 = no recover (first error BY POSITION is re-raised
                  once every child settled), 1 = recover_all on ValueError (all errors match: recover_all gets the list of
                  values and errors), 2 = recover_all on KeyError (no error matches: first error by position re-raised)
Options per call come from the spec's payload dict for containers: spec = (name, kind, payload, children, opts)
with opts = dict(limits=..., cache_scope=..., context=...).
Equal specs are equal calls (twins) — the eval key is a function of the spec.
"""
from redun import task
from redun.context import get_context
from redun.scheduler import catch, catch_all
from redun.functools import seq

redun_namespace = "rvvm"


@task(version="1")
def recover(error):
    return ("recovered", str(error))


@task(version="1")
def recover_all(values):
    return ["recovered_all", [["err", str(v)] if isinstance(v, Exception) else ["val", v] for v in values]]


@task(version="1")
def cfail_leaf(k, payload):
    if k == 1:
        raise ValueError(f"strict{payload}")
    return ["ok", payload, k]


@task(version="1")
def node(spec):
    name, kind, payload, children = spec[:4]
    if kind == "leaf":
        return payload
    if kind == "raise":
        raise ValueError(payload)
    if kind == "cfail":
        # fails iff context variable "k" is 1 in this job's context (the failure happens in a child call)
        return cfail_leaf(get_context("k", "none"), payload)
    if kind == "ctx":
        # the value of context variable "k" in this job's context (final value depends on the context)
        return ["ctx", payload, get_context("k", "none")]
    calls = [call(ch) for ch in children]
    if kind == "list":
        return [payload, calls]
    if kind == "catch":
        return catch(calls[0], ValueError, recover)
    if kind == "seq":
        return seq(calls)
    if kind == "seqnest":
        # items of a seq that are CONTAINERS of lazy calls (evaluated as nested values), then a lazy call in a container
        return seq([list(calls[:-1]), [calls[-1]]])
    if kind == "catchthen":
        # the SAME expression demanded twice by one job, the second demand staged after the first one settled:
        # first inside a catch (so the job survives a failure), then bare
        return seq([catch(calls[0], ValueError, recover), calls[0]])
    if kind == "catchany":
        # catches every Exception (e.g. the SchedulerError of a job rejected before it reaches an executor)
        return catch(calls[0], Exception, recover)
    if kind == "all":
        if payload == 0:
            return catch_all(calls)
        return catch_all(calls, ValueError if payload == 1 else KeyError, recover_all)
    raise AssertionError(kind)


def call(spec):
    opts = dict(spec[4]) if len(spec) > 4 and spec[4] else {}
    t = node
    ctx = opts.pop("context", None)
    if opts:
        t = t.options(**opts)
    if ctx:
        t = t.update_context(ctx)
    return t(spec[:4])
