"""Program specs for the C20 check (recorded call graph = Merkle record of the run).

Same spec language as harness/progs/vm.py (imported ideas, separate tasks so that vm.py stays untouched):
  spec = (name, kind, payload, children, opts)
kinds of vm.py:  leaf | raise | ctx | list | catch | seq
new kinds:
  'val'   : returns a structured value built from payload (see build_value): nested lists/dicts, File
            objects (recorded with Subvalue rows), so that the value table gets subvalues
  'tagv'  : returns apply_tags(build_value(payload["value"]), tags=, job_tags=, execution_tags=)
  'tagc'  : returns apply_tags(call(child0), tags=, job_tags=, execution_tags=)   (tags on a call's result)
opts (per call): limits / cache_scope / prov / context (as vm.py) plus
  'tags'  : job-level `tags` task option  (node.options(tags=[...]))
  'task'  : "node" (default) | "tnode" (a task defined with @task(tags=TASK_TAGS)) | "snode" (check_valid="shallow")
Equal (spec[:4], task) are equal calls (twins); the call-time options are not part of the arguments.
"""
from redun import File, task
from redun.context import get_context
from redun.functools import seq
from redun.scheduler import apply_tags, catch

redun_namespace = "rvvm20"

TASK_TAGS = [("tier", "gold"), ("owner", "rv")]


def build_value(p):
    """Payload (hashable, nested tuples) -> value. ("F", path) -> File(path); ("L", items) -> list;
    ("D", ((k, v), ...)) -> dict; anything else is itself."""
    if isinstance(p, tuple) and p and p[0] == "F":
        return File(p[1])
    if isinstance(p, tuple) and p and p[0] == "L":
        return [build_value(x) for x in p[1]]
    if isinstance(p, tuple) and p and p[0] == "D":
        return {k: build_value(v) for k, v in p[1]}
    return p


@task(version="1")
def recover(error):
    return ("recovered", str(error))


def body(spec):
    name, kind, payload, children = spec[:4]
    if kind == "leaf":
        return payload
    if kind == "val":
        return build_value(payload)
    if kind == "raise":
        raise ValueError(payload)
    if kind == "ctx":
        return ["ctx", payload, get_context("k", "none")]
    if kind == "tagv":
        d = dict(payload)
        return apply_tags(build_value(d["value"]), tags=list(d.get("tags", ())), job_tags=list(d.get("job_tags", ())),
                          execution_tags=list(d.get("execution_tags", ())))
    calls = [call(ch) for ch in children]
    if kind == "tagc":
        d = dict(payload)
        return apply_tags(calls[0], tags=list(d.get("tags", ())), job_tags=list(d.get("job_tags", ())),
                          execution_tags=list(d.get("execution_tags", ())))
    if kind == "list":
        return [payload, calls]
    if kind == "catch":
        return catch(calls[0], ValueError, recover)
    if kind == "seq":
        return seq(calls)
    raise AssertionError(kind)


@task(version="1")
def node(spec):
    return body(spec)


@task(version="1", tags=TASK_TAGS)
def tnode(spec):
    return body(spec)


@task(version="1", check_valid="shallow")
def snode(spec):
    return body(spec)


TASKS = {"node": node, "tnode": tnode, "snode": snode}


@task(version="1")
def ident(x):
    """Returns its argument: node(ident(spec)) is a different expression than node(spec) but the same call once
    the argument is evaluated (same-parent twins that are not merged as expressions)."""
    return x


def call(spec):
    opts = dict(spec[4]) if len(spec) > 4 and spec[4] else {}
    t = TASKS[opts.pop("task", "node")]
    via = opts.pop("via", False)
    ctx = opts.pop("context", None)
    if "tags" in opts:
        opts["tags"] = [tuple(x) for x in opts["tags"]]
    if opts:
        t = t.options(**opts)
    if ctx:
        t = t.update_context(ctx)
    return t(ident(spec[:4])) if via else t(spec[:4])
