"""fork_thread / join_thread programs for the C01 oracle: join_thread(fork_thread(e)) reduces to e, in every session on a
shared backend, whatever earlier sessions cached (seeded change C01c: tracked promises numbered per scheduler)."""
from redun import task
from redun.functools import const
from redun.scheduler import fork_thread, join_thread

redun_namespace = "rvc01t"


@task(version="1")
def double(x):
    return 2 * x


@task(version="1")
def make_thread(x):
    return fork_thread(double(x))


@task(version="1")
def take_thread(thread):
    return join_thread(thread)


@task(version="1")
def session(xs):
    """fork the threads one after the other (in the order of xs), join them in reverse order, one after the other"""
    us = []
    for i, x in enumerate(xs):
        us.append(make_thread(x if i == 0 else const(x, us[-1])))
    rs = [None] * len(xs)
    prev = None
    for i in reversed(range(len(xs))):
        rs[i] = take_thread(us[i] if prev is None else const(us[i], prev))
        prev = rs[i]
    return rs


# ---- one Scheduler object used for several runs (a notebook session): each run reduces its own expression ----
@task(version="1")
def slow_ok(x, delay):
    import time
    time.sleep(delay)
    return x


@task(version="1")
def boom_now(msg):
    raise ValueError(msg)


@task(version="1")
def aborted(msg, delay):
    """fails at once while a sibling is still with its executor"""
    return [boom_now(msg), slow_ok(1, delay)]
