"""Drive the real redun Scheduler deterministically and record a trace of model ops.

* ControlledExecutor holds submitted jobs; the schedule (a seeded RNG) decides when each is completed.
* Instrumentation is by wrapping bound methods of one Scheduler instance (no change to /repo).
* The trace is a list of (op, observation-or-None) in the vocabulary of coq/Model/JobMachine.v.
"""
from __future__ import annotations

import os
import random
import shutil
import tempfile

from redun import Scheduler
from redun.config import Config
from redun.executors.base import Executor
from redun.scheduler import CacheScope, DryRunResult, ErrorValue
from redun.backends.base import CacheResult


class Deadlock(Exception):
    pass


class ControlledExecutor(Executor):
    def __init__(self, name="default"):
        super().__init__(name)
        self.held = []
        self.nsubmits = {}

    def submit(self, job):
        self.held.append(job)
        self.nsubmits[job.id] = self.nsubmits.get(job.id, 0) + 1

    submit_script = submit


class Intern:
    def __init__(self, start=0):
        self.d = {}
        self.start = start

    def __call__(self, x):
        if x not in self.d:
            self.d[x] = len(self.d) + self.start
        return self.d[x]


class Tracer:
    """Wraps one Scheduler. After run(), .trace holds [(op, obs|None)], .jobs the job order."""

    def __init__(self, sched: Scheduler, ex: ControlledExecutor, rng: random.Random, resources: list[str],
                 complete_prob=0.3, fifo=True, priority=None, chooser=None):
        self.s, self.ex, self.rng = sched, ex, rng
        self.resources = resources
        self.res_id = {r: i for i, r in enumerate(resources)}
        self.jobid = {}          # real job.id -> model id
        self.jobobj = []
        self.expr_of = {}
        self.newop_index = {}    # model id -> index in trace of its ONew
        self.first_args = {}     # model id -> evaluated (args, kwargs)
        self.trace = []
        self.labels = []         # model of the event queue: list of (kind, model id)
        self.depth = 0
        self.from_executor = False
        self.preset = set()      # model ids whose final value the model already knows
        self.keys = Intern()
        self.ctxs = Intern(1)
        self.vals = Intern()
        self.complete_prob = complete_prob
        self.priority = priority     # optional list of spec names: complete the held job named earliest
        self.chooser = chooser       # optional callable(list of held jobs) -> index
        self.deadlock = False
        self.status = {}
        self.last_cache_type = None
        self.unmodelled = 0
        self.install()

    # ------------------------------------------------------------------ ops
    def emit(self, op, obs=None):
        self.trace.append([op, obs])

    def snapshot(self):
        s = self.s
        used = [int(s.limits_used.get(r, 0)) for r in self.resources]
        waiting = [self.jobid[j.id] for j, _ in s._jobs_pending_limits]
        pending = sorted(self.jobid[j.id] for j in s._pending_jobs.values() if j.id in self.jobid)
        submits = [self.ex.nsubmits.get(j.id, 0) for j in self.jobobj]
        status = []
        wait_ids = {j.id for j, _ in s._jobs_pending_limits}
        for j in self.jobobj:
            st = self.status.get(j.id)
            if st is None:
                st = 3 if j.id in wait_ids else 0
            status.append(st)
        return {"used": used, "waiting": waiting, "pending": pending, "queue": len(self.labels),
                "submits": submits, "status": status}

    # ------------------------------------------------------------------ wrappers
    def install(self):
        s = self.s
        T = self

        orig_exec_job = s._exec_job

        def _exec_job(job, eval_args, *more, **kw):     # extra parameters of a changed signature are passed through
            if job.id not in T.jobid:
                mid = len(T.jobobj)
                T.jobid[job.id] = mid
                T.jobobj.append(job)
                T.newop_index[mid] = len(T.trace)
                T.first_args[mid] = eval_args   # (args, kwargs) as first evaluated (jobs are cleared later)
                try:                            # (parent job, hash of the expression this job evaluates)
                    T.expr_of[mid] = (job.parent_job.id if job.parent_job else None, job.expr.get_hash())
                except Exception:  # noqa
                    T.expr_of[mid] = None
                T.emit(["ONew", mid])        # parameters filled in after the run
            T.labels.append(("exec", T.jobid[job.id]))
            return orig_exec_job(job, eval_args, *more, **kw)
        s._exec_job = _exec_job

        orig_done = s.done_job

        def done_job(job, result, *more, **kw):
            mid = T.jobid[job.id]
            if T.status.get(job.id) == 4:
                T.status[job.id] = None      # collapsed twin got its result: Done event queued
            if T.from_executor:
                T.emit(["OComplete", mid, True, 0])
            T.labels.append(("done", mid))
            return orig_done(job, result, *more, **kw)
        s.done_job = done_job

        orig_reject = s.reject_job

        def reject_job(job, error, *more, **kw):
            if job is None:
                T.unmodelled += 1
                return orig_reject(job, error, *more, **kw)
            mid = T.jobid[job.id]
            e = T.vals(("err", type(error).__name__, str(error)))
            if T.from_executor:
                T.emit(["OComplete", mid, False, e])
            elif T.in_exec_handler == mid:
                pass    # unknown executor / cached error: the model enqueues this itself
            else:
                T.emit(["OEval", mid, ("Ko", e)])
            T.labels.append(("reject", mid))
            return orig_reject(job, error, *more, **kw)
        s.reject_job = reject_job

        orig_resolve = s._resolve_job

        def _resolve_job(job, result, *more, **kw):
            mid = T.jobid[job.id]
            if mid not in T.preset:
                T.emit(["OEval", mid, ("Ok", T.vals(("val", repr(result))))])
            T.labels.append(("resolve", mid))
            return orig_resolve(job, result, *more, **kw)
        s._resolve_job = _resolve_job

        def wrap_handler(name, kind):
            orig = getattr(s, name)

            def handler(job, *a, **kw):
                if job is None or T.depth > 0:
                    T.depth += 1
                    try:
                        if job is not None and kind == "reject":
                            T.status[job.id] = 2
                        return orig(job, *a, **kw)
                    finally:
                        T.depth -= 1
                mid = T.jobid[job.id]
                lab = (kind, mid)
                i = T.labels.index(lab)
                T.labels.pop(i)
                T.last_cache_type = None
                opi = len(T.trace)
                T.emit(["OPop", {"exec": 0, "done": 1, "reject": 2, "resolve": 3}[kind], mid, "CMiss"])
                T.depth += 1
                T.in_exec_handler = mid if kind == "exec" else None
                try:
                    r = orig(job, *a, **kw)
                finally:
                    T.depth -= 1
                    T.in_exec_handler = None
                if kind == "exec":
                    ct, res = T.last_cache_type or (None, None)
                    if ct == CacheResult.ULTIMATE:
                        T.trace[opi][0][3] = ("CHitFinal", T.vals(("val", repr(res))))
                        T.preset.add(mid)
                    elif ct == CacheResult.SINGLE:
                        T.trace[opi][0][3] = "CHitExpr"
                    elif ct == CacheResult.CSE:
                        if not isinstance(res, ErrorValue):
                            T.preset.add(mid)
                            # the backend's answer, for the states in which the model leaves the same-execution
                            # look-up to the backend (context-free call whose twin was recorded under a context)
                            T.trace[opi][0][3] = ("CHitFinal", T.vals(("val", repr(res))))
                if kind == "resolve":
                    T.status[job.id] = 1
                if kind == "reject":
                    T.status[job.id] = 2
                # attach the observation to the last op emitted during this handler
                T.trace[-1][1] = T.snapshot()
                return r
            setattr(s, name, handler)

        self.in_exec_handler = None
        wrap_handler("_exec_job_main_thread", "exec")
        wrap_handler("_done_job_main_thread", "done")
        wrap_handler("_resolve_job_main_thread", "resolve")
        wrap_handler("_reject_job_main_thread", "reject")

        orig_get_cache = s._get_cache

        def _get_cache(job):
            res, cached, call_hash = orig_get_cache(job)
            if cached:
                T.last_cache_type = (T._ct, res)
            return res, cached, call_hash
        s._get_cache = _get_cache

        orig_check = s.backend.check_cache

        def check_cache(*a, **kw):
            r = orig_check(*a, **kw)
            T._ct = r[2]
            return r
        s.backend.check_cache = check_cache
        self._ct = None

        orig_collapse_check = s._check_pending_job

        def _check_pending_job(job):
            r = orig_collapse_check(job)
            if r is not None:
                T.status[job.id] = 4
                T.preset.add(T.jobid[job.id])
            return r
        s._check_pending_job = _check_pending_job

        # the schedule: consulted whenever the event loop asks for the next event
        q = s.events_queue
        orig_get = q.get

        def get(block=True, timeout=None):
            while True:
                if T.ex.held and (q.empty() or T.rng.random() < T.complete_prob):
                    T.complete_one()
                    continue
                if q.empty():
                    T.deadlock = True
                    raise Deadlock("queue empty, nothing running, workflow promise pending")
                return orig_get(block=False)
        q.get = get

    def complete_one(self):
        idx = self.rng.randrange(len(self.ex.held))
        if self.priority:
            def rank(job):
                try:
                    name = job.args[0][0][0]
                    return self.priority.index(name)
                except Exception:
                    return len(self.priority)
            idx = min(range(len(self.ex.held)), key=lambda i: rank(self.ex.held[i]))
        if self.chooser:
            idx = self.chooser(self.ex.held)
        job = self.ex.held.pop(idx)
        args, kwargs = job.args
        self.from_executor = True
        try:
            try:
                r = job.task.func(*args, **kwargs)
            except Exception as e:  # noqa
                self.s.reject_job(job, e)
            else:
                self.s.done_job(job, r)
        finally:
            self.from_executor = False

    # ------------------------------------------------------------------ after the run
    def finish(self):
        """Fill in ONew parameters (known only once the job was first executed)."""
        s = self.s
        for mid, job in enumerate(self.jobobj):
            idx = self.newop_index[mid]
            key = self.keys((job.eval_hash,)) if job.eval_hash else self.keys(("nokey", mid))
            ctx = self.ctxs(job.context_hash) if job.context_hash else 0
            try:
                opts = job.get_options()
            except Exception:
                opts = {}
            limits = opts.get("limits", {}) or {}
            if isinstance(limits, list):
                limits = {k: 1 for k in limits}
            lim = [(self.res_id[k], int(v)) for k, v in limits.items()]
            scope = CacheScope(opts.get("cache_scope", CacheScope.BACKEND))
            allowed = opts.get("allowed_cache_results")
            nocse = scope == CacheScope.NONE or (allowed is not None and CacheResult.CSE not in allowed)
            prov = bool(opts.get("prov", True))
            badexec = (opts.get("executor") or "default") not in s.executors
            self.trace[idx][0] = ["ONew", key, ctx, lim, nocse, prov, badexec]
        return self.trace


# ---------------------------------------------------------------------- Coq rendering
def cq_op(op):
    k = op[0]
    if k == "ONew":
        _, key, ctx, lim, nocse, prov, bad = op
        l = "[" + "; ".join(f"({r}%nat, ({c})%Z)" for r, c in lim) + "]"
        b = lambda x: "true" if x else "false"
        return f"ONew {key} {ctx} {l} {b(nocse)} {b(prov)} {b(bad)}"
    if k == "OPop":
        co = op[3]
        cs = co if isinstance(co, str) else f"({co[0]} ({co[1]})%Z)"
        return f"OPop {op[1]} {op[2]} {cs}"
    if k == "OComplete":
        return f"OComplete {op[1]} {'true' if op[2] else 'false'} ({op[3]})%Z"
    if k == "OEval":
        return f"OEval {op[1]} ({op[2][0]} ({op[2][1]})%Z)"
    raise ValueError(op)


def cq_obs(o):
    if o is None:
        return "None"
    nl = lambda l: "[" + "; ".join(f"{x}%nat" for x in l) + "]"
    zl = lambda l: "[" + "; ".join(f"({x})%Z" for x in l) + "]"
    return ("(Some {| o_used := %s; o_waiting := %s; o_pending := %s; o_queue := %d%%nat; o_submits := %s; "
            "o_status := %s |})" % (zl(o["used"]), nl(o["waiting"]), nl(o["pending"]), o["queue"],
                                   nl(o["submits"]), nl(o["status"])))


def cq_trace(trace):
    return "[" + ";\n   ".join(f"({cq_op(op)}, {cq_obs(ob)})" for op, ob in trace) + "]"


# ---------------------------------------------------------------------- running one program
def run_program(expr_builder, limits: dict, rng: random.Random, dryrun=False, complete_prob=0.3,
                db_path=None, cache=True, context=None, priority=None, chooser=None):
    """Returns dict(trace, result|error, deadlock, tracer)."""
    resources = sorted(limits)
    cfg = {"backend": {"db_uri": f"sqlite:///{db_path}" if db_path else "sqlite:///:memory:"},
           "limits": {k: str(v) for k, v in limits.items()}}
    ex = ControlledExecutor()
    s = Scheduler(config=Config(cfg), executor=ex)
    s.load()
    s.logger.disabled = True
    tr = Tracer(s, ex, rng, resources, complete_prob=complete_prob, priority=priority, chooser=chooser)
    out = {"tracer": tr, "scheduler": s}
    try:
        out["result"] = s.run(expr_builder(), dryrun=dryrun, cache=cache, context=context or {})
    except Deadlock as e:
        out["deadlock"] = str(e)
    except DryRunResult:
        out["dryrun_incomplete"] = True
    except Exception as e:  # noqa
        out["error"] = (type(e).__name__, str(e))
    out["trace"] = tr.finish()
    return out
