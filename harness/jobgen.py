"""Random program specs for harness/progs/vm.py (structured: twins, failures, catch, limits, scopes, contexts)."""
from __future__ import annotations

import random


def gen_spec(rng: random.Random, resources, depth=3, pool=None, allow_fail=True, allow_ctx=False,
             allow_nocse=True, counter=None, limits=None, infeasible=0.0, twins=True, allow_all=False, all_modes=(0, 0, 1, 2)):
    pool = pool if pool is not None else []
    counter = counter if counter is not None else [0]

    def opts():
        o = {}
        if resources and rng.random() < 0.6:
            names = rng.sample(resources, rng.randint(1, min(2, len(resources))))
            if rng.random() < 0.3:
                o["limits"] = list(names)
            else:
                o["limits"] = {n: rng.choice([1, 1, 1, 2]) for n in names}
            if limits is not None and rng.random() >= infeasible:
                # keep the demand feasible: never more than the configured limit
                if isinstance(o["limits"], list):
                    o["limits"] = [n for n in o["limits"] if limits.get(n, 1) >= 1] or None
                else:
                    o["limits"] = {n: min(c, limits.get(n, 1)) for n, c in o["limits"].items() if limits.get(n, 1) >= 1} or None
                if o["limits"] is None:
                    del o["limits"]
        if allow_nocse and rng.random() < 0.1:
            o["cache_scope"] = rng.choice(["NONE", "CSE"])
        if allow_nocse and rng.random() < 0.05:
            o["prov"] = False
        if allow_ctx and rng.random() < 0.25:
            o["context"] = {"k": rng.choice([1, 2])}
        return o or None

    def leaf():
        if twins and pool and rng.random() < 0.45:
            return rng.choice(pool)          # a twin of an earlier call
        counter[0] += 1
        if allow_ctx and rng.random() < 0.2:
            s = (f"q{counter[0] % 2}", "cfail", counter[0] % 2, (), opts())
        elif allow_ctx and rng.random() < 0.5:
            s = (f"x{counter[0] % 2}", "ctx", counter[0] % 2, (), opts())
        elif allow_fail and rng.random() < 0.2:
            s = (f"f{counter[0]}", "raise", f"boom{rng.randint(0, 2)}", (), opts())
        else:
            s = (f"l{counter[0]}", "leaf", rng.randint(0, 3), (), opts())
        pool.append(s)
        return s

    def rec(d):
        if d <= 0 or rng.random() < 0.3:
            return leaf()
        counter[0] += 1
        k = rng.random()
        n = rng.choice([1, 2, 2, 3, 4])
        children = tuple(rec(d - 1) for _ in range(n))
        if allow_all and k < 0.3:
            s = (f"a{counter[0]}", "all", rng.choice(list(all_modes)), children, opts())
        elif k < 0.65:
            s = (f"n{counter[0]}", "list", rng.randint(0, 1), children, opts())
        elif k < 0.85:
            s = (f"c{counter[0]}", "catch", 0, children[:1], opts())
        else:
            s = (f"s{counter[0]}", "seq", 0, children, opts())
        if twins and rng.random() < 0.3:
            pool.append(s)
        return s

    return rec(depth)


def spec_size(spec):
    return 1 + sum(spec_size(c) for c in spec[3])
