"""C21 — Upstream dataflow of arguments is recorded."""
from __future__ import annotations

import json
import logging
from pathlib import Path

from harness.lib import (CORPUS, GEN, Finding, PropertyCheck, TranslateError, cq_list, cq_opt, run_bool_cases)
from translate import astutil, tr_dataflow

PINS_FILE = Path(__file__).resolve().parents[2] / "translate" / "pins_C21.json"

FAMILY = {"inc": 0, "pair": 1, "mk": 2, "add2": 3, "sumc": 4, "pick": 5, "boom": 6, "rec": 7, "kboom": 8, "rec2": 9}
SIGS = {"inc": ["x", "tag"], "pair": ["x", "tag"], "mk": ["x", "tag"], "add2": ["x", "y", "tag"], "sumc": ["c", "tag"],
        "pick": ["x", "tag"], "boom": ["x", "tag"], "rec": ["e"], "kboom": ["x", "tag"], "rec2": ["e", "bonus"],
        "leaf": ["x", "tag"]}       # leaf: editable task of the oracle's edit-and-rerun histories (not in FAMILY / the Coq world)
OPS = {"add": 0, "mul": 1, "getitem": 2}
NS = "c21"

# known findings (registered with tools/kf_add.py); the first five are the two defects proved in Props/C21.v
K_DUP = {"cond": "dup-sched:cond", "seq": "dup-sched:seq", "catch": "dup-sched:catch"}
K_REPLAY_MAIN = "catch-replay:main"
K_REPLAY_REC = "catch-replay:recover"
K_CATCH_ALL = "catch_all:recover"
K_MAP = "map_:mapped-calls"

# ---------------------------------------------------------------- the task family
_T = None
RECEIVED: list = []
COUNTER = [0]
LEAF = [0]          # what the current version of the editable task c21.leaf adds to its argument
IMPURE_FORMS = ["getitem", "add", "cond", "seq", "list", "dict", "direct", "catch"]


def impure_n(form, v):
    """The number drawn by the isample() call whose result flowed into the value `v` a consumer received."""
    if form in ("getitem", "cond", "seq", "catch"):
        return v
    if form == "add":
        return v - 1
    if form == "list":
        return v[0]
    if form == "dict":
        return v["a"] - 1
    if form == "direct":
        return v["n"]
    raise AssertionError(form)


def check_impure(executions):
    """executions: list of stage lists [(label, form)], run as successive executions on ONE backend object.
    Every iconsume argument `v` must be linked to exactly the isample call node(s) whose recorded result is
    the number that flowed into the value received.  Returns [(key, what)]."""
    from redun import Scheduler
    from redun.backends.db import Argument, CallNode
    logging.getLogger("redun").setLevel(logging.CRITICAL)
    t = tasks()
    backend = fresh_backend()
    bad = []
    forms = {}
    for stages in executions:
        for label, form in stages:
            forms[label] = form
        s = Scheduler(backend=backend)
        s.logger.setLevel(logging.CRITICAL)
        s.run(t["imain"]([list(x) for x in stages]))
    sess = backend.session
    sess.expire_all()
    nodes = {c.call_hash: c for c in sess.query(CallNode).all()}
    seen = set()
    for arg in sess.query(Argument).all():
        node = nodes.get(arg.call_hash)
        if node is None or node.task_name != NS + ".iconsume" or arg.arg_position != 1:
            continue
        label = [a.value_parsed for a in node.arguments if a.arg_position == 0][0]
        seen.add(label)
        form = forms[label]
        received = arg.value_parsed
        want = impure_n(form, received)
        linked = [nodes[r.result_call_hash] for r in arg.arg_results if r.result_call_hash in nodes]
        got = sorted(c.value.value_parsed["n"] for c in linked if c.task_name == NS + ".isample")
        if want not in got:
            bad.append((f"impure:missing-producer:{form}",
                        f"iconsume({label!r}, {received!r}) [{form}]: argument v is not linked to the isample() call that "
                        f"returned {{'n': {want}}}; linked isample results: {got}"))
        if any(n != want for n in got):
            bad.append((f"impure:wrong-producer:{form}",
                        f"iconsume({label!r}, {received!r}) [{form}]: argument v is linked to isample() call(s) that returned "
                        f"{[n for n in got if n != want]}, not (only) the call whose result {want} flowed into the value"))
    for label in forms:
        if label not in seen:
            bad.append(("impure:not-recorded", f"no iconsume call recorded for stage {label!r}"))
    return bad


def gen_impure(rng, forms):
    """1-2 executions of 2-4 stages; labels unique over the history, forms repeated on purpose."""
    execs, k = [], 0
    base = rng.choice(forms)
    for _ in range(rng.choice([1, 2, 2])):
        stages = []
        for _ in range(rng.randint(2, 4)):
            k += 1
            stages.append((f"s{k}", base if rng.random() < 0.7 else rng.choice(forms)))
        execs.append(stages)
    return execs


def vsum(c):
    if isinstance(c, bool):
        return 0
    if isinstance(c, int):
        return c
    if isinstance(c, (list, tuple)):
        return sum(vsum(x) for x in c)
    if isinstance(c, dict):
        return sum(vsum(x) for x in c.values())
    return 0


def tasks():
    """The task family of Model/Dataflow.v (`cw`), defined once per process."""
    global _T
    if _T is not None:
        return _T
    from redun import task
    from redun.functools import map_, seq
    from redun.scheduler import catch, catch_all, cond

    def log(name, **kw):
        RECEIVED.append((name, kw))

    @task(namespace=NS, name="inc")
    def inc(x, tag=0):
        log("inc", x=x, tag=tag)
        return x + 1

    @task(namespace=NS, name="pair")
    def pair(x, tag=0):
        log("pair", x=x, tag=tag)
        return [x, x * 2]

    @task(namespace=NS, name="mk")
    def mk(x, tag=0):
        log("mk", x=x, tag=tag)
        return {"k": x, "m": [x, 7]}

    @task(namespace=NS, name="add2")
    def add2(x, y=5, tag=0):
        log("add2", x=x, y=y, tag=tag)
        return x + y

    @task(namespace=NS, name="sumc")
    def sumc(c, tag=0):
        log("sumc", c=c, tag=tag)
        return vsum(c)

    @task(namespace=NS, name="pick")
    def pick(x, tag=0):
        log("pick", x=x, tag=tag)
        return x % 2

    @task(namespace=NS, name="boom")
    def boom(x, tag=0):
        log("boom", x=x, tag=tag)
        raise ValueError(x * 1000 + tag)

    @task(namespace=NS, name="kboom")
    def kboom(x, tag=0):
        log("kboom", x=x, tag=tag)
        raise KeyError(x * 1000 + tag)

    @task(namespace=NS, name="rec")
    def rec(e):
        log("rec", e=e)
        return 100 + e.args[0] % 1000

    @task(namespace=NS, name="rec2")
    def rec2(e, bonus=3):
        log("rec2", e=e, bonus=bonus)
        return e.args[0] % 1000 + bonus

    @task(namespace=NS, name="recall")
    def recall(values):
        return 7

    fam = {"inc": inc, "pair": pair, "mk": mk, "add2": add2, "sumc": sumc, "pick": pick, "boom": boom,
           "kboom": kboom, "rec": rec, "rec2": rec2}

    def define_leaf(k):
        """(Re)define the editable leaf task: version k returns x + 10*k.  An edit between two executions gives
        the task a new hash, so a cached parent's deserialised result expression re-runs it (oracle only)."""
        LEAF[0] = 10 * k

        @task(namespace=NS, name="leaf", version=str(k))
        def leaf(x, tag=0):
            log("leaf", x=x, tag=tag)
            return x + 10 * k

        fam["leaf"] = leaf

    define_leaf(0)
    classes = {0: ValueError, 1: KeyError, 2: (ValueError, KeyError)}

    def build(s):
        k = s[0]
        if k == "c":
            return s[1]
        if k == "L":
            return [build(x) for x in s[1]]
        if k == "D":
            return {key: build(x) for key, x in s[1]}
        if k == "t":
            pos = [build(x) for lab, x in s[2] if lab is None]
            kw = {lab: build(x) for lab, x in s[2] if lab is not None}
            return fam[s[1]](*pos, **kw)
        if k == "op":
            a, b = build(s[2][0]), build(s[2][1])
            if s[1] == "add":
                return a + b
            if s[1] == "mul":
                return a * b
            if s[1] == "getitem":
                return a[b]
            raise AssertionError(s)
        if k == "cond":
            return cond(*[build(x) for x in s[1]])
        if k == "seq":
            return seq([build(x) for x in s[1]])
        if k == "catch":
            return catch(build(s[1]), classes[s[2]], fam[s[3]])
        raise AssertionError(s)

    @task(namespace=NS, name="main")
    def main(spec):
        return build(spec)

    # two further scheduler tasks that create task calls internally (oracle only, not modelled)
    @task(namespace=NS, name="main_catch_all")
    def main_catch_all(n):
        return sumc(catch_all([boom(n, 1)], ValueError, recall), 2)

    @task(namespace=NS, name="main_map")
    def main_map(n):
        return sumc(map_(inc, [n, n + 1]), 3)

    # equal lazy expressions over an uncached, impure producer under different parent jobs (oracle only):
    # every isample() call returns a fresh number, so the value a consumer received identifies its producer
    import threading
    from redun.task import CacheScope
    lock = threading.Lock()

    @task(namespace=NS, name="isample", cache_scope=CacheScope.NONE)
    def isample():
        with lock:
            COUNTER[0] += 1
            return {"n": COUNTER[0] * 100}

    @task(namespace=NS, name="iconsume")
    def iconsume(label, v):
        return [label, v]

    def lazy(form):
        x = isample()["n"]
        if form == "getitem":
            return x
        if form == "add":
            return x + 1
        if form == "cond":
            return cond(1, x, 0)
        if form == "seq":
            return seq([x])[0]
        if form == "catch":
            return catch(x, ValueError, rec)
        if form == "list":
            return [x, 5]
        if form == "dict":
            return {"a": x + 1}
        if form == "direct":
            return isample()
        raise AssertionError(form)

    @task(namespace=NS, name="istage")
    def istage(label, form):
        return iconsume(label, lazy(form))

    @task(namespace=NS, name="imain")
    def imain(stages):
        return [istage(label, form) for label, form in stages]

    _T = {"main": main, "fam": fam, "main_catch_all": main_catch_all, "main_map": main_map, "imain": imain,
          "define_leaf": define_leaf}
    return _T


# ---------------------------------------------------------------- specs -> Coq
def cq_string(s):
    assert all(32 <= ord(c) < 127 and c != '"' for c in s), s
    return '"' + s + '"%string'


def cq_val(v):
    if isinstance(v, bool):
        raise TypeError("bool outside the model")
    if isinstance(v, int):
        return f"(VInt ({v})%Z)"
    if isinstance(v, str):
        return f"(VStr {cq_string(v)})"
    if isinstance(v, ValueError) and not isinstance(v, KeyError):
        return f"(VErr 0 ({int(v.args[0])})%Z)"
    if isinstance(v, KeyError):
        return f"(VErr 1 ({int(v.args[0])})%Z)"
    if isinstance(v, (list, tuple)):
        out = "VNil"
        for x in reversed(v):
            out = f"(VCons None {cq_val(x)} {out})"
        return out
    if isinstance(v, dict):
        out = "VNil"
        for k, x in reversed(list(v.items())):
            out = f"(VCons (Some {cq_string(k)}) {cq_val(x)} {out})"
        return out
    raise TypeError(f"value outside the model: {v!r}")


def cq_lab(lab):
    return "None" if lab is None else f"(Some {cq_string(lab)})"


def cq_exprs(items):
    out = "XNil"
    for lab, x in reversed(items):
        out = f"(XCons {cq_lab(lab)} {cq_expr(x)} {out})"
    return out


def cq_expr(s):
    k = s[0]
    if k == "c":
        return f"(EConst {cq_val(s[1])})"
    if k == "L":
        return f"(ECont {cq_exprs([(None, x) for x in s[1]])})"
    if k == "D":
        return f"(ECont {cq_exprs([(key, x) for key, x in s[1]])})"
    if k == "t":
        return f"(ETask {FAMILY[s[1]]} {cq_exprs([(lab, x) for lab, x in s[2]])})"
    if k == "op":
        return f"(ESimple {OPS[s[1]]} {cq_exprs([(None, x) for x in s[2]])})"
    if k == "cond":
        return f"(ECond {cq_exprs([(None, x) for x in s[1]])})"
    if k == "seq":
        return f"(ESeq {cq_exprs([(None, x) for x in s[1]])})"
    if k == "catch":
        return f"(ECatch {cq_expr(s[1])} {s[2]} {FAMILY[s[3]]})"
    raise AssertionError(s)


def cq_ckey(call):
    name, pos, kw = call
    return (f"({FAMILY[name]}, {cq_list([cq_val(v) for v in pos])}, "
            + cq_list([f"({cq_string(k)}, {cq_val(v)})" for k, v in sorted(kw)]) + ")")


def cq_res(r):
    if r is None:
        return "None"
    kind, v = r
    return f"(Some ({'Ok' if kind == 'ok' else 'Raise'} {cq_val(v)}))"


# ---------------------------------------------------------------- running programs on the real scheduler
_BACKEND_N = [0]


_TEMPLATE = {}


def fresh_backend():
    """A new empty backend: a copy of one migrated template database (migrating takes ~0.2 s each time)."""
    import atexit
    import os
    import shutil
    import tempfile
    from redun.backends.db import RedunBackendDb
    logging.getLogger("redun").setLevel(logging.CRITICAL)
    if not _TEMPLATE:
        base = "/dev/shm" if os.path.isdir("/dev/shm") and os.access("/dev/shm", os.W_OK) else None
        d = tempfile.mkdtemp(prefix="rv_c21_", dir=base)
        atexit.register(shutil.rmtree, d, True)
        b = RedunBackendDb(db_uri=f"sqlite:///{d}/template.db")
        b.load()
        b.session.close()
        b.engine.dispose()
        _TEMPLATE["dir"] = d
    d = _TEMPLATE["dir"]
    _BACKEND_N[0] += 1
    for old in _TEMPLATE.get("old", []):
        try:
            os.unlink(old)
        except OSError:
            pass
    path = f"{d}/b{_BACKEND_N[0]}.db"
    _TEMPLATE["old"] = [path]
    shutil.copy(f"{d}/template.db", path)
    prev = _TEMPLATE.get("prev")
    if prev is not None:
        try:
            prev.session.close()
            prev.engine.dispose()
        except Exception:  # noqa
            pass
    backend = RedunBackendDb(db_uri=f"sqlite:///{path}")
    backend.load()
    _TEMPLATE["prev"] = backend
    return backend


def run_programs(programs, backend=None):
    """Run each spec as one execution of c21.main on one backend.  Returns (backend, results, received)
    where results[i] = ("ok", value) | ("err", exception) and received[i] = the calls whose body ran."""
    from redun import Scheduler
    logging.getLogger("redun").setLevel(logging.CRITICAL)
    t = tasks()
    backend = backend or fresh_backend()
    results, received = [], []
    for spec in programs:
        s = Scheduler(backend=backend)
        s.logger.setLevel(logging.CRITICAL)
        del RECEIVED[:]
        try:
            results.append(("ok", s.run(t["main"](spec))))
        except BaseException as e:  # noqa: the workflow's own error
            if isinstance(e, (KeyboardInterrupt, SystemExit)):
                raise
            results.append(("err", e))
        received.append(list(RECEIVED))
    return backend, results, received


def read_db(backend):
    """Family calls recorded in the backend: {call_hash: (name, rows)}, rows = (pos, key, value, [upstream hashes])."""
    from redun.backends.db import Argument, CallNode
    sess = backend.session
    sess.expire_all()
    names = {}
    for cn in sess.query(CallNode).all():
        if cn.task_name.startswith(NS + ".") and cn.task_name.split(".", 1)[1] in SIGS:
            names[cn.call_hash] = cn.task_name.split(".", 1)[1]
    calls = {h: (n, []) for h, n in names.items()}
    for arg in sess.query(Argument).all():
        if arg.call_hash in calls:
            ups = sorted(r.result_call_hash for r in arg.arg_results)
            calls[arg.call_hash][1].append((arg.arg_position, arg.arg_key, arg.value_parsed, ups))
    return calls


def call_id(name, rows):
    """(name, positional values, keyword items) of a recorded call."""
    pos = [v for p, k, v, u in sorted((r for r in rows if r[0] is not None), key=lambda r: r[0])]
    kw = [(k, v) for p, k, v, u in rows if p is None]
    return (name, pos, kw)


def canon(v):
    if isinstance(v, BaseException):
        return ("exc", type(v).__name__, tuple(canon(a) for a in v.args))
    if isinstance(v, (list, tuple)):
        return ("l", tuple(canon(x) for x in v))
    if isinstance(v, dict):
        return ("d", tuple((k, canon(x)) for k, x in v.items()))
    return v


def bound_id(name, pos, kw):
    """Canonical identity of a call: parameters bound by name."""
    sig = SIGS[name]
    b = {sig[i]: canon(v) for i, v in enumerate(pos)}
    for k, v in kw:
        b[k] = canon(v)
    return (name, tuple(sorted(b.items(), key=lambda kv: kv[0])))


# ---------------------------------------------------------------- reference semantics (oracle side, no Coq)
CLS = {0: (ValueError,), 1: (KeyError,), 2: (ValueError, KeyError)}
DEFAULTS = {"inc": {"tag": 0}, "pair": {"tag": 0}, "mk": {"tag": 0}, "add2": {"y": 5, "tag": 0}, "sumc": {"tag": 0},
            "pick": {"tag": 0}, "boom": {"tag": 0}, "kboom": {"tag": 0}, "rec": {}, "rec2": {"bonus": 3},
            "leaf": {"tag": 0}}


def py_task(name, b):
    if name == "inc":
        return b["x"] + 1
    if name == "pair":
        return [b["x"], b["x"] * 2]
    if name == "mk":
        return {"k": b["x"], "m": [b["x"], 7]}
    if name == "add2":
        return b["x"] + b["y"]
    if name == "sumc":
        return vsum(b["c"])
    if name == "pick":
        return b["x"] % 2
    if name == "boom":
        raise ValueError(b["x"] * 1000 + b["tag"])
    if name == "kboom":
        raise KeyError(b["x"] * 1000 + b["tag"])
    if name == "rec":
        return 100 + b["e"].args[0] % 1000
    if name == "rec2":
        return b["e"].args[0] % 1000 + b["bonus"]
    if name == "leaf":
        return b["x"] + LEAF[0]
    raise AssertionError(name)


class Ref:
    """Pure big-step semantics of a spec and the calls that produced its value."""

    def bind(self, name, items):
        """items: [(label, value)] -> bound parameters incl. defaults."""
        sig = SIGS[name]
        b = dict(DEFAULTS[name])
        i = 0
        for lab, v in items:
            if lab is None:
                b[sig[i]] = v
                i += 1
            else:
                b[lab] = v
        return b

    def cid(self, name, items):
        b = self.bind(name, items)
        cid = (name, tuple(sorted(((k, canon(v)) for k, v in b.items()), key=lambda kv: kv[0])))
        if name == "leaf":
            # the same leaf call before and after an edit are two call nodes: told apart by their result
            cid = (name, cid[1] + (("~result", py_task(name, b)),))
        return cid

    def sems(self, items):
        """leftmost error, else list of values"""
        out, err = [], None
        for x in items:
            r = self.sem(x)
            if r[0] == "err" and err is None:
                err = r
            out.append(r[1])
        return err, out

    def sem(self, s):
        k = s[0]
        if k == "c":
            return ("ok", s[1])
        if k == "L":
            err, vs = self.sems(s[1])
            return err or ("ok", vs)
        if k == "D":
            err, vs = self.sems([x for _, x in s[1]])
            return err or ("ok", {key: v for (key, _), v in zip(s[1], vs)})
        if k == "t":
            err, vs = self.sems([x for _, x in s[2]])
            if err:
                return err
            try:
                return ("ok", py_task(s[1], self.bind(s[1], [(lab, v) for (lab, _), v in zip(s[2], vs)])))
            except (ValueError, KeyError) as e:
                return ("err", e)
        if k == "op":
            err, vs = self.sems(s[2])
            if err:
                return err
            a, b = vs
            return ("ok", a + b if s[1] == "add" else a * b if s[1] == "mul" else a[b])
        if k == "cond":
            ch = self.chosen(s)
            return self.sem(ch[1]) if ch[0] == "branch" else ch
        if k == "seq":
            for x in s[1]:
                r = self.sem(x)
                if r[0] == "err":
                    return r
            return ("ok", [self.sem(x)[1] for x in s[1]])
        if k == "catch":
            r = self.sem(s[1])
            if r[0] == "ok" or not isinstance(r[1], CLS[s[2]]):
                return r
            try:
                return ("ok", py_task(s[3], self.bind(s[3], [(None, r[1])])))
            except (ValueError, KeyError) as e:
                return ("err", e)
        raise AssertionError(s)

    def chosen(self, s):
        """("branch", spec) | ("err", exc) result tuple for a cond."""
        xs = s[1]
        i = 0
        while True:
            c = self.sem(xs[i])
            if c[0] == "err":
                return c
            if c[1]:
                return ("branch", xs[i + 1])
            if len(xs) - i == 3:
                return ("branch", xs[i + 2])
            if len(xs) - i < 3:
                return ("err", IndexError("tuple index out of range"))
            i += 2

    def prod(self, s):
        k = s[0]
        if k == "c":
            return set()
        if k in ("L", "seq"):
            return set().union(*[self.prod(x) for x in s[1]]) if s[1] else set()
        if k == "D":
            return set().union(*[self.prod(x) for _, x in s[1]]) if s[1] else set()
        if k == "t":
            err, vs = self.sems([x for _, x in s[2]])
            return set() if err else {self.cid(s[1], [(lab, v) for (lab, _), v in zip(s[2], vs)])}
        if k == "op":
            return set().union(*[self.prod(x) for x in s[2]])
        if k == "cond":
            ch = self.chosen(s)
            return self.prod(ch[1]) if ch[0] == "branch" else set()
        if k == "catch":
            r = self.sem(s[1])
            if r[0] == "ok":
                return self.prod(s[1])
            if isinstance(r[1], CLS[s[2]]):
                return {self.cid(s[3], [(None, r[1])])}
            return set()
        raise AssertionError(s)

    def mentioned(self, s):
        """every call that may legitimately be linked: all calls of the expression tree + recover calls"""
        k = s[0]
        out = set()
        if k == "c":
            return out
        subs = ([x for x in s[1]] if k in ("L", "cond", "seq") else [x for _, x in s[1]] if k == "D"
                else [x for _, x in s[2]] if k == "t" else s[2] if k == "op" else [s[1]])
        for x in subs:
            out |= self.mentioned(x)
        if k == "t":
            err, vs = self.sems([x for _, x in s[2]])
            if not err:
                out.add(self.cid(s[1], [(lab, v) for (lab, _), v in zip(s[2], vs)]))
        if k == "catch":
            r = self.sem(s[1])
            if r[0] == "err" and isinstance(r[1], CLS[s[2]]):
                out.add(self.cid(s[3], [(None, r[1])]))
        return out


def task_nodes(s, acc=None):
    acc = [] if acc is None else acc
    k = s[0]
    if k == "c":
        return acc
    if k == "t":
        acc.append(s)
    subs = ([x for x in s[1]] if k in ("L", "cond", "seq") else [x for _, x in s[1]] if k == "D"
            else [x for _, x in s[2]] if k == "t" else s[2] if k == "op" else [s[1]])
    for x in subs:
        task_nodes(x, acc)
    return acc


def has_kind(s, kinds):
    k = s[0]
    if k in kinds:
        return True
    if k == "c":
        return False
    subs = ([x for x in s[1]] if k in ("L", "cond", "seq") else [x for _, x in s[1]] if k == "D"
            else [x for _, x in s[2]] if k == "t" else s[2] if k == "op" else [s[1]])
    return any(has_kind(x, kinds) for x in subs)


# ---------------------------------------------------------------- generator
class Budget:
    def __init__(self, n):
        self.n = n
        self.kinds = []


class ProgGen:
    """Typed random dataflow programs.  Types: I int, S list of two ints, M {"k": int, "m": S}.
    Every task call carries a fresh `tag` argument, so two calls are equal only when one is a
    deliberate structural copy of the other.  `free`: duplicates and catch replays are unrestricted
    (repaired variant); otherwise a copy containing a scheduler expression or an error source is made only
    when both the original and the copy are evaluated in the initial eager sweep (then the real scheduler's
    interleaving cannot change which of the two is evaluated first)."""

    def __init__(self, rng, free, tagbase, dup_sched=True, leaf=False, no_boom=False, no_catch=False):
        self.rng = rng
        self.free = free
        self.tag = tagbase
        self.pool = []          # (type, spec, eager, escaping boom kinds)
        self.dup_sched = dup_sched
        self.leaf = leaf            # also generate calls of the editable task c21.leaf (oracle only)
        self.no_boom = no_boom
        self.no_catch = no_catch

    def newtag(self):
        self.tag += 1
        return ["c", self.tag, "tag"]

    def call(self, name, given):
        """given: [(param, spec)] in signature order, omitted parameters left out."""
        sig = SIGS[name]
        lead = 0
        while lead < len(given) and given[lead][0] == sig[lead]:
            lead += 1
        k = self.rng.randint(0, lead) if self.rng.random() < 0.7 else lead
        pos = [(None, x) for _, x in given[:k]]
        kw = [(p, x) for p, x in given[k:]]
        self.rng.shuffle(kw)
        return ["t", name, pos + kw]

    def maybe_dup(self, ty, eager, budget):
        if not self.pool or self.rng.random() > 0.22:
            return None
        cands = []
        for (t2, s, e2, esc) in self.pool:
            if t2 != ty:
                continue
            risky = bool(esc) or has_kind(s, ("cond", "seq", "catch"))
            if has_kind(s, ("cond", "seq", "catch")) and not self.dup_sched:
                continue
            if risky and not ((e2 and eager) or (self.free and not esc)):
                continue
            if esc and budget.n < len(esc):
                continue
            cands.append((s, esc))
        if not cands:
            return None
        s, esc = self.rng.choice(cands)
        budget.n -= len(esc)
        budget.kinds += esc
        return s

    def done(self, ty, s, eager, budget, mark):
        self.pool.append((ty, s, eager, list(budget.kinds[mark:])))
        return s

    def gen(self, ty, d, eager, budget):
        mark = len(budget.kinds)
        s = self.maybe_dup(ty, eager, budget)
        if s is not None:
            return s
        s = getattr(self, "gen_" + ty)(d, eager, budget)
        if s[0] != "c":
            self.done(ty, s, eager, budget, mark)
        return s

    def gen_I(self, d, eager, budget, noconst=False):
        r = self.rng
        if budget.n > 0 and r.random() < 0.25:
            budget.n -= 1
            kind = r.choice(["boom", "boom", "kboom"])
            budget.kinds.append(kind)
            return self.call(kind, [("x", self.gen("I", d - 1, eager, Budget(0))), ("tag", self.newtag())])
        if d <= 0:
            if noconst or r.random() < 0.4:
                return self.call("leaf" if self.leaf and r.random() < 0.6 else "inc",
                                 [("x", ["c", r.randint(0, 4)]), ("tag", self.newtag())])
            return ["c", r.randint(0, 5)]
        k = r.random()
        if k < 0.08 and not noconst:
            return ["c", r.randint(0, 5)]
        if k < 0.2:
            return self.call(r.choice(["inc", "pick"] + (["leaf", "leaf"] if self.leaf else [])),
                             [("x", self.gen("I", d - 1, eager, budget)), ("tag", self.newtag())])
        if k < 0.32:
            given = [("x", self.gen("I", d - 1, eager, budget))]
            if r.random() < 0.5:
                given.append(("y", self.gen("I", d - 1, eager, budget)))
            given.append(("tag", self.newtag()))
            return self.call("add2", given)
        if k < 0.44:
            return self.call("sumc", [("c", self.gen_any(d - 1, eager, budget)), ("tag", self.newtag())])
        if k < 0.54:
            return ["op", r.choice(["add", "mul"]), [self.gen_I(d - 1, eager, budget, noconst=True),
                                                     self.gen("I", d - 1, eager, budget)]]
        if k < 0.62:
            return ["op", "getitem", [self.gen("S", d - 1, eager, budget), ["c", r.randint(0, 1)]]]
        if k < 0.68:
            m = self.gen("M", d - 1, eager, budget)
            if r.random() < 0.5:
                return ["op", "getitem", [m, ["c", "k"]]]
            return ["op", "getitem", [["op", "getitem", [m, ["c", "m"]]], ["c", r.randint(0, 1)]]]
        if k < 0.82:
            return self.gen_cond("I", d, eager, budget)
        if k < 0.88:
            n = r.randint(1, 3)
            items = [self.gen("I", d - 1, eager and i == 0, budget) for i in range(n)]
            return ["op", "getitem", [["seq", items], ["c", r.randrange(n)]]]
        return self.gen_catch(d, eager, budget)

    def gen_cond(self, ty, d, eager, budget):
        r = self.rng
        n = 1 if r.random() < 0.75 else 2
        items = []
        for i in range(n):
            items.append(self.gen("I", d - 1, eager and i == 0, budget))
            items.append(self.gen(ty, d - 1, False, budget))
        items.append(self.gen(ty, d - 1, False, budget))
        return ["cond", items]

    def gen_catch(self, d, eager, budget):
        r = self.rng
        if self.no_catch:
            return self.gen_cond("I", d, eager, budget)
        inner = Budget(0 if self.no_boom else 1)
        body = self.gen("I", d - 1, eager, inner)
        rec = r.choice(["rec", "rec2"])
        if not inner.kinds:
            return ["catch", body, r.choice([0, 1, 2]), rec]
        kind = inner.kinds[0]
        match = [0, 2] if kind == "boom" else [1, 2]
        if budget.n > 0 and r.random() < 0.2:
            budget.n -= 1
            budget.kinds.append(kind)
            return ["catch", body, 1 if kind == "boom" else 0, rec]      # does not match: the error escapes
        return ["catch", body, r.choice(match), rec]

    def gen_S(self, d, eager, budget):
        r = self.rng
        k = r.random()
        if d <= 0 or k < 0.45:
            return self.call("pair", [("x", self.gen("I", d - 1, eager, budget)), ("tag", self.newtag())])
        if k < 0.65:
            return ["op", "getitem", [self.gen("M", d - 1, eager, budget), ["c", "m"]]]
        if k < 0.8:
            return ["seq", [self.gen("I", d - 1, eager, budget), self.gen("I", d - 1, False, budget)]]
        return self.gen_cond("S", d, eager, budget)

    def gen_M(self, d, eager, budget):
        if d <= 0 or self.rng.random() < 0.75:
            return self.call("mk", [("x", self.gen("I", d - 1, eager, budget)), ("tag", self.newtag())])
        return self.gen_cond("M", d, eager, budget)

    def gen_any(self, d, eager, budget):
        r = self.rng
        k = r.random()
        if k < 0.3:
            return self.gen("I", d, eager, budget)
        if k < 0.45:
            return self.gen("S", d, eager, budget)
        if k < 0.55:
            return self.gen("M", d, eager, budget)
        if k < 0.8:
            return ["L", [self.gen_any(d - 1, eager, budget) for _ in range(r.randint(0, 3))]]
        keys = r.sample(["a", "b", "c", "zz"], r.randint(1, 3))
        return ["D", [[key, self.gen_any(d - 1, eager, budget)] for key in keys]]

    def program(self, depth, top_boom=False):
        budget = Budget(1 if top_boom else 0)
        return self.call("sumc", [("c", self.gen_any(depth, True, budget)), ("tag", self.newtag())])


KEEP_TASK = 0.2


def retag(s, rng, keep, shift=500000, keep_task=None):
    """The program of a second run: tags shifted (so the calls are new) except inside the catch
    expressions chosen to stay unchanged (so that their cached evaluation is replayed) and in some
    calls left unchanged (cache hits of the backend).  A catch expression that is not chosen always
    changes (nothing inside it is left unchanged), so it is never replayed by accident."""
    kt = KEEP_TASK if keep_task is None else keep_task
    # Equal subtrees get equal treatment (otherwise two structurally different calls could end up with the
    # same tag, i.e. the same call node, and which of them records it would depend on timing); calls that
    # also occur inside a catch expression are never left unchanged.
    in_catch = set()

    def scan(x, inside):
        if x[0] == "c":
            return
        if x[0] == "t" and inside:
            in_catch.add(json.dumps(x))
        for y in subterms(x):
            scan(y, inside or x[0] == "catch")

    scan(s, False)
    memo = {}

    def go(x):
        k = x[0]
        if k == "c":
            return ["c", x[1] + shift, "tag"] if len(x) == 3 else x
        key = json.dumps(x)
        if key in memo:
            return memo[key]
        if k == "catch" and rng.random() < keep:
            out = x
        elif k in ("L", "cond", "seq"):
            out = [k, [go(y) for y in x[1]]]
        elif k == "D":
            out = [k, [[kk, go(y)] for kk, y in x[1]]]
        elif k == "t":
            if rng.random() < kt and key not in in_catch and not has_kind(x, ("catch",)):
                out = x                   # an unchanged call: a cache hit of the backend in the second run
            else:
                out = [k, x[1], [[lab, go(y)] for lab, y in x[2]]]
        elif k == "op":
            out = [k, x[1], [go(y) for y in x[2]]]
        elif k == "catch":
            out = [k, go(x[1]), x[2], x[3]]
        else:
            raise AssertionError(x)
        memo[key] = out
        return out

    return go(s)


def subterms(s):
    k = s[0]
    if k == "c":
        return []
    return ([x for x in s[1]] if k in ("L", "cond", "seq") else [x for _, x in s[1]] if k == "D"
            else [x for _, x in s[2]] if k == "t" else s[2] if k == "op" else [s[1]])


# fixed witnesses -----------------------------------------------------------------------------------
def T(name, x, tag, **kw):
    return ["t", name, [[None, x]] + [[k, v] for k, v in kw.items()] + [["tag", ["c", tag, "tag"]]]]


def C(v):
    return ["c", v]


def witness_dup(kind):
    inner = {"cond": ["cond", [T("pick", C(1), 1), T("inc", C(1), 2), C(0)]],
             "seq": ["seq", [T("inc", C(1), 2), T("inc", C(2), 3)]],
             "catch": ["catch", T("inc", C(1), 2), 0, "rec"]}[kind]
    return [["L", [T("sumc", inner, 10), T("sumc", inner, 11)]]]


def witness_replay(kind):
    body = T("inc", C(1), 2) if kind == "main" else T("boom", C(1), 2)
    rec = "rec" if kind == "main" else "rec2"
    return [T("sumc", ["catch", body, 0, rec], 10), T("sumc", ["catch", body, 0, rec], 11)]


# ---------------------------------------------------------------- the oracle on one history
def strip_result(cid):
    return (cid[0], tuple(kv for kv in cid[1] if kv[0] != "~result"))


def check_history(programs, classify=None, edits=None):
    """Run the programs on one fresh backend and decide the property on what was recorded.
    edits[i] = version of the editable task c21.leaf installed before run i (None: keep).  Running the same
    program again after an edit makes c21.main a cache hit whose result expression is read back from the backend.
    Returns a list of (key_suffix, what, detail)."""
    try:
        return check_history_(programs, classify, edits)
    finally:
        if edits:
            tasks()["define_leaf"](0)


def check_history_(programs, classify, edits):
    from redun.backends.db import CallNode
    ref = Ref()
    backend = fresh_backend()
    bad = []
    seen = set()
    tasks()["define_leaf"](0)
    for idx, spec in enumerate(programs):
        if edits and edits[idx] is not None:
            tasks()["define_leaf"](edits[idx])
        _, results, received = run_programs([spec], backend)
        calls = read_db(backend)
        ids = {h: bound_id(*call_id(n, rows)) for h, (n, rows) in calls.items()}
        for cn in backend.session.query(CallNode).filter(CallNode.task_name == NS + ".leaf").all():
            if cn.call_hash in ids:
                ids[cn.call_hash] = (ids[cn.call_hash][0], ids[cn.call_hash][1] + (("~result", canon(cn.value.value_parsed)),))
        want = ref.sem(spec)
        got = results[0]
        if want[0] != got[0] or canon(want[1]) != canon(got[1]):
            bad.append(("result", f"run {idx}: result {got!r} differs from the program's value {want!r}", {}))
        recv = {(n, tuple(sorted(((k, canon(v)) for k, v in kw.items()), key=lambda kv: kv[0]))) for n, kw in received[0]}
        by_tag = {}
        for node in task_nodes(spec):
            for lab, x in node[2]:
                if x[0] == "c" and len(x) == 3:
                    by_tag.setdefault((node[1], x[1]), node)
        for h, (name, rows) in calls.items():
            if h in seen:
                continue
            seen.add(h)
            cid = ids[h]
            if strip_result(cid) not in recv:
                bad.append(("values", f"run {idx}: recorded arguments of {name} {cid[1]} are not what any {name} "
                            "call received", {"call": repr(cid)}))
            for p, k, v, ups in rows:
                if (p is None) == (k is None):
                    bad.append(("slot", f"run {idx}: argument row of {name} with position {p} and key {k}", {}))
            tag = dict(cid[1]).get("tag")
            node = by_tag.get((name, tag))
            if node is None:
                continue                      # recover call (no tag): values checked above
            npos = 0
            for lab, x in node[2]:
                slot = (npos, None) if lab is None else (None, lab)
                if lab is None:
                    npos += 1
                row = [r for r in rows if (r[0], r[1]) == slot]
                if len(row) != 1:
                    bad.append(("slot", f"run {idx}: {name} tag {tag}: {len(row)} rows for argument {slot}", {}))
                    continue
                p, k, v, ups = row[0]
                sv = ref.sem(x)
                if sv[0] != "ok" or canon(sv[1]) != canon(v):
                    bad.append(("values", f"run {idx}: {name} tag {tag} argument {slot}: recorded {v!r}, "
                                f"the task received {sv[1]!r}", {}))
                linked = {ids[u] for u in ups if u in ids}
                missing = ref.prod(x) - linked
                extra = linked - ref.mentioned(x)
                if len(linked) != len(ups):
                    bad.append(("dangling", f"run {idx}: {name} tag {tag} argument {slot} links a call node that "
                                "is not recorded", {}))
                if missing:
                    why = classify(x, idx, programs) if classify else None
                    bad.append((why or "missing", f"run {idx}: {name} tag {tag} argument {slot} was produced by "
                                f"{sorted(m[0] for m in missing)} but the call node(s) are not linked "
                                f"(linked: {sorted(l[0] for l in linked)})", {"arg": x}))
                if extra:
                    bad.append(("extra", f"run {idx}: {name} tag {tag} argument {slot} links {sorted(e[0] for e in extra)} "
                                "which do not occur in the argument's expression", {"arg": x}))
            given = {lab for lab, _ in node[2] if lab is not None}
            for par, dv in DEFAULTS[name].items():
                i = SIGS[name].index(par)
                if par in given or i < npos:
                    continue
                row = [r for r in rows if r[1] == par]
                if len(row) != 1 or row[0][0] is not None or canon(row[0][2]) != canon(dv):
                    bad.append(("default", f"run {idx}: {name} tag {tag}: defaulted parameter {par} is not recorded "
                                f"as one keyword argument with the default value: {row!r}", {}))
    return bad


class Check(PropertyCheck):
    id = "C21"
    module = "Props.C21"
    theorems = ["C21_args_recorded", "C21_upstream_complete_fixed", "C21_values_fixed", "C21_upstream_refuted_dup",
                "C21_upstream_refuted_cached", "C21_sites_separate", "C21_roundtrip_invariant",
                "C21_upstream_complete_roundtrip", "C21_roundtrip_refuted", "C21_nonvacuous"]
    extra_modules = []
    allowed_axioms = []
    section_premises = []
    assumptions = [
        "call identity: a call node is identified by (task, received arguments); deterministic tasks and collision-free "
        "hashes make this equivalent to call_hash (the correspondence maps call_hash to that key through the recorded rows)",
        "one evaluation level: the model covers the expression tree handed to Scheduler.evaluate under one parent job "
        "(pending-expression table is per parent job; a task body is another instance of the same theorem); "
        "each syntactic occurrence is a distinct expression object (sharing one object behaves like a duplicate whose "
        "bookkeeping copy is complete)",
        "scheduling: the model evaluates depth-first; the real interleaving only changes which of several equal "
        "expressions is evaluated first, which is observable only through the two copy defects and the success-only "
        "copy (generator rule keeps those cases order-independent); jobs abandoned when the workflow ends early are "
        "allowed to be missing from the database",
        "scope: cond / seq / catch, lazy operators (add, mul, getitem), list and dict displays, positional / keyword / "
        "defaulted parameters; catch_all and map_ (which create task calls internally) are checked by the oracle only; "
        "the error passed to a recover task is not required to link the failing call (no claim for failing expressions)",
    ]
    rule = ("typed random dataflow programs over a ten-task family (every call carries a fresh tag; deliberate structural "
            "copies exercise the duplicate-expression path), run as 1-2 executions on one in-memory backend by the real "
            "Scheduler (second run: tags shifted except inside catch expressions chosen to replay from the catch cache); "
            "a case is non-trivial if some recorded argument has an upstream link; distinct by program text; the oracle "
            "additionally runs multi-level workflows in which equal lazy expressions (getitem, operators, cond, seq, catch, "
            "displays) over an uncached impure producer are evaluated under different parent jobs and in successive "
            "executions on one backend object, and requires each argument to link exactly the producer call whose "
            "recorded result flowed into the value received")

    # ------------------------------------------------------------------
    def translate(self):
        pins = json.loads(PINS_FILE.read_text())
        try:
            text, info = tr_dataflow.translate(pins=pins)
        except astutil.TranslateError as e:
            # still learn the variant if only a pin moved, so that the other stages run sensibly
            try:
                _, info = tr_dataflow.translate(pins=None)
                self.info = info
            except Exception:  # noqa
                self.info = {"variant": "shipped", "copy_sched": False, "derive_cached": False}
            raise TranslateError(str(e))
        self.info = info
        GEN.mkdir(exist_ok=True)
        p = GEN / "C21Gen.v"
        p.write_text(text)
        self.stat("translator", "variant:" + info["variant"])
        return [p]

    def variant_term(self):
        i = getattr(self, "info", {"copy_sched": False, "derive_cached": False})
        return ("{| v_copy_sched := %s; v_derive_cached := %s; v_forget := false |}"
                % ("true" if i["copy_sched"] else "false", "true" if i["derive_cached"] else "false"))

    # ------------------------------------------------------------------
    def case_term(self, programs):
        """Run on the real scheduler; build the Coq term comparing with the model."""
        backend, results, received = run_programs(programs)
        calls = read_db(backend)
        exp = []
        for kind, v in results:
            try:
                cq_val(v)
                exp.append((kind, v))
            except TypeError:
                exp.append(None)
        keyof = {h: call_id(n, rows) for h, (n, rows) in calls.items()}
        db = []
        linked = 0
        for h, (n, rows) in calls.items():
            drows = []
            for p, k, v, ups in rows:
                linked += len(ups)
                drows.append("(%s, %s, %s, %s)" % (cq_opt(None if p is None else f"{p}%nat"), cq_lab(k), cq_val(v),
                                                   cq_list([cq_ckey(keyof[u]) for u in ups])))
            db.append(f"({cq_ckey(keyof[h])}, {cq_list(drows)})")
        strict = not any(n[1] in ("boom", "kboom") for p in programs for n in task_nodes(p))
        term = (f"case_ok V {cq_list([cq_expr(p) for p in programs])} {cq_list([cq_res(r) for r in exp])} "
                f"{cq_list(db)} {cq_opt(str(len(calls)) + '%nat' if strict else None)}")
        return term, linked, len(calls), results

    def programs_for(self, i, free):
        g = ProgGen(self.rng, free, 1000 * (i % 400) + 1)
        p1 = g.program(self.rng.randint(1, 4), top_boom=self.rng.random() < 0.06)
        if self.rng.random() < 0.55:
            return [p1, retag(p1, self.rng, 0.7)]
        return [p1]

    def correspond(self):
        info = getattr(self, "info", {"variant": "shipped", "copy_sched": False, "derive_cached": False})
        free = info["copy_sched"] and info["derive_cached"]
        n = 60 if self.tier == "quick" else 2000
        cases = [witness_dup("cond"), witness_dup("seq"), witness_dup("catch"), witness_replay("main"),
                 witness_replay("recover")]
        corpus = CORPUS / "C21.jsonl"
        if corpus.exists():
            for line in corpus.read_text().splitlines():
                if line.strip():
                    cases.append(json.loads(line)["programs"])
        for i in range(n):
            cases.append(self.programs_for(i, free))
        terms, descr = [], []
        for ps in cases:
            try:
                term, linked, ncalls, results = self.case_term(ps)
            except TypeError as e:
                self.stat("case", "skipped:" + str(e)[:40])
                continue
            terms.append(term)
            descr.append(ps)
            self.stat("runs_per_case", len(ps))
            self.stat("result", "+".join(r[0] for r in results))
            self.stat("calls_per_case", min(ncalls // 5 * 5, 40))
            for kind in ("cond", "seq", "catch", "op", "L", "D"):
                if any(has_kind(p, (kind,)) for p in ps):
                    self.stat("uses", kind)
            self.count(json.dumps(ps) if linked else None)
            self.sample({"programs": json.dumps(ps)[:400], "recorded_calls": ncalls, "upstream_links": linked}, 4)
        ok, failing, diags = run_bool_cases("C21", ["Model.Dataflow"], "From Coq Require Import String.\n"
                                            f"Definition V : variant := {self.variant_term()}.\n", terms, chunk=40)
        self.ob("correspondence", f"model (variant {info['variant']}) == rows written by the real scheduler and backend on "
                f"{len(terms)} program histories (results of the runs, every Argument / ArgumentResult row of every recorded "
                "family call)", ok and not failing,
                "\n".join(diags) + "".join(f"\nmismatch: {json.dumps(descr[i])}" for i in failing[:6]))
        self.mismatches = [descr[i] for i in failing]

    # ------------------------------------------------------------------
    def classify(self, info):
        """For a missing link: is the argument under one of the known defect sites (only meaningful as shipped)?"""
        def f(arg, idx, programs):
            if not info["derive_cached"] and idx > 0 and has_kind(arg, ("catch",)):
                body = [n for n in [arg] if n[0] == "catch"]
                kind = "main"
                if body and Ref().sem(body[0][1])[0] == "err":
                    kind = "recover"
                return "catch-replay:" + kind
            if not info["copy_sched"]:
                for kind in ("cond", "seq", "catch"):
                    if arg[0] == kind:
                        return "dup-sched:" + kind
            return None
        return f

    def oracle(self):
        info = getattr(self, "info", {"variant": "shipped", "copy_sched": False, "derive_cached": False})
        free = info["copy_sched"] and info["derive_cached"]
        classify = self.classify(info)
        histories = [("witness", witness_dup(k)) for k in ("cond", "seq", "catch")]
        histories += [("witness", witness_replay(k)) for k in ("main", "recover")]
        corpus = CORPUS / "C21.jsonl"
        if corpus.exists():
            for line in corpus.read_text().splitlines():
                if line.strip():
                    histories.append(("corpus", json.loads(line)["programs"]))
        n = 45 if self.tier == "quick" else 1000
        for i in range(n):
            g = ProgGen(self.rng, free, 1000 * (i % 400) + 1, dup_sched=info["copy_sched"])
            p1 = g.program(self.rng.randint(1, 4))
            ps = [p1]
            if info["derive_cached"] and self.rng.random() < 0.5:
                ps.append(retag(p1, self.rng, 0.7))
            elif self.rng.random() < 0.6:
                ps.append(retag(p1, self.rng, -1.0))
            histories.append(("random", ps))
        nf = 0
        for origin, ps in histories:
            bad = check_history(ps, classify if origin == "witness" else None)
            self.evaluations += 1
            self.stat("oracle", origin)
            for key, what, detail in bad:
                nf += 1
                if origin == "witness" and key in set(K_DUP.values()) | {K_REPLAY_MAIN, K_REPLAY_REC}:
                    fkey = key
                else:
                    fkey = f"{key}:{json.dumps(ps)}"[:300]
                self.findings.append(Finding(fkey, what, {"kind": "history", "programs": ps}))
        # edit-and-rerun: run a program, edit the leaf task (new hash, new values), run the SAME program again on the
        # same backend: c21.main is a cache hit, its result expression is read back from the backend (unpickled:
        # new objects, __setstate__ bookkeeping), the leaf calls re-run and every call downstream of them gets a new
        # CallNode whose Argument rows are recorded from the deserialised expressions.  Judged like any history.
        # As shipped, catch (replayed from its cache in the second run: known defect) is left out; error sources are
        # left out always (a replayed recover expression keeps the error of the first run by design).
        edit_hist = [[T("sumc", ["cond", [T("pick", C(1), 1), T("leaf", C(2), 2), T("inc", C(3), 3)]], 10)],
                     [T("sumc", ["L", [["seq", [T("leaf", C(1), 1), T("inc", C(2), 2)]],
                                       ["D", [["a", ["op", "add", [T("leaf", C(1), 3), C(1)]]],
                                              ["b", ["cond", [C(0), C(5), T("pair", T("leaf", C(4), 4), 5)]]]]]]], 11)]]
        for i in range(20 if self.tier == "quick" else 250):
            for _ in range(20):
                g = ProgGen(self.rng, free, 1000 * (i % 400) + 1, dup_sched=info["copy_sched"], leaf=True,
                            no_boom=True, no_catch=not info["derive_cached"])
                p = g.program(self.rng.randint(1, 4))
                if any(n[1] == "leaf" for n in task_nodes(p)):
                    break
            edit_hist.append([p])
        for ps in edit_hist:
            k = self.rng.randint(1, 3)
            runs, edits = [ps[0], ps[0]], [0, k]
            if self.rng.random() < 0.3:
                runs.append(ps[0])
                edits.append(k + 1)
            bad = check_history(runs, None, edits)
            self.evaluations += 1
            self.stat("oracle", "edit-and-rerun")
            for key, what, detail in bad:
                nf += 1
                self.findings.append(Finding(f"edit:{key}:{json.dumps(ps[0])}"[:300], what,
                                             {"kind": "history", "programs": runs, "edits": edits}))
        # equal lazy expressions over an uncached impure producer, under different parent jobs and in successive
        # executions on one backend object (outside the one-level model: decided on the implementation only).
        # catch is left out as shipped: equal catch expressions of two stages share the backend's catch cache,
        # which is the known replay defect and depends on which stage runs first.
        forms = [f for f in IMPURE_FORMS if f != "catch" or info["derive_cached"]]
        impure = [[[("a", "getitem"), ("b", "getitem")]],
                  [[("a", "add"), ("b", "cond")], [("c", "add"), ("d", "cond")]],
                  [[("a", "seq"), ("b", "seq"), ("c", "dict")], [("d", "dict"), ("e", "list"), ("f", "list")]]]
        for _ in range(12 if self.tier == "quick" else 200):
            impure.append(gen_impure(self.rng, forms))
        for execs in impure:
            self.evaluations += 1
            self.stat("oracle", "impure-producer")
            for key, what in check_impure(execs):
                nf += 1
                self.findings.append(Finding(f"{key}:{json.dumps(execs)}"[:300], what,
                                             {"kind": "impure", "executions": execs}))
        # scheduler tasks that create task calls internally (not modelled)
        for key, what in self.internal_calls():
            nf += 1
            self.findings.append(Finding(key, what, {"kind": "internal", "which": key}))
        self.ob("oracle", f"implementation oracle on {len(histories)} histories: every recorded argument value is what the "
                "task received, defaulted parameters are keyword rows, every producing call is linked, nothing outside the "
                "argument's expression is linked", nf == 0,
                "; ".join(f"{f.key[:60]}: {f.what}" for f in self.findings[:6]))
        for o in self.obligations:
            if o.kind == "oracle" and not o.ok and all(
                    f.key in set(K_DUP.values()) | {K_REPLAY_MAIN, K_REPLAY_REC, K_CATCH_ALL, K_MAP} for f in self.findings):
                o.explained_by_known = True

    def internal_calls(self):
        """catch_all(recover) and map_: the value is produced by calls the scheduler task creates itself."""
        from redun import Scheduler
        from redun.backends.db import Argument, CallNode
        t = tasks()
        out = []
        for which, key, producer in (("main_catch_all", K_CATCH_ALL, "recall"), ("main_map", K_MAP, "inc")):
            backend = fresh_backend()
            s = Scheduler(backend=backend)
            s.logger.setLevel(logging.CRITICAL)
            s.run(t[which](1))
            sess = backend.session
            names = {c.call_hash: c.task_name for c in sess.query(CallNode).all()}
            for arg in sess.query(Argument).all():
                if names.get(arg.call_hash) == NS + ".sumc" and arg.arg_position == 0:
                    ups = sorted(names[r.result_call_hash] for r in arg.arg_results)
                    if NS + "." + producer not in ups:
                        out.append((key, f"{which}: the argument {arg.value_parsed!r} of sumc was produced by "
                                    f"{producer} calls created inside the scheduler task, linked upstream: {ups}"))
        return out

    # ------------------------------------------------------------------
    def replay(self, doc):
        r = doc.get("replay", {})
        if r.get("kind") == "history":
            info = {"copy_sched": True, "derive_cached": True}
            bad = check_history(r["programs"], None, r.get("edits"))
            for key, what, _ in bad:
                print("replay:", what)
            if not bad:
                print("replay: property holds on this history now")
            return 1 if bad else 0
        if r.get("kind") == "impure":
            bad = check_impure([[tuple(x) for x in stages] for stages in r["executions"]])
            for key, what in bad:
                print("replay:", what)
            if not bad:
                print("replay: property holds on these executions now")
            return 1 if bad else 0
        if r.get("kind") == "internal":
            bad = [b for b in self.internal_calls() if b[0] == r.get("which")]
            for key, what in bad:
                print("replay:", what)
            if not bad:
                print("replay: property holds now")
            return 1 if bad else 0
        print("replay: nothing to replay (no failing input was found); broken obligations:",
              json.dumps(doc.get("broken_obligations", []))[:2000])
        return 1
