"""Run one template program (harness/progs/vm_c07.py) on the REAL Scheduler under a controlled
completion order and a limit configuration, and record

  * the event sequence in the vocabulary of coq/Model/Timing.v (enter/done/resolve with job ids in
    creation order),
  * per job: task index, args hash at every entry of `_exec_job_main_thread`, result hash, call hash,
  * the normalised CallNode / Argument / CallEdge rows of the backend afterwards.

No hooks in /repo: bound methods of one Scheduler instance are wrapped (as harness/sched.py does).
"""
from __future__ import annotations

import os
import random
import shutil

from redun import Scheduler
from redun.backends.db import Argument, CallEdge, CallNode
from redun.config import Config
from redun.handle import Handle
from redun.utils import iter_nested_value

from harness.progs import vm_c07
from harness.sched import ControlledExecutor, Deadlock


class Run:
    def __init__(self):
        self.events = []          # ("enter", j, ("wait",)|("start",)|("collapse", k)) | ("done", j) | ("resolve", j)
        self.jobs = []            # job objects in creation order (model ids)
        self.task_idx = []        # per job: index of its task in the program
        self.parent = []          # per job: parent id or None
        self.entries = []         # per job: list of args hashes, one per entry
        self.entry_handles = []   # per job: handle hashes (before preprocessing) at first entry
        self.res_hash = []        # per job: value hash of the final result (None if not resolved)
        self.call_hash = []       # per job
        self.first_entry_seq = [] # job ids in order of first entry
        self.result = None
        self.error = None
        self.deadlock = False
        self.rows = None
        self.shared_objects = False   # some argument / result contained one object twice (see has_shared_object)
        # structural hashes (ids from the module-level INTERN table, comparable across runs)
        # per parent job (model id): the demands for task expressions / conclusions of their jobs, in order:
        # ("demand", expression id, created a job?) | ("conclude", expression id)      (Model/PendingExpr.v)
        self.pending = {}
        self.c_args = []
        self.c_res = []
        self.c_node = []


INTERN: dict = {}


def intern(x):
    if x not in INTERN:
        INTERN[x] = len(INTERN)
    return INTERN[x]


def has_shared_object(value) -> bool:
    """True if one container or Handle OBJECT occurs twice inside `value`.  The value hash is the hash
    of the pickle, and pickle writes the second occurrence of an object as a back reference, so such
    a value hashes differently from an equal value built from distinct objects."""
    seen = set()

    def walk(v):
        if isinstance(v, (list, tuple, dict, set, Handle)):
            if id(v) in seen:
                return True
            seen.add(id(v))
        if isinstance(v, (list, tuple, set)):
            return any(walk(x) for x in v)
        if isinstance(v, dict):
            return any(walk(k) or walk(x) for k, x in v.items())
        return False
    return walk(value)


def _normal_rows(s):
    sess = s.backend.session
    cns = sorted((c.call_hash, c.task_name, c.task_hash, c.args_hash, c.value_hash) for c in sess.query(CallNode).all())
    args = sorted((a.call_hash, a.arg_position if a.arg_position is not None else -1, a.arg_key or "", a.value_hash)
                  for a in sess.query(Argument).all())
    edges = sorted({(e.parent_id, e.child_id) for e in sess.query(CallEdge).all()})
    from redun.backends.db import Evaluation, Handle as HandleRow, Value
    values = sorted(v.value_hash for v in sess.query(Value).all())
    evals = sorted((e.eval_hash, e.task_hash, e.args_hash, e.value_hash) for e in sess.query(Evaluation).all())
    handles = sorted((hr.hash, hr.fullname, hr.key, hr.is_valid) for hr in sess.query(HandleRow).all())
    return {"call_nodes": cns, "arguments": args, "edges": edges, "values": values, "evaluations": evals,
            "handles": handles}


class DbTemplate:
    """A migrated, empty sqlite file that is copied for every run (the schema migration of a fresh
    database costs as much as a whole run of a small program)."""

    def __init__(self):
        import tempfile
        base = os.environ.get("VERIF_TMP") or ("/dev/shm" if os.access("/dev/shm", os.W_OK) else None)
        self.dir = tempfile.mkdtemp(prefix="rv_c07_", dir=base)
        self.tpl = os.path.join(self.dir, "tpl.db")
        s = Scheduler(config=Config({"backend": {"db_uri": f"sqlite:///{self.tpl}"}}))
        s.logger.disabled = True
        s.load()
        s.backend.session.close()
        s.backend.engine.dispose()
        self.n = 0

    def fresh(self) -> str:
        self.n += 1
        p = os.path.join(self.dir, "run.db")
        shutil.copy(self.tpl, p)
        return f"sqlite:///{p}"

    def close(self):
        shutil.rmtree(self.dir, ignore_errors=True)


def run_prog(prog, limits: dict, rng: random.Random, root_args=(), complete_prob=0.3, chooser=None, db=None):
    """chooser(list of held jobs, Run) -> index, or None for a seeded random choice."""
    tasks = vm_c07.instantiate(prog)
    tindex = {t.fullname: i for i, t in enumerate(tasks)}
    cfg = {"backend": {"db_uri": db.fresh() if db else "sqlite:///:memory:"},
           "limits": {k: str(v) for k, v in limits.items()}}
    ex = ControlledExecutor()
    s = Scheduler(config=Config(cfg), executor=ex)
    s.load()
    s.logger.disabled = True
    R = Run()
    ids = R.ids = {}

    def register(job, parent):
        ids[job.id] = len(R.jobs)
        R.jobs.append(job)
        R.task_idx.append(tindex[job.task.fullname])
        R.parent.append(parent)
        R.entries.append([])
        R.entry_handles.append(None)
        R.res_hash.append(None)
        R.call_hash.append(None)
        R.c_args.append(None)
        R.c_res.append(None)
        R.c_node.append(None)

    # ---- structural ("canonical") hashing, insensitive to which Python objects are shared ----------
    hcanon: dict = {}        # real Handle hash -> structure
    eval_canon: dict = {}    # real eval hash -> (task index, canonical args id)

    def canon(v):
        if isinstance(v, Handle):
            info = v.__handle__
            if info.hash in hcanon:
                return hcanon[info.hash]
            if not info.call_hash:
                cv = ("init", info.fullname)
            elif info.key != "":
                par = hcanon.get(info.call_hash)
                if par is None and info.fork_parent is not None:
                    par = canon(info.fork_parent)
                cv = ("fork", par if par is not None else ("?", info.call_hash), info.key)
            else:
                cv = ("call", info.fullname, eval_canon.get(info.call_hash, ("?", info.call_hash)))
            hcanon[info.hash] = cv
            return cv
        if isinstance(v, (list, tuple)):
            return ("l", tuple(canon(x) for x in v))
        return v

    state = {"collapse": None, "cached": None}

    orig_exec_job = s._exec_job

    def _exec_job(job, eval_args):
        if job.id not in ids:
            if job.parent_job is None:
                assert not R.jobs, "only the root job has no parent"
                register(job, None)
            else:
                # children become ready while their parent's result is still being evaluated:
                # number the children created so far (a prefix of the creation order)
                for ch in job.parent_job.child_jobs:
                    if ch.id not in ids:
                        register(ch, ids[job.parent_job.id])
        return orig_exec_job(job, eval_args)
    s._exec_job = _exec_job

    orig_check = s._check_pending_job

    def _check_pending_job(job):
        r = orig_check(job)
        if r is not None:
            state["collapse"] = ids[r.id]
        return r
    s._check_pending_job = _check_pending_job

    orig_get_cache = s._get_cache

    def _get_cache(job):
        res, cached, call_hash = orig_get_cache(job)
        if cached:
            state["cached"] = call_hash or "?"
        return res, cached, call_hash
    s._get_cache = _get_cache

    from redun.expression import SchedulerExpression, TaskExpression
    from redun.scheduler import Job as _Job
    orig_ea = s._evaluate_apply
    expr_ids: dict = {}

    def _evaluate_apply(expr, parent_job=None):
        if (isinstance(expr, TaskExpression) and not isinstance(expr, SchedulerExpression)
                and type(parent_job) is _Job and parent_job.id in ids):
            ev = ["demand", expr_ids.setdefault(expr.get_hash(), len(expr_ids)), None]
            R.pending.setdefault(ids[parent_job.id], []).append(ev)
            n0 = len(parent_job.child_jobs)
            r = orig_ea(expr, parent_job=parent_job)
            ev[2] = len(parent_job.child_jobs) > n0
            return r
        return orig_ea(expr, parent_job=parent_job)
    s._evaluate_apply = _evaluate_apply

    orig_enter = s._exec_job_main_thread

    def _exec_job_main_thread(job, eval_args):
        j = ids[job.id]
        state["collapse"] = state["cached"] = None
        if R.entry_handles[j] is None:
            R.entry_handles[j] = [v.get_hash() for v in iter_nested_value(eval_args) if isinstance(v, Handle)]
            R.first_entry_seq.append(j)
        for v in iter_nested_value(eval_args):
            if isinstance(v, Handle):
                canon(v)                      # the states before forking: parents of the forks
        r = orig_enter(job, eval_args)
        R.entries[j].append(job.args_hash)
        if job.args is not None:
            R.c_args[j] = intern(("args", tuple(canon(a) for a in job.args[0])))
            eval_canon[job.eval_hash] = (R.task_idx[j], R.c_args[j])
        if job.args is not None and any(has_shared_object(a) for a in job.args[0]):
            R.shared_objects = True
        if state["collapse"] is not None:
            d = ("collapse", state["collapse"])
        elif state["cached"] is not None:
            ch = state["cached"]
            ks = [k for k in range(len(R.jobs)) if R.call_hash[k] == ch and k != j]
            d = ("collapse", ks[0]) if ks else ("cached-unknown", ch)
        elif any(w is job for w, _ in s._jobs_pending_limits):
            d = ("wait",)
        else:
            d = ("start",)
        R.events.append(("enter", j, d))
        return r
    s._exec_job_main_thread = _exec_job_main_thread

    orig_done = s._done_job_main_thread

    def _done_job_main_thread(job, result, job_tags=[]):
        j = ids[job.id]
        cached = job.was_cached
        r = orig_done(job, result, job_tags=job_tags)
        if not cached:
            for ch in job.child_jobs:
                if ch.id not in ids:
                    register(ch, j)
            R.events.append(("done", j))
        return r
    s._done_job_main_thread = _done_job_main_thread

    orig_resolve = s._resolve_job_main_thread

    def _resolve_job_main_thread(job, result):
        j = ids[job.id]
        replayed = bool(job.call_hash)          # call hash known before resolving: collapsed / replayed
        if job.parent_job is not None and job.parent_job.id in ids and job.expr is not None:
            # a callback that releases the expression's entry would be the first one of the promise
            R.pending.setdefault(ids[job.parent_job.id], []).append(
                ["conclude", expr_ids.setdefault(job.expr.get_hash(), len(expr_ids))])
        kids = [ids[ch.id] for ch in job.child_jobs if ch.call_hash and ch.id in ids]
        r = orig_resolve(job, result)
        R.call_hash[j] = job.call_hash
        R.res_hash[j] = s.type_registry.get_hash(result)
        R.c_res[j] = intern(("val", canon(result)))
        if replayed:
            src_ = [k for k in range(len(R.jobs)) if k != j and R.call_hash[k] == job.call_hash and R.c_node[k] is not None]
            R.c_node[j] = R.c_node[src_[0]] if src_ else intern(("node?", job.call_hash))
        else:
            R.c_node[j] = intern(("node", R.task_idx[j], R.c_args[j], R.c_res[j],
                                  tuple(sorted(R.c_node[k] for k in kids))))
        if has_shared_object(result):
            R.shared_objects = True
        R.events.append(("resolve", j))
        return r
    s._resolve_job_main_thread = _resolve_job_main_thread

    q = s.events_queue
    orig_get = q.get

    def complete_one():
        idx = chooser(ex.held, R) if chooser else rng.randrange(len(ex.held))
        job = ex.held.pop(idx)
        args, kwargs = job.args
        try:
            res = job.task.func(*args, **kwargs)
        except Exception as e:  # noqa
            s.reject_job(job, e)
        else:
            s.done_job(job, res)

    def get(block=True, timeout=None):
        while True:
            if ex.held and (q.empty() or rng.random() < complete_prob):
                complete_one()
                continue
            if q.empty():
                R.deadlock = True
                raise Deadlock("queue empty, nothing running, workflow promise pending")
            return orig_get(block=False)
    q.get = get

    try:
        R.result = s.run(vm_c07.root_expr(prog, root_args))
        R.result_hash = s.type_registry.get_hash(R.result)
    except Deadlock:
        pass
    except Exception as e:  # noqa
        R.error = (type(e).__name__, str(e))
    R.rows = _normal_rows(s)
    if db:
        s.backend.session.close()
        s.backend.engine.dispose()
    R.handle_forks = [dict(j.handle_forks) for j in R.jobs]
    R.ok = R.error is None and not R.deadlock
    return R


def graph_signature(R: Run):
    """What C07 says must not depend on timing: the returned value, the set of call-node hashes and
    the set of (call hash, position, argument value hash) rows."""
    return (R.result_hash if R.ok else None,
            tuple(c[0] for c in R.rows["call_nodes"]),
            tuple(R.rows["arguments"]),
            tuple((c[0], c[3], c[4]) for c in R.rows["call_nodes"]),
            tuple(R.rows["values"]), tuple(R.rows["evaluations"]), tuple(R.rows["handles"]),
            tuple(R.rows["edges"]))


def structural_signature(R: Run):
    """The same comparison on structural hashes computed by this module (ints, lists and Handle states
    hashed by structure, call nodes from task / arguments / result / sorted children): insensitive to
    which Python objects happen to be shared inside a value."""
    return (R.c_res[0] if R.ok else None, frozenset(x for x in R.c_node if x is not None))


def arrival_signature(R: Run):
    """For every (parent job, handle hash): the children that entered with that handle, in order of
    first entry, identified schedule-independently by (task index, position among the parent's
    children).  Two runs with the same arrival signature gave every Handle fork the same call order
    unless a job was preprocessed more than once."""
    pos = {}
    count = {}
    for j, p in enumerate(R.parent):
        count[p] = count.get(p, 0) + 1
        pos[j] = count[p] - 1

    def path(j):
        out = []
        while j is not None:
            out.append(pos[j])
            j = R.parent[j]
        return tuple(reversed(out))
    sig = {}
    for j in R.first_entry_seq:
        for h in R.entry_handles[j] or []:
            sig.setdefault((path(R.parent[j]) if R.parent[j] is not None else None, h), []).append(path(j))
    return sig


def cross_parent_arrival(R: Run):
    """For every Handle hash that children of at least two DIFFERENT parent jobs passed on: the parents (by
    schedule-independent path) in the order in which those children first reached _exec_job_main_thread."""
    pos, count = {}, {}
    for j, p in enumerate(R.parent):
        count[p] = count.get(p, 0) + 1
        pos[j] = count[p] - 1

    def path(j):
        out = []
        while j is not None:
            out.append(pos[j])
            j = R.parent[j]
        return tuple(reversed(out))
    seq: dict = {}
    for j in R.first_entry_seq:
        if R.parent[j] is None:
            continue
        for h in R.entry_handles[j] or []:
            seq.setdefault(h, []).append(path(R.parent[j]))
    return {h: tuple(ps) for h, ps in seq.items() if len(set(ps)) > 1}


def reentered_handle_jobs(R: Run):
    return [j for j in range(len(R.jobs)) if len(R.entries[j]) > 1 and R.entry_handles[j]]


def is_linear(R: Run):
    """No Handle state was passed to two sibling jobs (or twice to one job)."""
    seen = set()
    for j in range(len(R.jobs)):
        for h in R.entry_handles[j] or []:
            k = (R.parent[j], h)
            if k in seen:
                return False
            seen.add(k)
    return True
