"""C24 — Tag history behaves like a key-value multiset (redun tag add / update / rm)."""
from __future__ import annotations

import io
import itertools
import json
import os
import shutil

from harness.lib import (CORPUS, GEN, Finding, PropertyCheck, TranslateError, cq_list, run_bool_cases,
                         scratch_dir)
from translate import astutil, tr_tagdb

ANY = "<any>"          # `redun tag rm E key` (no value)

# JSON values used by the generators; identity is the normalised JSON text (what the hash and the
# sqlite column compare).  Index 0 is null.
VALUES = [None, 1, 2, "a", 1.0, True, [1, 2], {"b": 1, "a": 2}, "1", "null", 0, False, ""]
KEYS = ["k", "j", "env", "a.b"]
ENTS = ["ent0", "ent1", "ent2"]

KF_DUP = "dup-listing:add-of-pair-already-current-on-another-version"
KF_NULL = "rm-pair:null-value-not-removed"
KF_DUPPAIR = "same-pair-twice-in-one-command:IntegrityError"


def jd(v):
    from redun.utils import json_dumps
    return json_dumps(v)


# ------------------------------------------------------------------ histories
# op = (kind, entity, items) ; kind in add/upd/rm ; items = [(key, value|ANY)]
def fmt_hist(hist):
    return [[k, e, [[kk, vv] for kk, vv in items]] for k, e, items in hist]


def parse_hist(doc):
    return [(k, e, [(kk, vv) for kk, vv in items]) for k, e, items in doc]


def cli_args(op):
    from redun.tags import format_tag_value  # noqa: F401  (display only)
    kind, e, items = op
    words = []
    for k, v in items:
        words.append(k if v == ANY else f"{k}={json.dumps(v)}")
    return {"add": "add", "upd": "update", "rm": "rm"}[kind], words


def spec_step(S, op):
    """The property's model, stated independently: a set of (entity, key, json text)."""
    kind, e, items = op
    S = set(S)
    if kind == "add":
        S |= {(e, k, jd(v)) for k, v in items}
    elif kind == "upd":
        ks = {k for k, _ in items}
        S = {t for t in S if not (t[0] == e and t[1] in ks)} | {(e, k, jd(v)) for k, v in items}
    else:
        for k, v in items:
            if v == ANY:
                S = {t for t in S if not (t[0] == e and t[1] == k)}
            else:
                S.discard((e, k, jd(v)))
    return S


class Real:
    """The real backend, driven the way cli.py drives it (one command = one process: whatever a
    command leaves uncommitted is rolled back)."""

    def __init__(self):
        self.tmp = scratch_dir("rv_c24_")
        self.cwd = os.getcwd()
        os.chdir(self.tmp)
        import logging
        logging.getLogger("redun").setLevel(logging.ERROR)
        from redun.backends.db import RedunBackendDb
        self.b = RedunBackendDb(db_uri="sqlite:///:memory:")
        self.b.load()

    def close(self):
        os.chdir(self.cwd)
        shutil.rmtree(self.tmp, ignore_errors=True)

    def reset(self):
        from redun.backends.db import Tag, TagEdit
        s = self.b.session
        s.rollback()
        s.query(TagEdit).delete()
        s.query(Tag).delete()
        s.commit()

    def op(self, op):
        """Returns 0 ok / 1 database error."""
        import sqlalchemy.exc
        from redun.backends.base import TagEntity
        kind, e, items = op
        try:
            if kind == "add":
                self.b.record_tags(TagEntity.Job, e, [(k, v) for k, v in items], new=True)
            elif kind == "upd":
                self.b.record_tags(TagEntity.Job, e, [(k, v) for k, v in items], update=True)
            else:
                key_values = [(k, v) for k, v in items if v != ANY]
                keys = [k for k, v in items if v == ANY]
                self.b.delete_tags(e, key_values, keys)
            rc = 0
        except sqlalchemy.exc.SQLAlchemyError:
            rc = 1
        self.b.session.rollback()
        return rc

    def current(self, e):
        m = self.b.get_tags([e]).get(e)
        return sorted((k, jd(v)) for k, v in m) if m else []

    def table(self):
        from redun.backends.db import Tag, TagEdit
        s = self.b.session
        rows = {t.tag_hash: (t.entity_id, t.key, jd(t.value), bool(t.is_current)) for t in s.query(Tag).all()}
        edits = [(e.parent_id, e.child_id) for e in s.query(TagEdit).all()]
        return rows, edits


def graph_check(rows, edits):
    """On the real tables: every edit joins two existing rows, the graph is acyclic, and every
    tag_hash is hash_tag(content, sorted parents).  Returns None or a description."""
    from redun.hashing import hash_tag
    par = {h: [] for h in rows}
    for p, c in edits:
        if p not in rows or c not in rows:
            return f"edit ({p[:8]}, {c[:8]}) refers to a missing tag"
        par[c].append(p)
    state = {}

    def visit(h):
        stack = [(h, iter(par[h]))]
        state[h] = 1
        while stack:
            node, it = stack[-1]
            for p in it:
                if state.get(p) == 1:
                    return f"cycle through {p[:8]}"
                if p not in state:
                    state[p] = 1
                    stack.append((p, iter(par[p])))
                    break
            else:
                state[node] = 2
                stack.pop()
        return None
    for h in rows:
        if h not in state:
            r = visit(h)
            if r:
                return r
    for h, (e, k, vj, cur) in rows.items():
        if hash_tag(e, k, json.loads(vj), sorted(par[h])) != h:
            return f"tag {h[:8]} ({e},{k},{vj}) is not the hash of its content and recorded parents"
    return None


class Check(PropertyCheck):
    id = "C24"
    module = "Props.C24"
    theorems = ["C24_edit_graph_acyclic", "C24_walk_terminates", "C24_current_iff_not_superseded",
                "C24_refines_set", "C24_refines_set_fixed", "C24_refines_set_shipped_partial",
                "C24_refines_set_deduped_partial", "C24_same_pair_twice_deduped",
                "C24_readd_after_delete", "C24_listing_nodup_fixed_bounded",
                "C24_dup_listing_refuted", "C24_null_delete_refuted", "C24_same_pair_twice_refuted",
                "C24_nonvacuous"]
    allowed_axioms = []
    assumptions = [
        "hash_tag is injective on (entity_id, key, json_dumps(value), sorted parent hashes): the model identifies a tag "
        "with its content and parent rows; on every run the real tag_hash of every row is recomputed from the TagEdit "
        "table and compared, and whole tables are compared with the model",
        "sqlite backend: JSON values are compared by their normalised text (json_dumps), so 1, 1.0 and true are three values",
        "one `redun tag` command is one process: work that a command leaves uncommitted is lost (emulated by rollback)",
        "entity ids are non-empty and tag keys are non-empty (parse_tag_key_value, pinned), so the delete marker row "
        "(entity_id '', key '') is never a tag of an entity",
    ]
    rule = ("histories of tag add/update/rm commands (1-3 pairs per command, repeated pairs, bare keys for rm) over "
            "3 entities x 4 keys x 13 JSON values incl. null/1/1.0/true/lists/objects; exhaustive small scope + random "
            "longer ones; a history is non-trivial if it has >= 2 commands; distinct by canonical repr")

    cfg = None          # set by translate(); None if the translator did not recognise the source

    # ------------------------------------------------------------------
    def translate(self):
        try:
            text, info = tr_tagdb.translate()
        except astutil.TranslateError as e:
            raise TranslateError(str(e))
        self.cfg = info["cfg"]
        self.variant = (info["variant_record_tags"], info["variant_delete_tags"])
        GEN.mkdir(exist_ok=True)
        p = GEN / "C24Gen.v"
        p.write_text(text)
        return [p]

    # ------------------------------------------------------------------ generators
    def rand_op(self, ents, keys, vals):
        r = self.rng
        kind = r.choice(["add", "add", "upd", "upd", "rm", "rm"])
        e = r.choice(ents)
        n = r.choice([1, 1, 1, 2, 2, 3])
        items = []
        for _ in range(n):
            k = r.choice(keys)
            if kind == "rm" and r.random() < 0.4:
                items.append((k, ANY))
            else:
                items.append((k, r.choice(vals)))
        if n > 1 and r.random() < 0.15:
            items[-1] = items[0]
        return (kind, e, items)

    def rand_hist(self, maxlen):
        r = self.rng
        ents = ENTS[:r.choice([1, 1, 2, 3])]
        keys = KEYS[:r.choice([1, 2, 2, 3, 4])]
        vals = r.sample(VALUES, r.choice([2, 2, 3, 4]))
        if r.random() < 0.3 and None not in vals:
            vals[0] = None
        return [self.rand_op(ents, keys, vals) for _ in range(r.randint(1, maxlen))]

    # ------------------------------------------------------------------ Coq literals
    def cq_val(self, v):
        if v is None:
            return "VNull"
        t = jd(v)
        if t not in self.vidx:
            self.vidx[t] = len(self.vidx) + 1
        return f"(VJ {self.vidx[t]})"

    def cq_op(self, op):
        kind, e, items = op
        en = ENTS.index(e)
        pair = lambda k, v: f"({KEYS.index(k)}, {self.cq_val(v)})"
        if kind == "add":
            return f"TAdd {en} {cq_list([pair(k, v) for k, v in items])}"
        if kind == "upd":
            return f"TUpdate {en} {cq_list([pair(k, v) for k, v in items])}"
        return (f"TRm {en} {cq_list([pair(k, v) for k, v in items if v != ANY])} "
                f"{cq_list([str(KEYS.index(k)) for k, v in items if v == ANY])}")

    def cq_tree(self, h, rows, par, budget):
        budget[0] -= 1
        if budget[0] < 0:
            raise OverflowError
        e, k, vj, cur = rows[h]
        if e == "" and k == "" and vj == "null":
            c = "CDel"
        else:
            c = f"(CTag {ENTS.index(e)} {KEYS.index(k)} {self.cq_val(json.loads(vj))})"
        return f"(T {c} {'true' if cur else 'false'} {cq_list([self.cq_tree(p, rows, par, budget) for p in par[h]])})"

    # ------------------------------------------------------------------
    def correspond(self):
        real = Real()
        try:
            self._correspond(real)
        finally:
            real.close()

    def _correspond(self, real):
        n = 260 if self.tier == "quick" else 2500
        maxlen = 7 if self.tier == "quick" else 9
        hists = []
        corpus = CORPUS / "C24.jsonl"
        if corpus.exists():
            for line in corpus.read_text().splitlines():
                if line.strip():
                    hists.append(parse_hist(json.loads(line)["history"]))
        # the witnesses of Props/C24.v
        hists += [
            [("add", "ent0", [("k", 1)]), ("upd", "ent0", [("k", 2)]), ("add", "ent0", [("k", 2)])],
            [("add", "ent0", [("k", 1)]), ("add", "ent0", [("k", 2)]), ("upd", "ent0", [("k", 1)]), ("add", "ent0", [("k", 1)])],
            [("add", "ent0", [("k", None)]), ("rm", "ent0", [("k", None)])],
            [("add", "ent0", [("k", 1), ("k", 1)])],
            [("add", "ent0", [("k", 1)]), ("rm", "ent0", [("k", 1)]), ("add", "ent0", [("k", 1)]), ("rm", "ent0", [("k", ANY)]),
             ("add", "ent0", [("k", 1)]), ("add", "ent0", [("k", 1)])],
            [("add", "ent0", [("k", 1)]), ("rm", "ent0", [("k", 1)]), ("add", "ent0", [("j", 1), ("k", 1), ("k", 1)])],
            [("rm", "ent0", [("k", ANY)]), ("rm", "ent1", [("k", ANY)]), ("add", "ent0", [("k", 1)]), ("rm", "ent0", [("j", 2)])],
        ]
        while len(hists) < n:
            hists.append(self.rand_hist(maxlen))
        terms, descr = [], []
        for hist in hists:
            self.vidx = {}
            real.reset()
            log = [real.op(op) for op in hist]
            rows, edits = real.table()
            why = graph_check(rows, edits)
            if why:
                self.findings.append(Finding(f"edit-graph:{json.dumps(fmt_hist(hist))}"[:300], "tag edit graph broken: " + why,
                                             {"kind": "graph", "history": fmt_hist(hist), "why": why}))
                continue
            par = {h: [] for h in rows}
            for p, c in edits:
                par[c].append(p)
            try:
                budget = [6000]
                lit = cq_list([self.cq_tree(h, rows, par, budget) for h in rows])
            except OverflowError:
                self.stat("correspondence", "skipped:tree-too-large")
                continue
            ops = cq_list([self.cq_op(op) for op in hist])
            cur = []
            for e in ENTS:
                cur.append(cq_list([f"({KEYS.index(k)}, {self.cq_val(json.loads(vj))})" for k, vj in real.current(e)]))
            terms.append(f"agrees {ops} {cq_list([str(x) for x in log])} {lit} {cq_list(cur)}")
            descr.append(fmt_hist(hist))
            self.count(json.dumps(fmt_hist(hist)) if len(hist) >= 2 else None)
            self.stat("history_length", len(hist))
            self.stat("rows_in_table", min(len(rows), 12))
            for k, e, items in hist:
                self.stat("command", k + ("*" if any(v == ANY for _, v in items) else "") + str(len(items)))
            if 1 in log:
                self.stat("outcome", "history with a database error")
            self.sample({"history": fmt_hist(hist), "log": log, "rows": len(rows), "edits": len(edits)}, 4)
        pre = """
Definition pairs_le (l l' : list (nat * jval)) : bool :=
  forallb (fun p => Nat.leb (length (filter (fun q => (fst p =? fst q) && jval_eqb (snd p) (snd q)) l))
                            (length (filter (fun q => (fst p =? fst q) && jval_eqb (snd p) (snd q)) l'))) l.
Definition agrees (ops : list op) (log : list nat) (ts : list tree) (cur : list (list (nat * jval))) : bool :=
  let s := state_of (run gen_cfg init ops) in
  list_eqb (run_log gen_cfg init ops) log && trees_equiv (trees s) ts && edits_consistent s &&
  forallb (fun ec => pairs_le (cur_pairs s (fst ec)) (snd ec) && pairs_le (snd ec) (cur_pairs s (fst ec)))
          (combine (seq 0 (length cur)) cur).
"""
        if self.cfg is None:        # translator failed: compare with the model of the code as shipped
            reqs, pre = ["Model.Tags"], "Definition gen_cfg : cfg := shipped.\n" + pre
        else:
            reqs = ["Model.Tags", "Gen.C24Gen"]
        ok, failing, diags = run_bool_cases("C24", reqs, "From Coq Require Import Arith.\n" + pre, terms, chunk=60)
        self.ob("correspondence",
                f"model (under {'the extracted configuration ' + str(self.cfg) if self.cfg else 'the shipped configuration; extraction failed'}) == real backend on {len(terms)} command histories: "
                "per-command outcome, whole tag table as content/parent trees with is_current, TagEdit == parent lists, "
                "get_tags multiset per entity", ok and not failing,
                "\n".join(diags) + "".join(f"\nmismatch: {json.dumps(descr[i])}" for i in failing[:8]))
        self.mismatches = [descr[i] for i in failing]

    # ------------------------------------------------------------------ implementation oracle
    def check_history(self, real, hist, entity_map=None):
        """Runs one history on the real backend against the independent spec.
        Returns a list of (key, what, replay) deviations (known-finding keys for the three confirmed defects)."""
        out = []
        S = set()
        dup_known = False
        m = entity_map or {}
        ents = sorted({o[1] for o in hist})
        after = {ee: [] for ee in ents}          # fresh entities: nothing is current
        for i, op in enumerate(hist):
            kind, e, items = op
            rop = (kind, m.get(e, e), items)
            before = dict(after)
            rc = real.op(rop)
            prefix = fmt_hist(hist[:i + 1])
            texts = [(k, jd(v)) for k, v in items if v != ANY]
            if rc:
                if len(set(texts)) < len(texts):
                    out.append((KF_DUPPAIR, f"database error for a command that names one pair twice: {op}",
                                {"kind": "history", "history": prefix}))
                else:
                    out.append((f"db-error:{json.dumps(prefix)}"[:300], f"database error in {op}", {"kind": "history", "history": prefix}))
                return out
            S2 = spec_step(S, op)
            for ee in ents:
                got = after[ee] = real.current(m.get(ee, ee))
                want = sorted((k, vj) for (e2, k, vj) in S2 if e2 == ee)
                if sorted(set(got)) != want:
                    stale = set(got) - set(want)
                    if kind == "rm" and ee == e and not (set(want) - set(got)) and stale and \
                            all(vj == "null" and (k, None) in [(kk, vv) for kk, vv in items if vv is None] for k, vj in stale):
                        out.append((KF_NULL, f"rm of a pair with value null leaves it current: {op}", {"kind": "history", "history": prefix}))
                    else:
                        out.append((f"set:{json.dumps(prefix)}"[:300],
                                    f"current tags of {ee} are {got}, the key-value model has {want}", {"kind": "history", "history": prefix}))
                    return out
                if len(got) != len(set(got)) and not dup_known:
                    dups = {p for p in got if got.count(p) > 1}
                    if kind == "add" and ee == e and all(p in texts and p in before[ee] for p in dups):
                        out.append((KF_DUP, f"get_tags lists a pair twice after re-adding a pair that was already current: {prefix}",
                                    {"kind": "history", "history": prefix}))
                        dup_known = True
                    else:
                        out.append((f"dup:{json.dumps(prefix)}"[:300], f"get_tags lists {sorted(dups)} twice", {"kind": "history", "history": prefix}))
                        return out
            S = S2
        rows, edits = real.table()
        why = graph_check({h: r for h, r in rows.items()}, edits)
        if why:
            out.append((f"edit-graph:{json.dumps(fmt_hist(hist))}"[:300], "tag edit graph broken: " + why,
                        {"kind": "history", "history": fmt_hist(hist)}))
        return out

    def small_scope(self):
        alpha = []
        for k in ("k", "j"):
            for v in (1, None):
                for kind in ("add", "upd", "rm"):
                    alpha.append((kind, "ent0", [(k, v)]))
            alpha.append(("rm", "ent0", [(k, ANY)]))
        alpha.append(("upd", "ent0", [("k", 1), ("j", 1)]))
        alpha.append(("add", "ent0", [("k", 1), ("k", 2)]))
        alpha.append(("add", "ent0", [("k", 1), ("k", 1)]))
        alpha.append(("add", "ent1", [("k", 1)]))
        alpha.append(("rm", "ent1", [("k", ANY)]))
        if self.tier == "quick":
            for hist in itertools.product(alpha, repeat=2):
                yield list(hist)
            # a slice of depth 3: everything that starts with an add or update
            for hist in itertools.product([a for a in alpha[:8] if a[0] != "rm"], alpha[:12], alpha[:12]):
                yield list(hist)
        else:
            for hist in itertools.product(alpha, repeat=3):
                yield list(hist)
            for hist in itertools.product(alpha[:8], repeat=4):
                yield list(hist)

    def oracle(self):
        real = Real()
        try:
            n = 0
            hists = []
            corpus = CORPUS / "C24.jsonl"
            if corpus.exists():
                for line in corpus.read_text().splitlines():
                    if line.strip():
                        hists.append(parse_hist(json.loads(line)["history"]))
            hists.append([("add", "ent0", [("k", 1)]), ("add", "ent0", [("k", 2)]), ("upd", "ent0", [("k", 1)]), ("add", "ent0", [("k", 1)])])
            hists.append([("add", "ent0", [("k", None)]), ("rm", "ent0", [("k", None)])])
            hists.append([("add", "ent0", [("k", 1), ("k", 1)])])
            for h in getattr(self, "mismatches", [])[:20]:
                hists.append(parse_hist(h))
            nss = 0
            for h in self.small_scope():
                hists.append(h)
                nss += 1
            for _ in range(300 if self.tier == "quick" else 6000):
                hists.append(self.rand_hist(8 if self.tier == "quick" else 12))
            seen_keys = set()
            for hist in hists:
                n += 1
                real.reset()
                for key, what, replay in self.check_history(real, hist):
                    if key not in seen_keys:
                        seen_keys.add(key)
                        self.findings.append(Finding(key, what, replay))
                    self.stat("oracle_deviation", key.split(":")[0])
            self.evaluations += n
            self.stat("oracle", "histories", n)
            self.stat("oracle", "small_scope_histories", nss)
            self.cli_level(real)
            known = {KF_DUP, KF_NULL, KF_DUPPAIR}
            new = [f for f in self.findings if f.key not in known]
            self.ob("oracle", f"implementation oracle (current tags == key-value model as sets, no pair listed twice, re-added pairs current, "
                    f"edit graph acyclic and hash-consistent) on {n} histories; deviations other than the registered ones",
                    not new, "; ".join(f.what for f in new[:5]))
            # the model says which of the three defects the current code has; the real code must agree
            cfg = self.cfg
            if cfg is not None:
                keys = {f.key for f in self.findings}
                agree = ((KF_DUP in keys) == (not cfg["skip_current"]) and (KF_NULL in keys) == (not cfg["null_match"])
                         and (KF_DUPPAIR in keys) == (not cfg["dedupe"]))
                self.ob("variant", f"the Coq witnesses replayed on the real code agree with the extracted variant {cfg}", agree,
                        f"findings {sorted(keys)} vs cfg {cfg}")
        finally:
            real.close()

    def cli_level(self, real):
        """A few histories through the real `redun tag` commands on a real Execution and Job."""
        from redun import Scheduler, task  # noqa: F401
        from redun.cli import RedunClient
        from redun.file import File
        tmp = scratch_dir("rv_c24cli_")
        cwd = os.getcwd()
        os.chdir(tmp)
        try:
            File("workflow.py").write("from redun import task\nredun_namespace = 'c24'\n@task()\ndef main(x: int = 1) -> int:\n    return x + 1\n")
            self._cli(["redun", "run", "workflow.py", "main"])
            from redun.backends.db import Execution, Job
            from redun.cli import setup_scheduler
            backend = setup_scheduler().backend
            ex = backend.session.query(Execution).one()
            job = backend.session.query(Job).first()
            ids = {"ent0": ex.id, "ent1": job.id}
            backend.session.rollback()      # do not hold a read transaction while the commands write
            hists = [
                [("add", "ent0", [("k", 1)]), ("rm", "ent0", [("k", 1)]), ("add", "ent0", [("k", 1)]), ("upd", "ent0", [("k", "a")]),
                 ("add", "ent1", [("k", [1, 2]), ("j", {"a": 2})]), ("rm", "ent1", [("j", ANY)])],
            ]
            for _ in range(3 if self.tier == "quick" else 30):
                h = self.rand_hist(5)
                hists.append([(k, e if e in ids else "ent0", [(kk, vv) for kk, vv in items if vv != ""]) for k, e, items in h])
            for hist in hists:
                hist = [op for op in hist if op[2]]
                S = {}
                for e in ids:
                    for k in KEYS:
                        self._cli(["redun", "tag", "rm", ids[e], "--", k])
                ok = True
                for i, op in enumerate(hist):
                    sub, words = cli_args(op)
                    err = self._cli(["redun", "tag", sub, ids[op[1]]] + (["--"] if sub == "rm" else []) + words)
                    texts = [(k, jd(v)) for k, v in op[2] if v != ANY]
                    if err:
                        break       # the backend-level oracle classifies errors
                    S = spec_step(S, op)
                    be = backend
                    be.session.rollback()
                    be.session.expire_all()
                    state = {}
                    for e in ids:
                        m = be.get_tags([ids[e]]).get(ids[e])
                        state[e] = sorted({(k, jd(v)) for k, v in m if k in KEYS}) if m else []
                    be.session.rollback()
                    for e in ids:
                        got = state[e]
                        want = sorted((k, vj) for (e2, k, vj) in S if e2 == e)
                        if got != want:
                            if any(v is None for _, v in op[2]) and op[0] == "rm":
                                break
                            ok = False
                            self.findings.append(Finding(f"cli-set:{json.dumps(fmt_hist(hist[:i + 1]))}"[:300],
                                                         f"after the commands, `redun tag` state of {e} is {got}, model has {want}",
                                                         {"kind": "cli", "history": fmt_hist(hist[:i + 1])}))
                            break
                    else:
                        continue
                    break
                self.evaluations += 1
                self.stat("oracle", "cli_histories")
        finally:
            os.chdir(cwd)
            shutil.rmtree(tmp, ignore_errors=True)

    def _cli(self, argv):
        from redun.cli import RedunClient
        c = RedunClient()
        c.stdout = io.StringIO()
        try:
            c.execute(argv)
            return None
        except Exception as e:  # noqa
            return type(e).__name__
        finally:
            # the command's process would end here: drop whatever it left uncommitted
            be = getattr(getattr(c, "scheduler", None), "backend", None)
            if be is not None and getattr(be, "session", None) is not None:
                be.session.rollback()
                be.session.close()
                if getattr(be, "engine", None) is not None:
                    be.engine.dispose()

    # ------------------------------------------------------------------
    def replay(self, doc):
        r = doc.get("replay", {})
        if r.get("kind") in ("history", "graph", "cli"):
            real = Real()
            try:
                hist = parse_hist(r["history"])
                real.reset()
                dev = self.check_history(real, hist)
                for key, what, _ in dev:
                    print("replay:", key, "--", what)
                if not dev:
                    print("replay: the property holds on this history now")
                for e in sorted({o[1] for o in hist}):
                    print("replay: get_tags", e, real.current(e))
                return 1 if dev else 0
            finally:
                real.close()
        print("replay: nothing to replay (no failing input was found); broken obligations:",
              json.dumps(doc.get("broken_obligations", []))[:2000])
        return 1
