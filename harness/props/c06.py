"""C06 — Each distinct call runs at most once per execution."""
from __future__ import annotations

import random

from harness import jobcheck, sched
from harness.lib import Finding, PropertyCheck, TranslateError
from translate import astutil
from harness.progs import vm
from redun.scheduler import CacheScope

A = ("a", "leaf", 7, (), None)
# an ordinary call of a; the same call under a parent without provenance; a third ordinary call
WITNESS = ("root", "list", 0, (A, ("P", "list", 1, (A,), {"prov": False}), ("Q", "list", 2, (A,), None)), None)


# a twin that becomes ready between "done" and "resolved" of the first call (first call still has a running child);
# run with cache=False (cache_scope CSE), where only _pending_jobs protects the call
C = ("C", "leaf", 5, (), None)
P = ("P", "list", 0, (C,), None)
WITNESS2 = ("root", "list", 0, (P, ("W", "list", 1, (P,), None)), None)
PRIORITY2 = ["root", "P", "W", "C"]


def witness_chooser(held):
    def rank(job):
        name = job.args[0][0][0]
        prov = job.get_options().get("prov", True)
        return {"root": 0, "P": 1}.get(name, 2 if (name == "a" and not prov) else 3 if name == "Q" else 4)
    return min(range(len(held)), key=lambda i: rank(held[i]))


def opted_out(job):
    opts = job.get_options()
    return CacheScope(opts.get("cache_scope", CacheScope.BACKEND)) == CacheScope.NONE or not opts.get("prov", True)


KF_CTX_TWIN = "twin-resubmitted:context-free-call-after-twin-under-context"
# the same call without a context, then under a context (same result, so the same CallNode, which gets the context
# tag), then without a context again: in an execution without the backend cache the third one runs again
X5 = ("x", "leaf", 5, (), None)
WITNESS_CTX = ("root", "seq", 0, (("s1", "seq", 0, (X5, ("w", "list", 0, (X5,), {"context": {"k": 2}})), None),
                                  ("late", "list", 1, (X5,), None)), None)


def check_run(out):
    """Implementation oracle on one run. Returns list of (key, what)."""
    tr = out["tracer"]
    bad = []
    by_key = {}
    for job in tr.jobobj:
        if job.eval_hash is None:
            continue
        n = tr.ex.nsubmits.get(job.id, 0)
        if n > 1:
            bad.append(("job-submitted-twice", f"job {tr.jobid[job.id]} handed to the executor {n} times"))
        if opted_out(job):
            continue
        by_key.setdefault((job.eval_hash, job.context_hash), []).append(job)
    # each distinct expression reached from the same parent job is evaluated once: one Job per (parent, expression)
    per_parent = {}
    for mid, pe in getattr(tr, "expr_of", {}).items():
        if pe is not None and pe[0] is not None:
            per_parent.setdefault(pe, []).append(mid)
    for (pid, h), mids in per_parent.items():
        if len(mids) > 1:
            bad.append(("expression-evaluated-twice:same-parent",
                        f"jobs {mids} were all created for one expression (hash {h[:8]}) of parent job "
                        f"{tr.jobid.get(pid, pid)}"))
    for key, jobs in by_key.items():
        subs = [j for j in jobs if tr.ex.nsubmits.get(j.id, 0) >= 1]
        if len(subs) > 1:
            others = [j for j in tr.jobobj if j.eval_hash == key[0] and opted_out(j)]
            ctx_twins = [j for j in tr.jobobj if j.eval_hash == key[0] and j.context_hash is not None]
            kind = ("twin-resubmitted:entry-popped-by-opted-out-twin" if others else
                    KF_CTX_TWIN if key[1] is None and ctx_twins else "twin-resubmitted")
            bad.append((kind, f"jobs {[tr.jobid[j.id] for j in subs]} with the same task, arguments and context were all "
                              f"handed to an executor"))
        # duplicates agree: all settled jobs of this key have the same status
        st = {tr.status.get(j.id) for j in jobs if tr.status.get(j.id) in (1, 2)}
        if len(st) > 1:
            bad.append(("duplicates-disagree", f"jobs {[tr.jobid[j.id] for j in jobs]} of one key ended both done and failed"))
    return bad


class Check(PropertyCheck):
    id = "C06"
    module = "Props.C06"
    extra_modules = ["Model.JobTrace"]
    theorems = ["C06_one_submitter_per_key", "C06_job_submitted_at_most_once", "C06_submitter_stays_visible",
                "C06_twin_records_provenance", "C06_refuted_as_shipped", "C06_witness_fixed",
                "C06_refuted_context_twin", "C06_context_twin_exact",
                "C06_duplicates_agree", "C06_preset_is_final", "C06_outcome_final", "C06_duplicates_agree_nonvacuous",
                "C06_duplicate_handed_value_partial", "C06_duplicate_handed_error_partial",
                "C06_duplicate_done_resolve_partial", "C06_duplicate_cse_hit_partial",
                "C06_one_job_per_expression", "C06_one_job_per_expression_nonvacuous"]
    variant = None
    assumptions = [
        "results of calls contain no Handle state that was rolled back meanwhile (such a CSE hit is deliberately re-derived)",
        "one job per distinct expression of a parent (C06_one_job_per_expression) is a theorem about the table of pending expressions (Model/PendingExpr.v), tied to the code by the entry-lifetime flag the translator extracts and by the per-(parent, expression) job count of the oracle; the open job machine itself takes job creation (ONew) as an external op",
    ]
    rule = ("random programs with many twin calls (same spec under different parents), failing leaves, catch, limits, "
            "cache_scope NONE/CSE and prov=False calls, on the real Scheduler with a controlled executor and seeded "
            "completion schedules; non-trivial = >= 3 jobs")

    def translate(self):
        p, self.variant = jobcheck.translate_variant("C06", "")
        if self.variant["pending_owner_safe"] and self.variant["ctx_exact"]:
            tie = ("Lemma C06_tie : pending_owner_safe gen_variant = true /\\ ctx_exact gen_variant = true.\n"
                   "Proof. split; reflexivity. Qed.\n")
        elif self.variant["pending_owner_safe"]:
            tie = ("(* the same-execution look-up works on CallNode tags: C06_one_submitter_per_key needs ctx_exact and does "
                   "not apply; C06_refuted_context_twin is the applicable theorem (registered known finding), "
                   "C06_job_submitted_at_most_once and C06_twin_records_provenance apply as they are *)\n"
                   "Lemma C06_tie_ctx : pending_owner_safe gen_variant = true /\\ ctx_exact gen_variant = false.\n"
                   "Proof. split; reflexivity. Qed.\n")
        else:
            tie = ("(* submitting overwrites / finalizing pops the _pending_jobs entry regardless of its owner: "
                   "C06_refuted_as_shipped is the applicable theorem *)\n"
                   "Lemma C06_tie_shipped : pending_owner_safe gen_variant = false.\nProof. reflexivity. Qed.\n")
        # lifetime of a _pending_expr entry (extracted by translate/tr_timing.py): C06_one_job_per_expression needs
        # "until the parent job is finalized"
        from translate import tr_timing
        try:
            _, tcfg, _ = tr_timing.translate(pins=None)
        except astutil.TranslateError as e:
            raise TranslateError(f"pending-expression table: {e}")
        tie += ("Definition gen_pending_until_finalized_c06 : bool := %s.\n"
                "Lemma C06_tie_pending_expr : gen_pending_until_finalized_c06 = true.\nProof. reflexivity. Qed.\n"
                % ("true" if tcfg["pending_until_finalized"] else "false"))
        p.write_text(p.read_text() + tie)
        return [p]

    def correspond(self):
        n = 80 if self.tier == "quick" else 1500
        if self.variant is None:
            self.runs = [jobcheck.random_run(self.rng, infeasible=0.0) for _ in range(n)]
            return
        self.runs, self.failing = jobcheck.correspond_traces(self, self.variant, n, "C06", infeasible=0.0)

    def oracle(self):
        out = sched.run_program(lambda: vm.call(WITNESS), {"r0": 1}, random.Random(self.seed),
                                complete_prob=0.0, chooser=witness_chooser)
        out["spec"], out["limits"] = WITNESS, {"r0": 1}
        out2 = sched.run_program(lambda: vm.call(WITNESS2), {"r0": 1}, random.Random(self.seed), complete_prob=0.0,
                                 priority=PRIORITY2, cache=False)
        out2["spec"], out2["limits"] = WITNESS2, {"r0": 1}
        out3 = sched.run_program(lambda: vm.call(WITNESS_CTX), {"r0": 1}, random.Random(self.seed), cache=False)
        out3["spec"], out3["limits"] = WITNESS_CTX, {"r0": 1}
        runs = [("witness", out), ("witness2", out2), ("witness-ctx", out3)] + [("random", o) for o in getattr(self, "runs", [])]
        # a call whose RESULT is None / falsy, demanded again from another parent after the first one finished, in an
        # execution without the backend cache: only the same-execution look-up prevents a second submission (seeded change
        # C06d: "result is not None" taken for "was cached")
        for i, payload in enumerate([None, 0, "", (), False]):
            xn = (f"nv{i}", "leaf", payload, (), None)
            spec = (f"nr{i}", "seq", 0, (xn, (f"nw{i}", "list", 0, (xn,), None), (f"nu{i}", "list", 1, (xn,), None)), None)
            for cache in (False, True):
                o5 = sched.run_program(lambda: vm.call(spec), {"r0": 1}, random.Random(self.seed + i), cache=cache)
                o5["spec"], o5["limits"] = spec, {"r0": 1}
                runs.append(("falsy-result-twin", o5))
        # one parent demands the same call again after the first demand has settled (seq of equal calls; catch then bare;
        # failing and succeeding): still one job per expression of that parent (seeded change C07d)
        for i, (kind, leafkind) in enumerate([("seq", "leaf"), ("catchthen", "leaf"), ("catchthen", "raise"), ("seq", "list")]):
            x = (f"rx{i}", leafkind, 3, (), None) if leafkind != "list" else (f"rx{i}", "list", 3, ((f"ry{i}", "leaf", 1, (), None),), None)
            kids = (x, x, x) if kind == "seq" else (x,)
            spec = (f"rp{i}", "catchany", 0, ((f"rq{i}", kind, 0, kids, None),), None)
            for cache in (True, False):
                o4 = sched.run_program(lambda: vm.call(spec), {"r0": 1}, random.Random(self.seed + i), cache=cache)
                o4["spec"], o4["limits"] = spec, {"r0": 1}
                runs.append(("re-demanded", o4))
        # twins parked together in the limits queue behind a blocker that holds the whole limit, woken together when it
        # completes (seeded change C06b: the pending-twin check skipped on re-entry from the limits queue)
        for lim, cache, nt in [(2, True, 2), (3, True, 3), (2, False, 2), (1, False, 2), (2, True, 3)]:
            T = ("T", "leaf", 3, (), {"limits": {"r0": 1}})
            B = ("B", "leaf", 1, (), {"limits": {"r0": lim}})
            parents = tuple((f"P{i}", "list", i, (T,), None) for i in range(nt))
            spec = ("root", "list", 0, (B,) + parents, None)
            o = sched.run_program(lambda: vm.call(spec), {"r0": lim}, random.Random(self.seed), complete_prob=0.0,
                                  priority=["root"] + [f"P{i}" for i in range(nt)] + ["T", "B"], cache=cache)   # the blocker completes last
            o["spec"], o["limits"] = spec, {"r0": lim}
            if "result" not in o:
                self.findings.append(Finding(f"parked-twins-run-fails:{lim}:{cache}:{nt}",
                                             f"the run ended with {o.get('error', o.get('deadlock'))!r} instead of a result",
                                             {"kind": "parked-twins", "spec": repr(spec), "limits": {"r0": lim}}))
            runs.append((f"parked-twins:{lim}:{cache}:{nt}", o))
        # a FAILING call made again, by another job, after its first failure was caught, recorded and finalized, with
        # and without a non-empty context: the completed twin must be found (seeded change C06c: the failed CallNode's
        # context tag was not recorded, so the look-up under a context missed and the call ran again)
        for i, ctx in enumerate([None, {"k": 1}, {"k": 2}, None]):
            X = (f"fx{i}", "raise", f"boom{i}", (), None)
            first = (f"fc{i}", "catch", 0, (X,), None)
            second = (f"fd{i}", "catch", 1, ((f"fp{i}", "list", 1, (X,), None),), None)
            spec = (f"fs{i}", "seq", 0, (first, second), {"context": ctx} if ctx else None)
            o = sched.run_program(lambda: vm.call(spec), {"r0": 1}, random.Random(self.seed + i), cache=(i != 3))
            o["spec"], o["limits"] = spec, {"r0": 1}
            runs.append((f"staged-failing-twin:{ctx}", o))
        nb = 0
        for kind, o in runs:
            self.evaluations += 1
            for key, what in check_run(o):
                nb += 1
                self.findings.append(Finding(key, what, {"kind": kind, "spec": repr(o["spec"]), "limits": o["limits"]}))
        self.stat("oracle", "runs", len(runs))
        self.stat("oracle", "violations", nb)
        self.ob("oracle", "implementation oracle ran (submissions per key, per job; duplicates agree)", True)
        if self.variant is not None:
            expect = not self.variant.get("ctx_exact", True)
            got = any(f.key == KF_CTX_TWIN and f.replay.get("kind") == "witness-ctx" for f in self.findings)
            self.ob("tie-witness", "C06_refuted_context_twin witness " + ("reproduces on the real code (look-up on CallNode tags)"
                    if expect else "does not reproduce (exact look-up)"), got == expect,
                    f"translator says ctx_exact={not expect}, witness reproduces: {got}")
        if self.variant is not None and not self.variant["pending_owner_safe"] and not any(
                f.key.startswith("twin-resubmitted") for f in self.findings):
            self.ob("tie-witness", "C06_refuted_as_shipped witness reproduces on the real code", False,
                    "translator says as-shipped but the witness schedule did not resubmit the twin")

    def replay(self, doc):
        r = doc.get("replay", {})
        if "spec" in r:
            spec = eval(r["spec"])
            for sd in range(30):
                kw = dict(complete_prob=0.0, chooser=witness_chooser) if r.get("kind") == "witness" else {}
                out = sched.run_program(lambda: vm.call(spec), r["limits"], random.Random(sd), **kw)
                if check_run(out):
                    print("replay: still fails (schedule seed", sd, ")")
                    return 1
            print("replay: holds in 30 schedules")
            return 0
        print("replay: nothing to replay:", doc.get("broken_obligations"))
        return 1
