"""C20 machinery: run generated programs on the real Scheduler + sqlite file, observe the executed call
tree (by wrapping bound methods of one Scheduler instance; nothing in /repo is touched), dump the whole
database with plain sqlite3 and decide the property by an independent re-computation of every hash.

Independent of redun: SHA-512 (hashlib) and a 20-line bencoder (`benc`).  Taken from redun (they are other
properties' subjects): Task.hash (C17), TypeRegistry.get_hash of argument/result values (C16).
"""
from __future__ import annotations

import hashlib
import json
import os
import random
import sqlite3

from harness import sched


# ------------------------------------------------------------------ independent hashing
def benc(x) -> bytes:
    if isinstance(x, bool) or x is None:
        raise TypeError(x)
    if isinstance(x, int):
        return b"i" + str(x).encode() + b"e"
    if isinstance(x, str):
        x = x.encode()
    if isinstance(x, bytes):
        return str(len(x)).encode() + b":" + x
    if isinstance(x, (list, tuple)):
        return b"l" + b"".join(benc(y) for y in x) + b"e"
    if isinstance(x, dict):
        items = sorted((k.encode() if isinstance(k, str) else k, v) for k, v in x.items())
        return b"d" + b"".join(benc(k) + benc(v) for k, v in items) + b"e"
    raise TypeError(x)


def H(b: bytes) -> str:
    return hashlib.sha512(b).hexdigest()[:40]


def call_pre(task_hash, args_hash, result_hash, children) -> bytes:
    return benc(["CallNode", task_hash, args_hash, result_hash, sorted(children)])


def call_hash(task_hash, args_hash, result_hash, children) -> str:
    return H(call_pre(task_hash, args_hash, result_hash, children))


def args_hash_of(value_hashes, kw_hashes) -> str:
    return H(benc(["TaskArguments", list(value_hashes), dict(kw_hashes)]))


def tag_hash(entity_id, key, value_json_text, parents) -> str:
    return H(benc(["Tag", entity_id, key, value_json_text, sorted(parents)]))


# ------------------------------------------------------------------ observation
class JobObs:
    """What the harness saw of one Job."""

    def __init__(self, job, n):
        self.n = n
        self.id = job.id
        self.parent = job.parent_job.id if job.parent_job else None
        self.exec_id = job.execution.id
        self.task_hash = job.task.hash
        self.task_name = job.task.fullname
        self.task_tags = list(job.task.get_task_option("tags") or [])
        self.prov = None
        self.opt_tags = []
        self.spec = None
        self.args_hash = None         # recomputed by the harness from the evaluated arguments
        self.collapsed_into = None    # job id of the pending twin
        self.cache_hash = None        # call hash handed out by the cache (CSE / shallow hit)
        self.body_expr = None         # 'apply_tags' when the evaluated body returned an apply_tags expression
        self.done = 0
        self.fin = None               # 'resolve' | 'reject'
        self.fin_index = None
        self.known_at_entry = None    # job.call_hash when the finishing handler was entered
        self.children_at_fin = None   # ids in job.child_jobs when the finishing handler was entered
        self.was_cached = None
        self.result_hash = None       # harness: type_registry.get_hash(result) (success only)
        self.error = None             # (type name, str) for failures
        self.impl_call_hash = None    # job.call_hash after the finishing handler
        self.crash = None
        self.adopt_logged = False


class Observer:
    def __init__(self, s, tr):
        self.s, self.tr = s, tr
        self.jobs: dict[str, JobObs] = {}
        self.order: list[str] = []
        self.fin_order: list[str] = []
        self.events = []               # model events in order: start / submit / adopt / finish / died
        self.exec_crash = None         # (job id, exception type, message) if _exec_job_main_thread itself raised
        self.install()

    def obs(self, job):
        if job.id not in self.jobs:
            self.jobs[job.id] = JobObs(job, len(self.order))
            self.order.append(job.id)
        return self.jobs[job.id]

    def install(self):
        s, O = self.s, self
        reg = s.type_registry

        orig_exec_main = s._exec_job_main_thread

        def _exec_main(job, eval_args):
            first = job.id not in O.jobs
            o = O.obs(job)
            if first:
                try:
                    o.prov = bool(job.recording_provenance())
                except Exception:
                    o.prov = True
                O.events.append(("start", job.id))
            nsub = O.tr.ex.nsubmits.get(job.id, 0)
            try:
                return orig_exec_main(job, eval_args)
            except BaseException as e:  # noqa
                # the scheduler itself failed while starting this job (nothing was recorded for it)
                O.exec_crash = (job.id, type(e).__name__, str(e)[:200])
                if first and O.events and O.events[-1] == ("start", job.id):
                    O.events.pop()
                raise
            finally:
                if O.tr.ex.nsubmits.get(job.id, 0) > nsub:
                    from redun.scheduler import CacheScope
                    scope = CacheScope(job.get_options().get("cache_scope", CacheScope.BACKEND))
                    O.events.append(("submit", job.id, scope == CacheScope.NONE))
                o.prov = bool(job.recording_provenance())
                o.opt_tags = list(job.get_option("tags", []) or [])
                if job.args is not None and o.args_hash is None:
                    a, kw = job.args
                    o.spec = a[0] if a else None
                    o.args_hash = args_hash_of([reg.get_hash(x) for x in a], {k: reg.get_hash(v) for k, v in kw.items()})
        s._exec_job_main_thread = _exec_main

        orig_check = s._check_pending_job

        def _check(job):
            r = orig_check(job)
            if r is not None:
                O.obs(job).collapsed_into = r.id
            return r
        s._check_pending_job = _check

        orig_get_cache = s._get_cache

        def _get_cache(job):
            res, cached, ch = orig_get_cache(job)
            if cached and ch:
                O.obs(job).cache_hash = ch
                O.events.append(("adopt", job.id, ("cache", ch)))
                O.obs(job).adopt_logged = True
            return res, cached, ch
        s._get_cache = _get_cache

        orig_done_main = s._done_job_main_thread

        def _done_main(job, result, job_tags=[]):
            o = O.obs(job)
            o.done += 1
            o.body_expr = getattr(result, "task_name", None) if hasattr(result, "task_name") else None
            return orig_done_main(job, result, job_tags=job_tags)
        s._done_job_main_thread = _done_main

        def fin(kind, orig):
            def handler(job, x, *a, **kw):
                if job is None:
                    return orig(job, x, *a, **kw)
                o = O.obs(job)
                o.fin = kind
                o.fin_index = len(O.fin_order)
                O.fin_order.append(job.id)
                o.known_at_entry = job.call_hash
                # which children already carry a call hash (finished, or replayed from the cache / a twin)
                o.children_at_fin = [(c.id, c.call_hash) for c in job.child_jobs]
                o.was_cached = bool(job.was_cached)
                if kind == "resolve":
                    o.result_hash = reg.get_hash(x)
                    o.result_repr = repr(x)
                else:
                    o.error = (type(x).__name__, str(x))
                # model events: a collapsed job carries its twin's hash from the moment the twin settled
                if o.collapsed_into and job.call_hash and not o.adopt_logged:
                    O.events.append(("adopt", job.id, ("twin", o.collapsed_into)))
                    o.adopt_logged = True
                # the call tree as the harness saw it: every job created under this one (a collapsed job counts as
                # the twin it was collapsed into), against what the scheduler lists in job.child_jobs
                from collections import Counter
                exp = Counter((t.collapsed_into or t.id) for t in O.jobs.values() if t.parent == job.id)
                act = Counter(c.id for c in job.child_jobs if c.id in O.jobs)
                o.children_expected, o.children_listed = dict(exp), dict(act)
                model_children = [c.id for c in job.child_jobs]
                if exp != act:
                    model_children = [(t.collapsed_into or t.id) for t in O.jobs.values() if t.parent == job.id]
                fin_ev = {"job": job.id, "ok": kind == "resolve", "cached": bool(job.was_cached),
                          "children": model_children,
                          "vtags": [(vh, list(ts)) for vh, ts in job.value_tags],
                          "jtags": list(job.get_option("tags", []) or []) + list(job.job_tags) + list(kw.get("job_tags", []) or []),
                          "etags": list(job.execution_tags), "result": o.result_hash}
                O.events.append(("finish", fin_ev))
                err_hashes = []
                orig_rv = s.backend.record_value

                def record_value(value, data=None):
                    h = orig_rv(value, data) if data is not None else orig_rv(value)
                    if type(value).__name__ == "ErrorValue":
                        err_hashes.append(h)
                    return h
                if kind == "reject":
                    s.backend.record_value = record_value
                try:
                    return orig(job, x, *a, **kw)
                except BaseException as e:  # noqa
                    o.crash = (type(e).__name__, str(e)[:300])
                    O.events.append(("died", job.id))
                    raise
                finally:
                    if kind == "reject":
                        s.backend.record_value = orig_rv
                        fin_ev["result"] = err_hashes[-1] if err_hashes else None
                    o.impl_call_hash = job.call_hash
                    # twins of this job adopt its hash when it settles (promise callbacks run inside job.resolve/reject)
                    for t in O.jobs.values():
                        if t.collapsed_into == job.id and not t.adopt_logged and not o.crash:
                            O.events.append(("adopt", t.id, ("twin", job.id)))
                            t.adopt_logged = True
            return handler
        s._resolve_job_main_thread = fin("resolve", s._resolve_job_main_thread)
        s._reject_job_main_thread = fin("reject", s._reject_job_main_thread)

        # apply_tags: observe which parent job each evaluated apply_tags belongs to, by wrapping the
        # backend's record_value only during... (not needed: expectations are derived from the spec)


def run20(spec, rng: random.Random, db_path, tags=(), cache=True, complete_prob=0.3, chooser=None, context=None):
    """One execution of vm_c20.call(spec) on the sqlite file db_path. Returns dict(result|error|deadlock|crash, obs)."""
    from redun import Scheduler
    from redun.config import Config
    from harness.progs import vm_c20
    cfg = {"backend": {"db_uri": f"sqlite:///{db_path}"}}
    ex = sched.ControlledExecutor()
    s = Scheduler(config=Config(cfg), executor=ex)
    s.load()
    s.logger.disabled = True
    tr = sched.Tracer(s, ex, rng, [], complete_prob=complete_prob, chooser=chooser)
    ob = Observer(s, tr)
    out = {"tracer": tr, "scheduler": s, "obs": ob, "spec": spec, "exec_tags": list(tags)}
    try:
        out["result"] = s.run(vm_c20.call(spec), cache=cache, tags=list(tags), context=context or {})
    except sched.Deadlock as e:
        out["deadlock"] = str(e)
    except Exception as e:  # noqa
        out["error"] = (type(e).__name__, str(e)[:300])
    out["exec_id"] = next((o.exec_id for o in ob.jobs.values()), None)
    try:
        s.backend.session.close()
        s.backend.engine.dispose()
    except Exception:
        pass
    return out


# ------------------------------------------------------------------ database dump (plain sqlite3)
def dump_db(db_path):
    con = sqlite3.connect(db_path)
    con.row_factory = sqlite3.Row
    q = lambda sql: [dict(r) for r in con.execute(sql)]
    d = {
        "call_node": q("select call_hash, task_name, task_hash, args_hash, value_hash from call_node"),
        "call_edge": q("select parent_id, child_id, call_order from call_edge"),
        "job": q("select id, task_hash, cached, call_hash, parent_id, execution_id, start_time, end_time from job"),
        "execution": q("select id, job_id from execution"),
        "value": q("select value_hash, type, format, value from value"),
        "subvalue": q("select value_hash, parent_value_hash from subvalue"),
        "argument": q("select arg_hash, call_hash, value_hash, arg_position, arg_key from argument"),
        "tag": q("select tag_hash, entity_type, entity_id, key, value, is_current from tag"),
        "tag_edit": q("select parent_id, child_id from tag_edit"),
        "task": q("select hash, name, namespace from task"),
        "call_subtree_task": q("select call_hash, task_hash from call_subtree_task"),
    }
    con.close()
    return d


# ------------------------------------------------------------------ the oracle
class Bad(Exception):
    pass


def check_db(runs, db, type_registry=None, strict_values=True):
    """Decide C20 on the final database of `runs` (executions on one sqlite file, in order).
    Returns list of (key, what)."""
    bad = []
    add = lambda k, w: bad.append((k, w))
    nodes = {r["call_hash"]: r for r in db["call_node"]}
    jobs = {r["id"]: r for r in db["job"]}
    values = {r["value_hash"]: r for r in db["value"]}
    execs = {r["id"]: r for r in db["execution"]}
    edges = {}
    for e in db["call_edge"]:
        edges.setdefault(e["parent_id"], []).append((e["call_order"], e["child_id"]))
    allobs = {}
    for run in runs:
        allobs.update(run["obs"].jobs)

    # ---- A. expected hashes, in finishing order; errors take their value hash from the row they name
    E, kids, problems, claims = {}, {}, [], []
    explains = {}            # call hash -> list of (job id, children [(cid, hash)], recorded_hint)
    for run in runs:
        ob = run["obs"]
        for jid in ob.fin_order:
            o = ob.jobs[jid]
            if o.crash:
                kind = ("tags:same-pair-twice-in-one-job" if o.crash[0] == "IntegrityError" and "tag.tag_hash" in o.crash[1]
                        else o.crash[0])
                add(f"crash:{kind}", f"the {o.fin} handler of job {o.n} ({o.task_name}) raised {o.crash}")
            if getattr(o, "children_expected", None) != getattr(o, "children_listed", None):
                exp_n = sum(o.children_expected.values())
                act_n = sum(o.children_listed.values())
                add("children:list-differs-from-call-tree",
                    f"job {o.n} ({o.task_name}) made {exp_n} child calls, but its CallNode is hashed over / gets edges for "
                    f"{act_n} of them (job.child_jobs lost or gained an entry: "
                    f"{ {allobs[k].n: v for k, v in o.children_expected.items()} } vs { {allobs[k].n: v for k, v in o.children_listed.items()} })")
            if o.fin == "resolve" and o.known_at_entry:
                h = o.known_at_entry
                E[jid] = h
                src = o.cache_hash or (allobs[o.collapsed_into].id if o.collapsed_into else None)
                if o.collapsed_into and E.get(o.collapsed_into) != h:
                    add("twin:hash-differs", f"collapsed job {o.n} adopted {h[:8]}, its twin finished with "
                                             f"{str(E.get(o.collapsed_into))[:8]}")
                if src is None:
                    add("replay:unknown-source", f"job {o.n} had a call hash before finishing but neither cache nor twin gave it")
                if o.prov:
                    n = nodes.get(h)
                    if n is None:
                        add("replay:node-missing", f"replayed job {o.n} points to call node {h[:8]} that is not recorded")
                    else:
                        if (n["task_hash"], n["args_hash"]) != (o.task_hash, o.args_hash):
                            add("replay:other-call", f"replayed job {o.n} adopted the node of another call")
                        if n["value_hash"] != o.result_hash:
                            # the replayed value is the deserialised record: if re-hashing the recorded row gives the
                            # hash of what the job returned, this is the value-key defect (pickle identity), not a
                            # wrong node
                            same = False
                            v = values.get(n["value_hash"])
                            if v is not None and type_registry is not None:
                                try:
                                    back = type_registry.deserialize(v["type"], v["value"])
                                    same = (type_registry.get_hash(back) == o.result_hash
                                            or repr(back) == getattr(o, "result_repr", None))
                                except Exception:
                                    same = False
                            if same:
                                add("value:key:pickle-identity-sharing",
                                    f"replayed job {o.n} returned the deserialised result of node {h[:8]}, which hashes to "
                                    f"{o.result_hash[:8]} instead of its key {n['value_hash'][:8]}")
                            else:
                                add("replay:other-result", f"replayed job {o.n} returned a value that is not the node's result")
                continue
            ch = []
            for cid, hc in o.children_at_fin:
                if E.get(cid):
                    ch.append((cid, E[cid]))       # finished child: the harness's own hash
                    if hc != E[cid]:
                        add("child:hash", f"job {o.n}: finished child {allobs[cid].n} carries {str(hc)[:8]}, expected {E[cid][:8]}")
                elif hc:
                    # not finished yet but already replayed from the cache or from a finished twin:
                    # the claim is checked when the child finishes (or against the recorded nodes)
                    ch.append((cid, hc))
                    claims.append((cid, hc, o.n))
            kids[jid] = ch
            if o.args_hash is None:
                add("observer:no-args", f"job {o.n} finished without evaluated arguments")
                continue
            if o.fin == "resolve":
                h = call_hash(o.task_hash, o.args_hash, o.result_hash, [x for _, x in ch])
                E[jid] = h
                if o.impl_call_hash != h:
                    add("hash:job", f"job {o.n} ({'prov' if o.prov else 'no prov'}) got call hash {str(o.impl_call_hash)[:8]}, "
                                    f"the hash of its task, arguments, result and {len(ch)} finished children is {h[:8]}")
                if o.prov:
                    explains.setdefault(h, []).append((jid, ch))
            else:
                if not o.prov:
                    if o.impl_call_hash and not o.known_at_entry:
                        add("noprov:failed-has-hash", f"failed job {o.n} without provenance has a call hash")
                    continue
                h = o.impl_call_hash
                if o.known_at_entry and h != o.known_at_entry:
                    # the job is a replay (collapsed duplicate / CSE hit) of a failed call whose node is recorded,
                    # yet a second node (with the replay's own, empty, child list) is recorded for it
                    add("twin:failed-duplicate-rerecorded",
                        f"failed job {o.n} replays call node {o.known_at_entry[:8]} of the same call but is recorded as "
                        f"another node {str(h)[:8]} with {len(ch)} children")
                n = nodes.get(h) if h else None
                if n is None:
                    add("failed:node-missing", f"failed job {o.n} has no recorded call node ({str(h)[:8]})")
                    continue
                if o.known_at_entry and h == o.known_at_entry:
                    # a failed replay that adopted the recorded node of the same call
                    E[jid] = h
                    if (n["task_hash"], n["args_hash"]) != (o.task_hash, o.args_hash):
                        add("replay:other-call", f"failed replayed job {o.n} adopted the node of another call")
                    v = values.get(n["value_hash"])
                    if v is None or v["type"] != "redun.ErrorValue":
                        add("failed:result-not-error", f"failed job {o.n}: result value of its node is not an ErrorValue row")
                    continue
                want = call_hash(o.task_hash, o.args_hash, n["value_hash"], [x for _, x in ch])
                if want != h or (n["task_hash"], n["args_hash"]) != (o.task_hash, o.args_hash):
                    add("hash:failed-job", f"failed job {o.n}: node {h[:8]} is not the hash of its task, arguments, error value "
                                           f"and {len(ch)} finished children ({want[:8]})")
                v = values.get(n["value_hash"])
                if v is None or v["type"] != "redun.ErrorValue":
                    add("failed:result-not-error", f"failed job {o.n}: result value of its node is not an ErrorValue row")
                E[jid] = h
                explains.setdefault(h, []).append((jid, ch))

    for run in runs:
        xc = run["obs"].exec_crash
        if xc:
            o = allobs[xc[0]]
            par = allobs.get(o.parent)
            if xc[1] == "ValueError" and "is not in list" in xc[2] and par is not None and par.fin is not None:
                add("crash:collapse-after-parent-settled",
                    f"job {o.n} ({o.task_name}) became ready after its parent job {par.n} had already {par.fin}ed (child list "
                    f"cleared) while an equivalent job was pending: Job.collapse raised {xc[1]}: {xc[2][:80]} and the whole "
                    f"execution died with that internal error")
            else:
                add(f"crash:exec:{xc[1]}", f"_exec_job_main_thread of job {o.n} ({o.task_name}) raised {xc[1]}: {xc[2]}")

    for cid, hc, pn in claims:
        if E.get(cid, hc) != hc:
            add("child:claim", f"job {pn} used {hc[:8]} for its replayed child {allobs[cid].n}, which finished with {E[cid][:8]}")
        elif cid not in E and allobs[cid].prov and hc not in nodes:
            add("child:claim-unrecorded", f"job {pn} used {hc[:8]} for its replayed child {allobs[cid].n}: no such node")

    # ---- B. jobs: rows mirror the observed job tree
    for run in runs:
        ob = run["obs"]
        roots = [o for o in ob.jobs.values() if o.parent is None]
        for o in ob.jobs.values():
            row = jobs.get(o.id)
            if not o.prov:
                if row is not None:
                    add("noprov:job-row", f"job {o.n} ran without provenance but has a Job row")
                continue
            if o.fin is None or o.crash:
                continue
            if row is None:
                add("job:missing", f"finished job {o.n} ({o.task_name}) has no Job row")
                continue
            if row["parent_id"] != o.parent:
                add("job:parent", f"Job row of job {o.n} has parent {row['parent_id']}, the job was created under {o.parent}")
            if row["execution_id"] != o.exec_id:
                add("job:execution", f"Job row of job {o.n} belongs to another execution")
            if row["task_hash"] != o.task_hash:
                add("job:task", f"Job row of job {o.n} names another task")
            if row["call_hash"] != E.get(o.id):
                add("job:call_hash", f"Job row of job {o.n} has call hash {str(row['call_hash'])[:8]}, expected {str(E.get(o.id))[:8]}")
            if bool(row["cached"]) != bool(o.was_cached):
                add("job:cached", f"Job row of job {o.n}: cached={row['cached']}, job.was_cached={o.was_cached}")
            if row["end_time"] is None:
                add("job:no-end", f"finished job {o.n} has no end time")
            if o.parent is not None and allobs[o.parent].prov and o.parent not in jobs:
                add("job:parent-missing", f"parent of job {o.n} has no Job row")
        if len(roots) == 1 and roots[0].prov and roots[0].fin:
            er = execs.get(run["exec_id"])
            if er is None or er["job_id"] != roots[0].id:
                add("execution:root", f"execution {run['exec_id'][:8]} names root job {er and er['job_id']}, the root job is {roots[0].id}")
    for jid, row in jobs.items():
        if jid not in allobs:
            add("job:unexplained", f"Job row {jid[:8]} belongs to no observed job")
        if row["call_hash"] is not None and row["call_hash"] not in nodes:
            add("job:dangling-call", f"Job row {jid[:8]} names a call node that is not recorded")
    for eid, row in execs.items():
        if row["job_id"] is not None and row["job_id"] not in jobs:
            add("execution:dangling-job", f"execution {eid[:8]} names a job that is not recorded")

    # ---- C. every call node in the database: Merkle hash + edges
    for h, n in nodes.items():
        ed = sorted(edges.get(h, []))
        for _, c in ed:
            if c not in nodes:
                add("edge:dangling", f"call node {h[:8]} has an edge to an unrecorded node")
        exps = explains.get(h)
        if not exps:
            add("node:unexplained", f"call node {h[:8]} ({n['task_name']}) was produced by no finished provenance job")
            # still check the pure database Merkle equation
            if call_hash(n["task_hash"], n["args_hash"], n["value_hash"], [c for _, c in ed]) != h:
                add("node:hash", f"call node {h[:8]} is not the hash of its row and edges")
            continue
        ok = False
        why = ""
        for jid, ch in exps:
            hs = [x for _, x in ch]
            if call_hash(n["task_hash"], n["args_hash"], n["value_hash"], hs) != h:
                why = "hash"
                continue
            must = {(i, x) for i, (cid, x) in enumerate(ch) if allobs[cid].prov}
            may = {(i, x) for i, (cid, x) in enumerate(ch) if x in nodes}
            if must <= set(ed) <= may:
                ok = True
                break
            why = f"edges {[(i, c[:6]) for i, c in ed]} vs finished children {[(i, x[:6], allobs[cid].prov) for i, (cid, x) in enumerate(ch)]}"
        if not ok:
            add("node:hash" if why == "hash" else "node:edges",
                f"call node {h[:8]} ({n['task_name']}) does not mirror the job that recorded it: {why}")
    for p in edges:
        if p not in nodes:
            add("edge:dangling-parent", f"edge from unrecorded node {p[:8]}")

    # ---- D. values: key == hash of the deserialised value; referenced values exist; subvalues
    for n in nodes.values():
        if n["value_hash"] not in values:
            add("value:missing-result", f"result value of call node {n['call_hash'][:8]} is not recorded")
    for a in db["argument"]:
        if a["value_hash"] not in values:
            add("value:missing-arg", f"argument value of call node {a['call_hash'][:8]} is not recorded")
    byc = {}
    for a in db["argument"]:
        byc.setdefault(a["call_hash"], []).append(a)
    for h, n in nodes.items():
        al = byc.get(h, [])
        pos = sorted((a["arg_position"], a["value_hash"]) for a in al if a["arg_position"] is not None)
        kw = {a["arg_key"]: a["value_hash"] for a in al if a["arg_position"] is None}
        if [p for p, _ in pos] != list(range(len(pos))):
            add("args:positions", f"argument rows of {h[:8]} are not positions 0..n-1")
        elif args_hash_of([v for _, v in pos], kw) != n["args_hash"]:
            add("args:hash", f"args_hash of call node {h[:8]} is not the hash of its recorded argument values")
    if type_registry is not None:
        for vh, v in values.items():
            if v["type"] == "redun.ErrorValue" and not strict_values:
                continue
            try:
                val = type_registry.deserialize(v["type"], v["value"])
                got = type_registry.get_hash(val)
            except Exception as e:  # noqa
                add(f"value:undeserialisable:{v['type']}", f"value {vh[:8]} of type {v['type']} does not deserialise: {type(e).__name__}")
                continue
            if got != vh:
                # pickle memoises by object identity: equal-but-distinct strings are written twice, after a round
                # trip they are one object (interned) and the second becomes a back-reference
                again = type_registry.deserialize(v["type"], type_registry.serialize(val))
                if v["type"] != "redun.ErrorValue" and repr(again) == repr(val) and type_registry.get_hash(again) == got:
                    add("value:key:pickle-identity-sharing",
                        f"value row {vh[:8]} ({v['type']}) deserialises to an equal value with hash {got[:8]}: {repr(val)[:120]}")
                else:
                    add(f"value:key:{v['type']}", f"value row {vh[:8]} ({v['type']}) deserialises to a value with hash {got[:8]}")
        for sv in db["subvalue"]:
            if sv["value_hash"] not in values or sv["parent_value_hash"] not in values:
                add("subvalue:dangling", f"subvalue link {sv['value_hash'][:8]} -> {sv['parent_value_hash'][:8]} names an unrecorded value")
                continue
            pv = values[sv["parent_value_hash"]]
            try:
                val = type_registry.deserialize(pv["type"], pv["value"])
                subs = {type_registry.get_hash(x) for x in type_registry.get_value(val).iter_subvalues()}
            except Exception:
                continue
            if sv["value_hash"] not in subs:
                add("subvalue:not-a-part", f"subvalue link {sv['value_hash'][:8]} is not a part of value {sv['parent_value_hash'][:8]}")

    # ---- E. tags
    bad += check_tags(runs, db, E, allobs, values, type_registry)
    return bad


def spec_tag_sources(o, type_registry):
    """Tags the body of this job applies when it is evaluated: (value tags [(value_hash, k, v)], job tags, execution tags)."""
    from harness.progs import vm_c20
    sp = o.spec
    if o.task_name not in ("rvvm20.node", "rvvm20.tnode", "rvvm20.snode"):
        return None            # recover(error) / ident(spec) take other things as their argument
    if not isinstance(sp, tuple) or len(sp) < 4 or sp[1] not in ("tagv", "tagc"):
        return None
    d = dict(sp[2])
    return d


def jtxt(v):
    return json.dumps(v, separators=(",", ":"), sort_keys=True)


def check_tags(runs, db, E, allobs, values, type_registry):
    bad = []
    add = lambda k, w: bad.append((k, w))
    from harness.progs import vm_c20
    rows = {}
    for t in db["tag"]:
        rows.setdefault((t["entity_type"], t["entity_id"], t["key"], jtxt(json.loads(t["value"]))), []).append(t)
        if tag_hash(t["entity_id"], t["key"], jtxt(json.loads(t["value"])), []) != t["tag_hash"]:
            # value JSON text as redun's json_dumps writes it (sort_keys) -- parents are empty for run-time tags
            add("tag:hash", f"tag {t['key']}={t['value']} on {t['entity_type']} {t['entity_id'][:8]}: tag_hash is not the hash of (entity, key, value, no parents)")
        if not t["is_current"]:
            add("tag:not-current", f"run-time tag {t['key']}={t['value']} on {t['entity_type']} {t['entity_id'][:8]} is not current")
    if db["tag_edit"]:
        add("tag:edits", "tag edits recorded by a run")
    must, may = set(), set()
    for run in runs:
        for k, v in run["exec_tags"]:
            must.add(("Execution", run["exec_id"], k, jtxt(v)))
        for o in run["obs"].jobs.values():
            if not o.prov or o.fin is None:
                continue
            sure = must if not o.crash else may
            for k, v in o.task_tags:
                sure.add(("Task", o.task_hash, k, jtxt(v)))
            for k, v in o.opt_tags:
                sure.add(("Job", o.id, k, jtxt(v)))
            d = spec_tag_sources(o, type_registry)
            if d is None:
                continue
            src = set()
            if d.get("tags"):
                if o.spec[1] == "tagv":
                    vh = type_registry.get_hash(vm_c20.build_value(d["value"]))
                else:
                    # value of the child call: only known when the job resolved; it is the job's own result
                    vh = o.result_hash if o.fin == "resolve" else None
                if vh:
                    for k, v in d["tags"]:
                        src.add(("Value", vh, k, jtxt(v)))
                    if vh not in values:
                        add("tag:value-missing", f"tagged value {vh[:8]} of job {o.n} is not recorded")
            for k, v in d.get("job_tags", ()):
                src.add(("Job", o.id, k, jtxt(v)))
            for k, v in d.get("execution_tags", ()):
                src.add(("Execution", o.exec_id, k, jtxt(v)))
            evaluated = o.body_expr == "redun.apply_tags"
            if evaluated and not o.crash and (o.fin == "resolve" or o.spec[1] == "tagv"):
                must |= src
            if evaluated:
                may |= src
    may |= must
    for key in must:
        if key not in rows:
            add(f"tag:missing:{key[0]}", f"tag {key[2]}={key[3]} was applied to {key[0]} {key[1][:8]} during the run but is not recorded")
    for key, rs in rows.items():
        if key[0] == "CallNode" and key[2] == "redun.context":
            if key[1] not in {n["call_hash"] for n in db["call_node"]}:
                add("tag:context", f"context tag on call node {key[1][:8]} names an unrecorded node")
            continue
        if key not in may:
            add(f"tag:unintended:{key[0]}", f"tag {key[2]}={key[3]} is recorded on {key[0]} {key[1][:8]}, which nothing in the run applied")
        if len(rs) > 1:
            add("tag:duplicate", f"tag {key[2]}={key[3]} on {key[0]} {key[1][:8]} recorded {len(rs)} times")
    return bad


# ------------------------------------------------------------------ generator
TAGPOOL = [("env", "prod"), ("env", "dev"), ("n", 1), ("n", 2), ("cost", 3.5), ("flag", True), ("who", None),
           ("l", [1, "a"]), ("tier", "gold")]
VALPOOL = [3, "s", ("L", (1, 2)), ("L", (("F", "/nonexistent/rv_a"), 7)), ("D", (("a", 1), ("f", ("F", "/nonexistent/rv_b")))),
           ("L", (("L", (("F", "/nonexistent/rv_a"),)), "x")), ("F", "/nonexistent/rv_c")]


def gen_spec20(rng: random.Random, depth=3, pool=None, counter=None, p_noprov=0.08, p_tags=0.3):
    """Structured random programs: twins (same spec under several parents), failures, catch/seq, cache scopes,
    prov=False subtrees, apply_tags on values / call results / job / execution, job- and task-level tags,
    structured values with subvalues, shallow-validity tasks."""
    pool = pool if pool is not None else []
    counter = counter if counter is not None else [0]

    def tags(n=2):
        return tuple(rng.sample(TAGPOOL, rng.randint(1, n)))

    def opts():
        o = {}
        r = rng.random()
        if r < 0.08:
            o["cache_scope"] = rng.choice(["NONE", "CSE"])
        if rng.random() < p_noprov:
            o["prov"] = False
        if rng.random() < p_tags * 0.5:
            o["tags"] = tags()
        r = rng.random()
        if r < 0.12:
            o["task"] = "tnode"
        elif r < 0.2:
            o["task"] = "snode"
        if rng.random() < 0.06:
            o["context"] = {"k": rng.choice([1, 2])}
        return o or None

    def tagpayload(with_value):
        d = {}
        if with_value:
            d["value"] = rng.choice(VALPOOL)
        which = rng.sample(["tags", "job_tags", "execution_tags"], rng.randint(1, 3))
        for w in which:
            d[w] = tags()
        return tuple(sorted(d.items()))

    def leaf():
        if pool and rng.random() < 0.4:
            return rng.choice(pool)
        counter[0] += 1
        r = rng.random()
        if r < 0.15:
            s = (f"f{counter[0]}", "raise", f"boom{rng.randint(0, 1)}", (), opts())
        elif r < 0.3:
            s = (f"v{counter[0]}", "val", rng.choice(VALPOOL), (), opts())
        elif r < 0.3 + p_tags * 0.6:
            s = (f"t{counter[0]}", "tagv", tagpayload(True), (), opts())
        elif r < 0.55:
            s = (f"x{counter[0] % 2}", "ctx", counter[0] % 2, (), opts())
        else:
            s = (f"l{counter[0]}", "leaf", rng.randint(0, 3), (), opts())
        pool.append(s)
        return s

    def rec(d):
        if d <= 0 or rng.random() < 0.25:
            return leaf()
        counter[0] += 1
        k = rng.random()
        n = rng.choice([1, 2, 2, 3, 4])
        children = tuple(rec(d - 1) for _ in range(n))
        if rng.random() < 0.3:
            # the same call once more under the SAME parent, through a different expression (its argument is computed
            # by ident(...)): not merged as an expression, collapsed into the first one when that is still pending
            c = rng.choice(children)
            o = dict(c[4] or {})
            o["via"] = True
            children = children + (c[:4] + (o,),)
        if k < 0.55:
            s = (f"n{counter[0]}", "list", rng.randint(0, 1), children, opts())
        elif k < 0.7:
            s = (f"c{counter[0]}", "catch", 0, children[:1], opts())
        elif k < 0.82:
            s = (f"s{counter[0]}", "seq", 0, children, opts())
        else:
            s = (f"g{counter[0]}", "tagc", tagpayload(False), children[:1], opts())
        if rng.random() < 0.35:
            pool.append(s)
        return s

    return rec(depth)


def spec_size(spec):
    return 1 + sum(spec_size(c) for c in spec[3])


# ------------------------------------------------------------------ model case (Coq term) for one database
def cq_h(h) -> str:
    return "(bs [" + ";".join(str(x) for x in h.encode()) + "]%N)"


def cq_b(b: bytes) -> str:
    return "(bs [" + ";".join(str(x) for x in b) + "]%N)"


def cq_l(items) -> str:
    return "[" + "; ".join(items) + "]"


def cq_on(x) -> str:
    return "None" if x is None else f"(Some {x}%nat)"


def model_case(runs, db, cfg_name="gen_cfg"):
    """The Coq bool `db_agrees tbl cfg events <tables of the dump> dead`.
    Returns (term, stats). Ids are interned; hashes stay the real hex strings."""
    jid, eid, tid = {}, {}, {}
    J = lambda x: jid.setdefault(x, len(jid))
    EX = lambda x: eid.setdefault(x, len(eid))
    T = lambda k, v: tid.setdefault((k, jtxt(v)), len(tid))
    evs, table = [], {}
    dead = False
    skip_tags = set()
    for ri, run in enumerate(runs):
        if ri:
            evs.append("ENewRun")
        dead = False
        ob = run["obs"]
        if run["exec_id"]:
            for k, v in run["exec_tags"]:
                skip_tags.add(("Execution", run["exec_id"], k, jtxt(v)))
        for e in ob.events:
            if e[0] == "start":
                o = ob.jobs[e[1]]
                tt = cq_l([f"{T(k, v)}%nat" for k, v in o.task_tags])
                evs.append(f"EStart {{| ji_id := {J(o.id)}%nat; ji_parent := {cq_on(J(o.parent) if o.parent else None)}; "
                           f"ji_exec := {EX(o.exec_id)}%nat; ji_task := {cq_h(o.task_hash)}; ji_prov := {'true' if o.prov else 'false'}; "
                           f"ji_task_tags := {tt} |}}")
            elif e[0] == "submit":
                evs.append(f"ESubmit {J(e[1])}%nat {'true' if e[2] else 'false'}")
            elif e[0] == "adopt":
                kind, x = e[2]
                evs.append(f"EAdopt {J(e[1])}%nat " + (f"(ACache {cq_h(x)})" if kind == "cache" else f"(ATwin {J(x)}%nat)"))
            elif e[0] == "died":
                dead = True
            elif e[0] == "finish":
                f = e[1]
                o = ob.jobs[f["job"]]
                res = f["result"] or ("0" * 40)
                vt = cq_l([f"({cq_h(vh)}, {cq_l([f'{T(k, v)}%nat' for k, v in ts])})" for vh, ts in f["vtags"]])
                jt = cq_l([f"{T(k, v)}%nat" for k, v in f["jtags"]])
                et = cq_l([f"{T(k, v)}%nat" for k, v in f["etags"]])
                evs.append(f"EFinish {J(f['job'])}%nat {'true' if f['ok'] else 'false'} {'true' if f['cached'] else 'false'} "
                           f"{cq_h(o.args_hash or '0' * 40)} {cq_h(res)} {cq_l([f'{J(c)}%nat' for c in f['children']])} {vt} {jt} {et}")
                # pre-image table: what the model will ask the hash function for
                if o.args_hash and (f["ok"] or o.prov):
                    ch = [hc for _, hc in o.children_at_fin if hc]
                    pre = call_pre(o.task_hash, o.args_hash, res, ch)
                    table[pre] = H(pre)
    tbl = cq_l([f"({cq_b(p)}, {cq_h(h)})" for p, h in table.items()])
    cn = cq_l([f"{{| cn_hash := {cq_h(n['call_hash'])}; cn_task := {cq_h(n['task_hash'])}; cn_args := {cq_h(n['args_hash'])}; "
               f"cn_value := {cq_h(n['value_hash'])} |}}" for n in db["call_node"]])
    ed = cq_l([f"({cq_h(e['parent_id'])}, {cq_h(e['child_id'])}, {e['call_order']}%nat)" for e in db["call_edge"]])
    jb = cq_l([f"{{| jr_id := {J(r['id'])}%nat; jr_parent := {cq_on(J(r['parent_id']) if r['parent_id'] else None)}; "
               f"jr_exec := {EX(r['execution_id'])}%nat; jr_task := {cq_h(r['task_hash'])}; "
               f"jr_call := {'None' if r['call_hash'] is None else '(Some ' + cq_h(r['call_hash']) + ')'}; "
               f"jr_cached := {'true' if r['cached'] else 'false'}; jr_ended := {'true' if r['end_time'] is not None else 'false'} |}}"
               for r in db["job"]])
    ex = cq_l([f"({EX(r['id'])}%nat, {J(r['job_id'])}%nat)" for r in db["execution"] if r["job_id"] is not None])
    tg = []
    for t in db["tag"]:
        key = (t["entity_type"], t["entity_id"], t["key"], jtxt(json.loads(t["value"])))
        if key in skip_tags or t["entity_type"] == "CallNode":
            continue
        ent = {"Value": lambda x: f"EntValue {cq_h(x)}", "Task": lambda x: f"EntTask {cq_h(x)}",
               "Job": lambda x: f"EntJob {J(x)}%nat", "Execution": lambda x: f"EntExec {EX(x)}%nat"}[t["entity_type"]](t["entity_id"])
        tg.append(f"({ent}, {T(t['key'], json.loads(t['value']))}%nat)")
    term = (f"db_agrees {tbl} {cfg_name} {cq_l(evs)} {cn} {ed} {jb} {ex} {cq_l(tg)} {'true' if dead else 'false'}")
    return term, {"events": len(evs), "nodes": len(db["call_node"]), "jobs": len(db["job"]), "tags": len(tg), "dead": dead}
