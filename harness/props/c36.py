"""C36 — Schema migrations preserve recorded data.

translate : translate/tr_alembic.py reads every alembic revision and the version table, emits
            Gen/C36Gen.v with the tie (gen_chain = chain <variant>) and the ORM-schema lemma.
correspond: for every historical version, real SQLite databases built by the real chain, populated
            with generated rows, upgraded by the real RedunBackendDb.migrate(); the same database as a
            Coq literal goes through Model.Migrate.upgrade; results compared table by table
            (rows as multisets, columns/types/nullability, indexes, revision, error kind).
oracle    : the property decided on the real code only (rows kept, shared columns equal, job times
            equal as instants, library accepts the result, cached workflow results are reused).
"""
from __future__ import annotations

import calendar
import contextlib
import datetime as dt
import hashlib
import json
import logging
import os
import pickle
import re
import shutil
import sqlite3
import time
from pathlib import Path

from harness.lib import CORPUS, GEN, VERIF, Finding, PropertyCheck, TranslateError, cq_list, run_bool_cases, scratch_dir
from translate import astutil, tr_alembic

PINS_FILE = VERIF / "translate" / "pins_C36.json"
UTC_REV = "3b0a6e67cc58"
EID_REV = "cd2d53191748"
K_FRACTION = "sqlite-utc-migration:job.start_time/end_time lose their fraction of a second"
STUB_ARGS = '"Stub Execution"'
PICKLE_MIME = "application/python-pickle"
TS_RE = re.compile(r"^(\d{4})-(\d\d)-(\d\d) (\d\d):(\d\d):(\d\d)(?:\.(\d{6}))?$")
UUID_RE = re.compile(r"^[0-9a-f]{8}-[0-9a-f]{4}-4[0-9a-f]{3}-[89ab][0-9a-f]{3}-[0-9a-f]{12}$")

# fixed-offset zones (the model's e_tz is s - offset); name -> seconds east of UTC
FIXED_ZONES = [("UTC", 0), ("Etc/GMT+8", -8 * 3600), ("Etc/GMT-5", 5 * 3600), ("Asia/Kolkata", 19800), ("Asia/Tokyo", 32400)]
DST_ZONES = ["America/Los_Angeles", "Europe/Berlin", "Australia/Sydney"]
MICROS = [0, 0, 1, 123456, 499999, 500000, 999499, 999501, 999999]


# ------------------------------------------------------------------ small helpers
@contextlib.contextmanager
def local_zone(tz: str):
    old = os.environ.get("TZ")
    os.environ["TZ"] = tz
    time.tzset()
    try:
        yield
    finally:
        if old is None:
            os.environ.pop("TZ", None)
        else:
            os.environ["TZ"] = old
        time.tzset()


def quiet():
    logging.getLogger("redun").setLevel(logging.CRITICAL)
    logging.getLogger("alembic").setLevel(logging.CRITICAL)


def all_versions():
    from redun.backends.db import REDUN_DB_VERSIONS
    return list(REDUN_DB_VERSIONS)


def open_backend(path):
    from redun.backends.db import RedunBackendDb
    b = RedunBackendDb(db_uri="sqlite:///" + str(path))
    return b


def close_backend(b):
    try:
        if b.session is not None:
            b.session.close()
    finally:
        if b.engine is not None:
            b.engine.dispose()


def q(s: str) -> str:
    if not all(32 <= ord(c) < 127 for c in s):
        raise ValueError(f"non-ASCII text in a correspondence case: {s!r}")
    return '"' + s.replace('"', '""') + '"'


def parse_ts(s):
    """'YYYY-MM-DD HH:MM:SS[.ffffff]' -> (seconds of the naive reading since 1970, microseconds) or None."""
    m = TS_RE.match(s) if isinstance(s, str) else None
    if not m:
        return None
    y, mo, d, h, mi, se = (int(x) for x in m.groups()[:6])
    try:
        secs = calendar.timegm((y, mo, d, h, mi, se, 0, 0, 0))
    except Exception:
        return None
    return secs, int(m.group(7) or 0)


def fmt_ts(secs, us):
    t = dt.datetime(1970, 1, 1) + dt.timedelta(seconds=secs)
    return t.strftime("%Y-%m-%d %H:%M:%S") + ".%06d" % us


# ------------------------------------------------------------------ real databases
class Templates:
    """One SQLite file per historical version, built by the real revision chain (index 0: no schema)."""

    def __init__(self, root: Path):
        self.root = root
        self.paths = {}

    def path(self, i: int) -> Path:
        if i not in self.paths:
            p = self.root / f"template_{i}.db"
            if i == 0:
                sqlite3.connect(p).close()
            else:
                quiet()
                b = open_backend(p)
                b.create_engine()
                b.migrate(all_versions()[i - 1])
                close_backend(b)
            self.paths[i] = p
        return self.paths[i]

    def fresh(self, i: int, name: str) -> Path:
        p = self.root / name
        shutil.copyfile(self.path(i), p)
        return p


def dump(path) -> dict:
    c = sqlite3.connect(path)
    out = {"tables": {}, "indexes": [], "rev": ""}
    names = [r[0] for r in c.execute("select name from sqlite_master where type='table' order by name")]
    for t in names:
        info = c.execute(f'pragma table_info("{t}")').fetchall()
        if t == "alembic_version":
            rows = c.execute("select version_num from alembic_version").fetchall()
            if len(rows) > 1:
                raise RuntimeError("several alembic heads")
            out["rev"] = rows[0][0] if rows else ""
            continue
        if t.startswith("sqlite_"):
            continue
        cols = [(r[1], r[2], bool(r[3])) for r in info]
        pk = [r[1] for r in sorted(info, key=lambda r: r[5]) if r[5] > 0]
        rows = c.execute(f'select * from "{t}" order by rowid').fetchall()
        out["tables"][t] = {"cols": cols, "pk": pk, "rows": [tuple(r) for r in rows]}
        for il in c.execute(f'pragma index_list("{t}")').fetchall():
            if il[3] != "c":
                continue
            icols = [r[2] for r in c.execute(f'pragma index_info("{il[1]}")').fetchall()]
            out["indexes"].append((il[1], t, icols, bool(il[2])))
    c.close()
    return out


def insert_rows(path, tables: dict):
    """tables: name -> list of dict rows. Foreign keys are not enforced while populating."""
    c = sqlite3.connect(path)
    for t, rows in tables.items():
        for r in rows:
            cols = list(r)
            c.execute(f'insert into "{t}" ({",".join(chr(34) + x + chr(34) for x in cols)}) values ({",".join("?" * len(cols))})',
                      [r[x] for x in cols])
    c.commit()
    c.close()


def real_upgrade(path, tz):
    """RedunBackendDb.load(migrate=True) under local zone tz. Returns None or the exception."""
    quiet()
    with local_zone(tz):
        b = open_backend(path)
        try:
            b.load(migrate=True)
            return None
        except Exception as e:  # noqa
            return e
        finally:
            close_backend(b)


# ------------------------------------------------------------------ generator of populated databases
NAMES = ["main", "task1", "_x", "Align2", "f", "script_task", "test_help", "test_gfetch", "step_3"]
NAMESPACES = ["", "", "ns", "a.b", "redun", "wf_1.sub"]
VALUE_TYPES = ["builtins.int", "builtins.str", "builtins.list", "redun.File", "redun.Dir", "redun.StagingFile",
               "redun.ShardedS3Dataset", "redun.Handle", "myapp.DbConn", "redun.File", "redun.Handle"]
FILE_TYPES = ("redun.File", "redun.Dir", "redun.StagingFile", "redun.ShardedS3Dataset")
HANDLE_TYPES = ("redun.Handle", "myapp.DbConn")
TASK_SUBTYPES = ["redun.PartialTask", "redun.task.SchedulerTask", "myapp.tasks.CustomTask"]
BAD_NAMES = [("my-task", "ns"), ("1st", ""), ("ok", "bad ns"), ("", "ns"), ("ok", ".lead"), ("a.b", "")]


class DbGen:
    def __init__(self, rng, cols: dict, ascii_only: bool):
        self.rng = rng
        self.cols = cols              # table -> [(name, type, notnull)]
        self.ascii = ascii_only
        self.n = 0
        self.modes = []               # labelling modes used for the job trees of a 2.3 database
        self.dangling = []            # classes of dangling references added (imperfect populations)
        self.task_kinds = []          # how each task was recorded (job-only / plain-value / subclass-value / value-only)

    def h(self):
        self.n += 1
        return hashlib.sha1(f"{self.rng.random()}:{self.n}".encode()).hexdigest()

    def ts(self, lo=2019, hi=2025):
        r = self.rng
        return "%04d-%02d-%02d %02d:%02d:%02d.%06d" % (r.randint(lo, hi), r.randint(1, 12), r.randint(1, 28), r.randint(0, 23),
                                                     r.randint(0, 59), r.randint(0, 59), r.choice(MICROS))

    def text(self):
        r = self.rng
        pool = ["", "x", "a b", "it's", 'say "hi"', "[1, 2]", "%s;--", "path/to/file.txt", "{}"]
        if not self.ascii:
            pool += ["é中\U0001f600", "tab\there", "new\nline", "nul-free \x7f"]
        return r.choice(pool)

    def blob(self):
        r = self.rng
        if self.ascii:
            return "".join(r.choice("abcXYZ019 .") for _ in range(r.randint(0, 8))).encode()
        return bytes(r.randrange(256) for _ in range(r.randint(0, 12)))

    def has(self, t, c=None):
        if t not in self.cols:
            return False
        return c is None or any(x[0] == c for x in self.cols[t])

    def notnull(self, t, c):
        return any(x[0] == c and x[2] for x in self.cols[t])

    def make(self, bad=None, imperfect=False):
        """Returns name -> list of dict rows (referentially consistent, a forest of jobs).
        bad: None | 'task' (an invalid lonely task name) | 'orphan' (a job whose parent is missing).
        imperfect: add rows that dangle on a declared (SQLite-unenforced-at-the-time) reference, each next to
        the consistent control rows: the states the non-atomic recording (C03/C22 findings) leaves behind."""
        r = self.rng
        T = {t: [] for t in self.cols}
        tasks = []
        for i in range(r.randint(1, 4)):
            th = self.h()
            tasks.append(th)
            T["task"].append({"hash": th, "name": r.choice(NAMES), "namespace": r.choice(NAMESPACES), "source": self.text()})
        if bad == "task":
            n, ns = r.choice(BAD_NAMES)
            th = self.h()
            tasks.append(th)
            T["task"].append({"hash": th, "name": n, "namespace": ns, "source": ""})
        # values of every kind of registered Value type that also owns rows elsewhere (file, handle, task)
        values, vtype = [], {}
        for i in range(r.randint(2, 6)):
            vh = self.h()
            values.append(vh)
            vtype[vh] = r.choice(VALUE_TYPES)
            T["value"].append({"value_hash": vh, "type": vtype[vh], "format": PICKLE_MIME, "value": self.blob()})
        # how each task was recorded: as the task of a job only (no value row: what the companion back-fill
        # repairs), also as a plain Task value, as a Task SUBCLASS value (same hash, other type), or as a value
        # only.  The first three tasks cover the first three kinds, so rows that already satisfy the back-fill's
        # post-condition sit next to rows that do not, at every start version.
        kinds = ["job-only", "plain-value", "subclass-value"]
        r.shuffle(kinds)
        for k, th in enumerate(tasks):
            kind = kinds[k] if k < 3 else r.choice(kinds)
            if bad == "task" and th == tasks[-1]:
                kind = "job-only"
            self.task_kinds.append(kind)
            if kind == "plain-value":
                T["value"].append({"value_hash": th, "type": "redun.Task", "format": PICKLE_MIME, "value": self.blob()})
            elif kind == "subclass-value":
                T["value"].append({"value_hash": th, "type": r.choice(TASK_SUBTYPES), "format": PICKLE_MIME, "value": self.blob()})
        if r.random() < 0.5:
            self.task_kinds.append("value-only")
            T["value"].append({"value_hash": self.h(), "type": r.choice(["redun.Task"] + TASK_SUBTYPES), "format": PICKLE_MIME,
                               "value": self.blob()})
        cns = []
        for i in range(r.randint(1, 4)):
            ch = self.h()
            cns.append(ch)
            ti = r.randrange(len(tasks))
            T["call_node"].append({"call_hash": ch, "task_name": T["task"][ti]["name"], "task_hash": tasks[ti],
                                   "args_hash": self.h(), "value_hash": r.choice(values), "timestamp": self.ts()})
        if len(cns) > 1 and r.random() < 0.7:
            T["call_edge"].append({"parent_id": cns[0], "child_id": cns[1], "call_order": 0})
            T["call_subtree_task"].append({"call_hash": cns[0], "task_hash": T["call_node"][1]["task_hash"]})
        for i in range(r.randint(0, 2)):
            ah = self.h()
            pos = r.choice([None, i])
            T["argument"].append({"arg_hash": ah, "call_hash": r.choice(cns), "value_hash": r.choice(values),
                                  "arg_position": pos, "arg_key": None if pos is not None else "k"})
            if r.random() < 0.5:
                T["argument_result"].append({"arg_hash": ah, "result_call_hash": r.choice(cns)})
        for vh in values:
            if vtype[vh] in FILE_TYPES and r.random() < 0.8:
                T["file"].append({"value_hash": vh, "path": "/tmp/" + (self.text() if not self.ascii else f"f{len(T['file'])}.txt")})
        if len(values) > 1 and r.random() < 0.6:
            T["subvalue"].append({"value_hash": values[0], "parent_value_hash": values[1]})
        hs = []
        for i in range(r.randint(0, 2)):
            hh = self.h()
            hs.append(hh)
            T["handle"].append({"hash": hh, "fullname": r.choice(["Conn", "myapp.DbConn"]),
                                "value_hash": r.choice([v for v in values if vtype[v] in HANDLE_TYPES] or values), "key": self.text(), "is_valid": r.choice([0, 1])})
        if len(hs) == 2:
            T["handle_edge"].append({"parent_id": hs[0], "child_id": hs[1]})
        if self.has("evaluation"):
            for i in range(r.randint(0, 2)):
                T["evaluation"].append({"eval_hash": self.h(), "task_hash": r.choice(tasks), "args_hash": self.h(), "value_hash": r.choice(values)})
        # jobs: a forest; executions on roots
        eid_col = self.has("job", "execution_id")
        eid_nn = eid_col and self.notnull("job", "execution_id")
        jn = 0
        # 2.3 (execution_id exists, nullable): a client may have labelled any subset of the jobs of an
        # execution -- always with the execution of the root, the only value redun records
        partial = eid_col and not eid_nn
        for tree in range(r.randint(2, 4) if partial else r.randint(1, 3)):
            with_exec = eid_nn or r.random() < (0.75 if partial else 0.6)
            ex = f"exec-{self.h()[:8]}" if with_exec else None
            if eid_nn:
                mode = "all"
            elif partial and with_exec:
                mode = r.choice(["all", "none", "random", "random", "root-only", "children-only", "even-levels", "odd-levels"])
            else:
                mode = "none"
            root = f"job-{self.h()[:8]}"
            nodes = [(root, None, 0)]
            for k in range(r.randint(2, 6) if partial else r.randint(0, 4)):
                pj = r.choice(nodes)
                nodes.append((f"job-{self.h()[:8]}", pj[0], pj[2] + 1))
            if partial:
                self.modes.append(mode)
            for jid, parent, depth in nodes:
                jn += 1
                row = {"id": jid, "start_time": self.ts(), "end_time": r.choice([None, self.ts()]), "task_hash": r.choice(tasks),
                       "cached": r.choice([0, 1]), "call_hash": r.choice([None] + cns), "parent_id": parent}
                if eid_col:
                    lab = {"all": True, "none": False, "random": r.random() < 0.5, "root-only": depth == 0,
                           "children-only": depth > 0, "even-levels": depth % 2 == 0, "odd-levels": depth % 2 == 1}[mode]
                    row["execution_id"] = ex if lab else None
                T["job"].append(row)
            if with_exec:
                row = {"id": ex, "args": json.dumps(["run", self.text()]) if not self.ascii else '["run", "wf.py"]', "job_id": root}
                if self.has("execution", "updated_time"):
                    row["updated_time"] = r.choice([None, self.ts()])
                T["execution"].append(row)
        if bad == "orphan":
            row = {"id": "job-orphan", "start_time": self.ts(), "end_time": None, "task_hash": tasks[0], "cached": 0,
                   "call_hash": None, "parent_id": "job-missing"}
            if eid_col:
                row["execution_id"] = None
            T["job"].append(row)
        if self.has("tag"):
            tg = []
            for i in range(r.randint(0, 3)):
                th = self.h()
                tg.append(th)
                T["tag"].append({"tag_hash": th, "entity_type": r.choice(["Execution", "Job", "CallNode", "Task", "Value", "Null"]),
                                 "entity_id": r.choice(tasks + values), "key": r.choice(["env", "user", "k"]),
                                 "value": json.dumps(r.choice(["prod", 1, [1, 2], {"a": None}, self.text()]), sort_keys=True),
                                 "is_current": r.choice([0, 1])})
            if len(tg) > 1:
                T["tag_edit"].append({"parent_id": tg[0], "child_id": tg[1]})
        if imperfect:
            classes = ["job->call_node", "argument->call_node", "call_edge->child", "evaluation->value", "tag->entity", "subvalue->parent"]
            for cl in [c for c in classes if r.random() < 0.6] or [r.choice(classes)]:
                if cl == "job->call_node":
                    root = T["job"][0]                   # a root job: the dangling job hangs under it, so its execution is defined
                    row = dict(root)
                    row.update(id=f"job-{self.h()[:8]}", parent_id=root["id"], call_hash=self.h())
                    T["job"].append(row)
                elif cl == "argument->call_node":
                    T["argument"].append({"arg_hash": self.h(), "call_hash": self.h(), "value_hash": r.choice(values),
                                          "arg_position": 0, "arg_key": None})
                elif cl == "call_edge->child":
                    T["call_edge"].append({"parent_id": cns[0], "child_id": self.h(), "call_order": 7})
                elif cl == "evaluation->value" and self.has("evaluation"):
                    T["evaluation"].append({"eval_hash": self.h(), "task_hash": r.choice(tasks), "args_hash": self.h(), "value_hash": self.h()})
                elif cl == "tag->entity" and self.has("tag"):
                    T["tag"].append({"tag_hash": self.h(), "entity_type": "Job", "entity_id": "job-never-stored", "key": "k",
                                     "value": '"v"', "is_current": 1})
                elif cl == "subvalue->parent":
                    T["subvalue"].append({"value_hash": values[-1], "parent_value_hash": self.h()})
                else:
                    continue
                self.dangling.append(cl)
        # respect NOT NULL of whatever schema the current tree builds (a generated NULL is a choice, not a must)
        for t, rows in T.items():
            for row in rows:
                for c, ty, nn in self.cols[t]:
                    if nn and c in row and row[c] is None and not (bad == "orphan" and c == "execution_id"):
                        row[c] = self.ts() if ty.upper() in ("DATETIME", "TIMESTAMP") else (0 if ty.upper() in ("INTEGER", "BOOLEAN") else "x")
                    elif nn and c not in row:
                        row[c] = self.ts() if ty.upper() in ("DATETIME", "TIMESTAMP") else (0 if ty.upper() in ("INTEGER", "BOOLEAN") else "x")
        return {t: rows for t, rows in T.items() if rows}


# ------------------------------------------------------------------ database -> Coq
def canon_after(before: dict, after: dict):
    """Replace the values the model treats symbolically (uuid4, pickle, utcnow) in the upgraded
    database.  Returns (tables, e_now term) or raises ValueError if something is not what the model
    means by its symbol (that is a mismatch)."""
    from redun.task import Task
    sub = {}          # uuid -> coq term
    out = {t: {"cols": v["cols"], "rows": [list(r) for r in v["rows"]]} for t, v in after["tables"].items()}
    now = "VNull"
    marks = {}        # (table, row index, col index) -> coq term
    ex_b = {r[0] for r in before["tables"].get("execution", {"rows": []})["rows"]}
    if "execution" in after["tables"]:
        cn = [c[0] for c in after["tables"]["execution"]["cols"]]
        for i, r in enumerate(after["tables"]["execution"]["rows"]):
            rid = r[cn.index("id")]
            if rid not in ex_b:
                if r[cn.index("args")] != STUB_ARGS or not UUID_RE.match(rid):
                    raise ValueError(f"new execution row that is not a stub: {r!r}")
                sub[rid] = f'(VFresh "stub" (VText {q(r[cn.index("job_id")])}))'
                marks[("execution", i, cn.index("id"))] = sub[rid]
        jc = [c[0] for c in after["tables"]["job"]["cols"]]
        if "execution_id" in jc:
            k = jc.index("execution_id")
            for i, r in enumerate(after["tables"]["job"]["rows"]):
                if r[k] in sub:
                    marks[("job", i, k)] = sub[r[k]]
    rv_b = {r[0] for r in before["tables"].get("redun_version", {"rows": []})["rows"]}
    if "redun_version" in after["tables"]:
        cn = [c[0] for c in after["tables"]["redun_version"]["cols"]]
        new = [(i, r) for i, r in enumerate(after["tables"]["redun_version"]["rows"]) if r[0] not in rv_b]
        if len(new) > 1:
            raise ValueError("more than one version row recorded")
        for i, r in new:
            if not UUID_RE.match(r[0]):
                raise ValueError(f"version row id is not a uuid4: {r!r}")
            marks[("redun_version", i, cn.index("id"))] = f'(VFresh "version" (VText {q(after["rev"])}))'
            p = parse_ts(r[cn.index("timestamp")])
            if p is None:
                raise ValueError(f"version row timestamp unparsable: {r!r}")
            age = calendar.timegm(time.gmtime()) - p[0]
            if not (-5 <= age <= 3600):
                raise ValueError(f"version row timestamp is not utcnow(): {r!r}")
            now = f"(VTime ({p[0]})%Z ({p[1]})%Z)"
    vb = {r[0]: r for r in before["tables"].get("value", {"rows": []})["rows"]}
    if "value" in after["tables"]:
        cn = [c[0] for c in after["tables"]["value"]["cols"]]
        for i, r in enumerate(after["tables"]["value"]["rows"]):
            if r[0] in vb and tuple(vb[r[0]]) == tuple(r):
                continue          # untouched; a row rewritten by session.merge must be the dummy-Task pickle too
            if r[cn.index("type")] != "redun.Task" or r[cn.index("format")] != PICKLE_MIME:
                raise ValueError(f"new value row that is not a companion Task value: {r[:3]!r}")
            obj = pickle.loads(r[cn.index("value")])
            if not isinstance(obj, Task) or obj.compat != [] or obj.version is not None or obj._task_options_override != {}:
                raise ValueError(f"companion value does not unpickle to the expected Task: {obj!r}")
            marks[("value", i, cn.index("value"))] = \
                f"(VTaskPickle {q(obj.name)} {q(obj.namespace)} {'true' if obj.script else 'false'})"
    return out, marks, now


def cq_val(v, ctype):
    if v is None:
        return "VNull"
    if isinstance(v, bool):
        return f"(VInt ({int(v)})%Z)"
    if isinstance(v, int):
        return f"(VInt ({v})%Z)"
    if isinstance(v, bytes):
        return f"(VBlob {q(v.decode('latin-1'))})"
    if isinstance(v, str):
        if ctype.upper() in ("DATETIME", "TIMESTAMP"):
            p = parse_ts(v)
            if p is not None:
                return f"(VTime ({p[0]})%Z ({p[1]})%Z)"
        return f"(VText {q(v)})"
    raise TypeError(v)


def cq_db(tables: dict, indexes, rev: str, marks=None) -> str:
    marks = marks or {}
    ts = []
    for t, v in sorted(tables.items()):
        cols = v["cols"]
        cq_cols = cq_list([f"{{| c_name := {q(c)}; c_type := {q(ty)}; c_null := {'false' if nn else 'true'} |}}" for c, ty, nn in cols])
        rows = []
        for i, r in enumerate(v["rows"]):
            rows.append(cq_list([f"({q(cols[k][0])}, {marks.get((t, i, k)) or cq_val(x, cols[k][1])})" for k, x in enumerate(r)]))
        ts.append(f"({q(t)}, {{| t_cols := {cq_cols}; t_rows := {cq_list(rows) if rows else '(@nil Migrate.row)'} |}})")
    idx = [f"{{| i_name := {q(n)}; i_table := {q(t)}; i_cols := {cq_list([q(c) for c in cs])}; i_unique := {'true' if u else 'false'} |}}"
           for n, t, cs, u in indexes]
    return (f"{{| d_tables := {cq_list(ts) if ts else '(@nil (string * Migrate.table))'}; "
            f"d_indexes := {cq_list(idx) if idx else '(@nil Migrate.index)'}; d_rev := {q(rev)} |}}")


# ------------------------------------------------------------------ the property on the implementation
def instants_expected(ts: str, tz: str):
    """Naive local time string -> the same instant as naive UTC datetime (None: ambiguous or
    non-existent local time, for which no claim is made)."""
    from zoneinfo import ZoneInfo
    m = TS_RE.match(ts)
    naive = dt.datetime(*(int(x) for x in m.groups()[:6]), int(m.group(7) or 0))
    z = ZoneInfo(tz)
    a = naive.replace(tzinfo=z, fold=0)
    b = naive.replace(tzinfo=z, fold=1)
    if a.utcoffset() != b.utcoffset():
        return None
    u = a.astimezone(dt.timezone.utc)
    if u.astimezone(z).replace(tzinfo=None) != naive:
        return None
    return u.replace(tzinfo=None)


def parse_dt(s):
    m = TS_RE.match(s) if isinstance(s, str) else None
    if not m:
        return None
    return dt.datetime(*(int(x) for x in m.groups()[:6]), int(m.group(7) or 0))


def compare_data(before: dict, after: dict, tz: str, crossed: set):
    """The property, decided without the model. Returns list of (key, what)."""
    bad = []
    for t, bt in before["tables"].items():
        if t not in after["tables"]:
            continue                      # the property speaks about tables that exist in both
        at = after["tables"][t]
        bc = [c[0] for c in bt["cols"]]
        ac = [c[0] for c in at["cols"]]
        shared = [c for c in bc if c in ac]
        pk = bt["pk"] or bc
        index = {}
        for r in at["rows"]:
            index.setdefault(tuple(r[ac.index(c)] for c in pk), []).append(r)
        roots = None
        for r in bt["rows"]:
            key = tuple(r[bc.index(c)] for c in pk)
            cands = index.get(key, [])
            if not cands:
                bad.append((f"row-lost:{t}", f"row {key!r} of table {t} is missing after the upgrade"))
                continue
            ar = cands.pop(0)
            for c in shared:
                old, new = r[bc.index(c)], ar[ac.index(c)]
                if t == "job" and c in ("start_time", "end_time") and UTC_REV in crossed and old is not None:
                    want = instants_expected(old, tz)
                    if want is None:
                        continue
                    got = parse_dt(new)
                    if got == want:
                        continue
                    cut = want.replace(microsecond=0)
                    if got in (cut, cut + dt.timedelta(seconds=1)) and want.microsecond != 0:
                        bad.append((K_FRACTION, f"job.{c} {old!r} ({tz}) became {new!r}; the same instant is {want.isoformat(sep=' ')}"))
                    else:
                        bad.append((f"job-time-instant:{c}", f"job.{c} {old!r} ({tz}) became {new!r}, expected the instant {want.isoformat(sep=' ')}"))
                    continue
                if t == "job" and c == "execution_id" and EID_REV in crossed and old is None:
                    if new is None:
                        bad.append(("execution_id-null", f"job {key!r}: execution_id still NULL after the back-fill"))
                    continue
                if type(old) is not type(new) or old != new:
                    bad.append((f"value-changed:{t}.{c}", f"{t}.{c} of row {key!r}: {old!r} became {new!r}"))
    # the back-filled execution ids point to the execution of the root ancestor
    if EID_REV in crossed and "job" in before["tables"]:
        jc = [c[0] for c in after["tables"]["job"]["cols"]]
        ec = [c[0] for c in after["tables"]["execution"]["cols"]]
        jobs = {r[jc.index("id")]: r for r in after["tables"]["job"]["rows"]}
        ex_job = {r[ec.index("id")]: r[ec.index("job_id")] for r in after["tables"]["execution"]["rows"]}
        for jid, r in jobs.items():
            root, n = jid, 0
            while jobs[root][jc.index("parent_id")] is not None and n < len(jobs) + 1:
                root, n = jobs[root][jc.index("parent_id")], n + 1
                if root not in jobs:
                    break
            e = r[jc.index("execution_id")]
            if root in jobs and ex_job.get(e) != root:
                bad.append(("execution_id-wrong-root", f"job {jid}: execution_id {e!r} is not an execution of its root job {root}"))
    return bad


def library_accepts(path):
    """load() without migration, is_db_compatible, and every row of every mapped class loads."""
    from redun.backends import db as rdb
    quiet()
    b = open_backend(path)
    try:
        b.load(migrate=False)
        if not b.is_db_compatible():
            return "is_db_compatible() is False after the upgrade"
        v = b.get_db_version()
        latest = all_versions()[-1]
        if (v.major, v.minor) != (latest.major, latest.minor):
            return f"version after upgrade is {v}, newest is {latest}"
        n = 0
        for cls in (rdb.Task, rdb.Value, rdb.CallNode, rdb.Job, rdb.Execution, rdb.Argument, rdb.Tag, rdb.Handle,
                    rdb.File, rdb.Evaluation, rdb.CallEdge, rdb.Subvalue, rdb.RedunVersion):
            for o in b.session.query(cls).all():
                n += 1
                for col in cls.__table__.columns:
                    getattr(o, col.key)
        return None
    except Exception as e:  # noqa
        return f"{type(e).__name__}: {e}"[:300]
    finally:
        close_backend(b)


_WF = {}
WF_RESULT = [1, 2, 3, 40]
WF_CALLS = 7


def workflow():
    """A tiny two-level workflow with observable executions."""
    if not _WF:
        from redun import task
        calls = []

        @task(namespace="c36wf")
        def inc(x: int) -> int:
            calls.append(("inc", x))
            return x + 1

        @task(namespace="c36wf")
        def scale(x: int, factor: int) -> int:
            calls.append(("scale", x))
            return x * factor

        @task(namespace="c36wf")
        def make_scaler(factor: int):
            calls.append(("make_scaler", factor))
            return scale.partial(factor=factor)      # a PartialTask recorded as a value (task row + typed value row)

        @task(namespace="c36wf")
        def apply_to(fn, x: int):
            calls.append(("apply_to", x))
            return fn(x)

        @task(namespace="c36wf")
        def main(n: int) -> list:
            calls.append(("main", n))
            return [inc(i) for i in range(n)] + [apply_to(make_scaler(10), 4)]

        _WF.update(calls=calls, main=main)
    return _WF["calls"], _WF["main"]


def run_workflow(path, cwd):
    from redun import Scheduler
    from redun.config import Config
    quiet()
    calls, main = workflow()
    old = os.getcwd()
    os.chdir(cwd)
    s = Scheduler(config=Config({"backend": {"db_uri": "sqlite:///" + str(path)}}))
    try:
        s.load()
        calls.clear()
        res = s.run(main(3))
        return res, list(calls)
    finally:
        os.chdir(old)
        close_backend(s.backend)


# ------------------------------------------------------------------ the check
class Check(PropertyCheck):
    id = "C36"
    module = "Props.C36"
    theorems = ["C36_any_known_ops_preserve", "C36_upgrade_keeps_rows", "C36_other_columns_equal_partial", "C36_refuted",
                "C36_holds_fixed", "C36_execution_id_backfilled", "C36_upgraded_is_compatible",
                "C36_upgraded_schema_is_latest", "C36_upgrade_failure_modes_partial", "C36_nonvacuous", "C36_partial_labels_example"]
    extra_modules = ["Model.MigrateChain"]
    allowed_axioms = []
    section_premises = []
    assumptions = [
        "SQLite (the C library behind sqlite3): datetime(x, 'utc') shifts the naive reading by the local zone and prints whole seconds "
        "(fraction dropped, rounded to the millisecond first); modelled as utc_conv Truncating and re-tested by every correspondence case "
        "under five fixed-offset zones; the exact boundary .999500 is floating-point dependent and is not generated",
        "uuid4() values are fresh and pickle_dumps(Task(..)) is a function of (name, namespace, script): symbolic values VFresh / VTaskPickle; "
        "the harness checks each real value is a uuid4 / unpickles to that Task before substituting the symbol",
        "PRIMARY KEY, UNIQUE and FOREIGN KEY enforcement is not modelled (every existing database satisfies the constraints of its own schema)",
        "PostgreSQL branches of the revisions are translated and covered by C36_any_known_ops_preserve, but no PostgreSQL server is "
        "available here: they are never run, so nothing validates the PostgreSQL operations of the model against a server (partial)",
        "alembic's batch_alter_table copies rows verbatim (checked by the correspondence on SQLite), offline (SQL script) mode is outside the property",
    ]
    rule = ("every historical schema version (built by the real revision chain on SQLite) x generated referentially-consistent rows "
            "for all tables (job forests with and without executions, lonely tasks, tags, timestamps with boundary microseconds) x "
            "five fixed-offset local zones; a case is non-trivial if at least one table has rows; distinct by (version, zone, rows)")

    # ---------------------------------------------------------------- translate
    def translate(self):
        pins = json.loads(PINS_FILE.read_text())["pins"] if PINS_FILE.exists() else None
        try:
            text, got, info = tr_alembic.translate(pins=pins)
        except astutil.TranslateError as e:
            raise TranslateError(str(e))
        self.variant = info["variant"]
        self.backfill = info["backfill"]
        self.chain = f"(chain_gen {self.backfill[0]} {self.backfill[1]} {self.variant})"
        # the preservation theorem (C36_holds_fixed) is about (AnyValue, AddRow); (TypedValue, MergeRow) is the
        # refuted variant; the mixed ones are modelled (correspondence still runs) but carry no theorem
        self.ob("translator", f"companion-value back-fill variant is (AnyValue, AddRow), the one the preservation theorems are about "
                              f"[found: {self.backfill[0]}, {self.backfill[1]}]", tuple(self.backfill) == ("AnyValue", "AddRow"),
                "C36_backfill_typed_merge_refuted: a Task-subclass value row is overwritten" if tuple(self.backfill) == ("TypedValue", "MergeRow")
                else "no preservation theorem for this variant")
        self.revisions = info["revisions"]
        # the ORM classes the library will use on the upgraded database
        from redun.backends.db import Base
        orm = []
        for name, tab in sorted(Base.metadata.tables.items()):
            if name == "alembic_version":
                continue
            orm.append(f"({q(name)}, " + cq_list([f"({q(c.name)}, {'true' if c.nullable else 'false'})" for c in tab.columns]) + ")")
        text += ("\n(* redun.backends.db.Base.metadata (table -> column, nullable), read from the imported library *)\n"
                 "Definition orm_schema : list (string * list (string * bool)) := " + cq_list(orm) + ".\n"
                 "Definition env_gen : env := {| e_dialect := Sqlite; e_tz := fun s => s; e_now := VNull |}.\n"
                 "Lemma C36_orm_schema :\n"
                 "  match built env_gen gen_chain (List.length gen_chain) with\n"
                 "  | Ok d => schema_matches (schema_of d) orm_schema\n  | Err _ => false\n  end = true.\n"
                 "Proof. vm_compute. reflexivity. Qed.\n")
        GEN.mkdir(exist_ok=True)
        p = GEN / "C36Gen.v"
        p.write_text(text)
        return [p]

    # ---------------------------------------------------------------- one generated case on the real code
    def make_case(self, tpl, i, tz, ascii_only, bad=None, tag="c", imperfect=False):
        """Build, populate, upgrade. Returns dict(before, after, exc, rows, version index, tz)."""
        p = tpl.fresh(i, f"{tag}_{self.rng.randrange(10 ** 9)}.db")
        base = dump(p)
        rows = {}
        if i > 0:
            g = DbGen(self.rng, {t: v["cols"] for t, v in base["tables"].items()}, ascii_only)
            rows = g.make(bad, imperfect)
            for m in g.dangling:
                self.stat("dangling_reference", m)
            for m in g.modes:
                self.stat("execution_id_labelling_at_2.3", m)
            for m in g.task_kinds:
                self.stat("task_recorded_as", m)
            insert_rows(p, rows)
        before = dump(p)
        exc = real_upgrade(p, tz)
        after = dump(p) if exc is None else None
        return {"path": p, "before": before, "after": after, "exc": exc, "rows": rows, "i": i, "tz": tz}

    def crossed(self, i):
        return set(self.revisions[i:])

    def i23(self):
        """Version index of 2.3 (d4af139b6f53: job.execution_id exists and is nullable)."""
        return self.revisions.index("d4af139b6f53") + 1 if "d4af139b6f53" in self.revisions else -1

    # ---------------------------------------------------------------- correspondence
    def correspond(self):
        if not hasattr(self, "variant"):
            self.ob("correspondence", "skipped: translator failed", False, "no variant")
            return
        quiet()
        root = scratch_dir("rv_c36_")
        try:
            tpl = Templates(root)
            nver = len(self.revisions)
            per = 4 if self.tier == "quick" else 40
            terms, descr, inexpressible = [], [], []
            # (1) the model's schema after the first n revisions == the real schema
            for n in range(nver + 1):
                real = dump(tpl.path(n))
                lit = cq_db({t: {"cols": v["cols"], "rows": []} for t, v in real["tables"].items()},
                            real["indexes"], real["rev"])
                terms.append(f"db_agrees (built env_c {self.chain} {n}%nat) {lit}")
                descr.append(("schema", n))
                self.count(("schema", n))
            # (2) populated upgrades
            for i in range(nver + 1):
                for k in range((per * 2 if i == self.i23() else per) if i else 1):
                    tz, off = self.rng.choice(FIXED_ZONES)
                    bad = None
                    if i and k == per - 1:
                        bad = "task" if i <= 2 else ("orphan" if i <= 5 else None)
                    c = self.make_case(tpl, i, tz, ascii_only=True, bad=bad, imperfect=(bad is None and k % 2 == 0))
                    env = f"{{| e_dialect := Sqlite; e_tz := fun s => (s - ({off}))%Z; e_now := NOW |}}"
                    try:
                        b_lit = cq_db(c["before"]["tables"], c["before"]["indexes"], c["before"]["rev"])
                        if c["exc"] is None:
                            tabs, marks, now = canon_after(c["before"], c["after"])
                            a_lit = cq_db(tabs, c["after"]["indexes"], c["after"]["rev"], marks)
                            term = f"db_agrees (upgrade {env.replace('NOW', now)} {self.chain} db_versions {b_lit}) {a_lit}"
                            self.stat("upgrade_result", "ok")
                        else:
                            msg = str(c["exc"])
                            m = re.search(r"NOT NULL constraint failed: \w+\.(\w+)", msg)
                            if m:
                                x = f"(XNotNull {q(m.group(1))})"
                                self.stat("upgrade_result", "IntegrityError NOT NULL")
                            elif re.search(r"UNIQUE constraint failed: value\.value_hash", msg):
                                x = '(XUnique "value_hash")'
                                self.stat("upgrade_result", "IntegrityError UNIQUE value.value_hash")
                            elif isinstance(c["exc"], ValueError) and ("Task name must" in msg or "Task namespace must" in msg):
                                x = "XBadTask"
                                self.stat("upgrade_result", "ValueError task name")
                            else:
                                raise ValueError(f"unexpected exception from the real upgrade: {type(c['exc']).__name__}: {msg[:300]}")
                            term = f"err_agrees (upgrade {env.replace('NOW', 'VNull')} {self.chain} db_versions {b_lit}) {x}"
                    except ValueError as e:
                        inexpressible.append(f"version-index {i} zone {tz}: {str(e)[:400]}")
                        continue
                    terms.append(term)
                    descr.append(("upgrade", i, tz, bad, {t: len(r) for t, r in c["rows"].items()}))
                    self.stat("start_version", i)
                    self.stat("zone", tz)
                    self.stat("rows_per_case", sum(len(r) for r in c["rows"].values()) // 10 * 10)
                    self.count(("upgrade", i, tz, json.dumps(c["rows"], sort_keys=True, default=repr)) if c["rows"] else None)
                    self.sample({"start_version_index": i, "zone": tz, "bad": bad,
                                 "rows": {t: len(r) for t, r in c["rows"].items()},
                                 "result": "ok" if c["exc"] is None else type(c["exc"]).__name__}, 5)
                    os.unlink(c["path"])
            pre = ("Open Scope string_scope.\nOpen Scope list_scope.\n"
                   "Definition env_c : env := {| e_dialect := Sqlite; e_tz := fun s => s; e_now := VNull |}.\n")
            self.ob("correspondence", "every result of the real upgrade is expressible in the model (ok / NOT NULL / task name; "
                                      "fresh uuid4, companion pickle and utcnow recognised)", not inexpressible,
                    f"{len(inexpressible)} case(s):\n" + "\n".join(inexpressible[:3]))
            ok, failing, diags = run_bool_cases("C36", ["Model.Migrate", "Model.MigrateChain"],
                                                "From Coq Require Import String.\n" + pre, terms, chunk=12)
            self.ob("correspondence",
                    f"Model.Migrate == real alembic chain + RedunBackendDb.migrate on {len(terms)} cases "
                    f"({nver + 1} schemas, {len(terms) - nver - 1} populated upgrades from every version)",
                    ok and not failing, "\n".join(diags) + "".join(f"\nmismatch: {descr[j]}" for j in failing[:10]))
        finally:
            shutil.rmtree(root, ignore_errors=True)

    # ---------------------------------------------------------------- oracle
    def check_case(self, c):
        """Decide the property on one upgraded database; returns list of (key, what)."""
        if c["exc"] is not None:
            out = [(f"upgrade-raises:{type(c['exc']).__name__}", f"upgrade raised {type(c['exc']).__name__}: {str(c['exc'])[:200]}")]
            # a failed upgrade must at least be repeatable: the second load() may fail for the same reason, but not
            # because the first attempt left a half-migrated schema behind
            again = real_upgrade(c["path"], c["tz"])
            if again is not None and re.search(r"already exists|duplicate column|no such (table|column)", str(again)):
                out.append((f"half-migrated-after-failure:{type(again).__name__}",
                            f"a second load() after the failed upgrade finds a half-migrated schema: {str(again)[:200]}"))
            return out
        bad = compare_data(c["before"], c["after"], c["tz"], self.crossed(c["i"]))
        why = library_accepts(c["path"])
        if why:
            bad.append(("not-accepted", "the upgraded database is not accepted by the library: " + why))
        return bad

    def add_findings(self, bad, c):
        seen = set()
        for key, what in bad:
            if key in seen:
                continue
            seen.add(key)
            self.findings.append(Finding(key, what, {"kind": "upgrade", "version_index": c["i"], "zone": c["tz"],
                                                     "rows": json.loads(json.dumps(c["rows"], default=lambda b: {"__bytes__": b.hex()})),
                                                     "why": what}))

    def cache_case(self, tpl, i, root):
        """Real recorded data: run a workflow at the newest version, downgrade to version i with the
        real chain, upgrade again, run the workflow again: results must come from the cache."""
        p = tpl.fresh(0, f"wf_{i}.db")
        res0, calls0 = run_workflow(p, root)
        if res0 != WF_RESULT or len(calls0) != WF_CALLS:
            return "harness", f"workflow did not run as expected: {res0!r} {calls0!r}"
        quiet()
        b = open_backend(p)
        b.create_engine()
        try:
            b.migrate(all_versions()[i - 1])
        finally:
            close_backend(b)
        # what an interrupted recording leaves behind (C03/C22): a job whose call node was never stored
        con = sqlite3.connect(p)
        jc = [x[1] for x in con.execute('pragma table_info("job")')]
        rootrow = con.execute("select * from job where parent_id is null limit 1").fetchone()
        if rootrow is not None:
            row = dict(zip(jc, rootrow))
            row.update(id="job-interrupted", parent_id=row["id"], call_hash="f" * 40)
            con.execute(f'insert into job ({",".join(jc)}) values ({",".join("?" * len(jc))})', [row[x] for x in jc])
            con.commit()
        con.close()
        before = dump(p)
        res1, calls1 = run_workflow(p, root)       # load() upgrades automatically
        after = dump(p)
        bad = compare_data(before, after, os.environ.get("TZ", "UTC"), self.crossed(i))
        if after["rev"] != self.revisions[-1]:
            return "not-upgraded", f"after load() the revision is {after['rev']}"
        if res1 != WF_RESULT:
            return "cache-wrong-result", f"workflow on the upgraded database returned {res1!r}"
        has_eval = "evaluation" in before["tables"]
        if has_eval and calls1:
            return "cache-miss", f"recorded results were not reused after upgrading from version index {i}: executed {calls1!r}"
        res2, calls2 = run_workflow(p, root)
        if calls2 or res2 != WF_RESULT:
            return "cache-unusable", f"second run on the upgraded database executed {calls2!r} -> {res2!r}"
        if bad:
            return bad[0]
        return None

    def oracle(self):
        if not hasattr(self, "revisions"):
            from redun.backends.db import REDUN_DB_VERSIONS
            self.revisions = [v.migration_id for v in REDUN_DB_VERSIONS]
        quiet()
        root = scratch_dir("rv_c36o_")
        n = 0
        try:
            tpl = Templates(root)
            nver = len(self.revisions)
            # corpus first
            corpus = CORPUS / "C36.jsonl"
            if corpus.exists():
                for line in corpus.read_text().splitlines():
                    if line.strip():
                        doc = json.loads(line)
                        c = self.run_replay_case(tpl, doc)
                        n += 1
                        self.add_findings(self.check_case(c), c)
            per = 5 if self.tier == "quick" else 60
            for i in range(1, nver + 1):
                # 2.3 is the only start with a nullable, partly filled execution_id: more populations there
                for k in range(per * 3 if i == self.i23() else per):
                    tz = self.rng.choice([z for z, _ in FIXED_ZONES] + DST_ZONES)
                    c = self.make_case(tpl, i, tz, ascii_only=False, tag="o", imperfect=(k % 2 == 1))
                    n += 1
                    self.count(("oracle", i, tz, json.dumps(c["rows"], sort_keys=True, default=repr)), n=0)
                    self.stat("oracle_zone", tz)
                    self.add_findings(self.check_case(c), c)
                    os.unlink(c["path"])
            # empty start: a fresh database is created at the newest version and accepted
            c = self.make_case(tpl, 0, "UTC", ascii_only=False, tag="o")
            n += 1
            self.add_findings(self.check_case(c), c)
            # caching on really recorded data, from every version
            cached = 0
            for i in range(1, nver + 1):
                with local_zone("UTC"):
                    try:
                        r = self.cache_case(tpl, i, root)
                    except Exception as e:  # noqa  (the library refusing / failing on really recorded data is a violation)
                        r = (f"recorded-data-upgrade-raises:{type(e).__name__}", f"{type(e).__name__}: {str(e)[:300]}")
                n += 1
                if r is None:
                    cached += 1
                elif r[0] == "harness":
                    self.ob("oracle", "caching oracle ran", False, r[1])
                else:
                    self.findings.append(Finding(r[0] if r[0] == K_FRACTION else f"{r[0]}:from-version-index-{i}", r[1],
                                                 {"kind": "cache", "version_index": i, "why": r[1]}))
            self.stat("oracle", "upgrades_checked", n)
            self.stat("oracle", "versions_with_cache_reuse", cached)
            self.evaluations += n
            new = [f for f in self.findings if f.key != K_FRACTION]
            self.ob("oracle", f"implementation oracle: {n} real upgrades (rows kept, shared columns equal, job times equal as instants, "
                              f"library accepts and reads the result, recorded workflow results reused from {cached}/{nver} versions)",
                    not new, "; ".join(f.what for f in new[:5]))
            if any(f.key == K_FRACTION for f in self.findings) and getattr(self, "variant", None) == "KeepFraction":
                self.ob("oracle", "translator says the SQL keeps the fraction, but the implementation drops it", False, "")
        finally:
            shutil.rmtree(root, ignore_errors=True)

    # ---------------------------------------------------------------- replay
    def run_replay_case(self, tpl, doc):
        r = doc.get("replay", doc)
        i, tz = r["version_index"], r["zone"]

        def un(o):
            if isinstance(o, dict) and "__bytes__" in o:
                return bytes.fromhex(o["__bytes__"])
            return o
        rows = {t: [{k: un(v) for k, v in row.items()} for row in rs] for t, rs in r.get("rows", {}).items()}
        p = tpl.fresh(i, f"replay_{self.rng.randrange(10 ** 9)}.db")
        insert_rows(p, rows)
        before = dump(p)
        exc = real_upgrade(p, tz)
        after = dump(p) if exc is None else None
        return {"path": p, "before": before, "after": after, "exc": exc, "rows": rows, "i": i, "tz": tz}

    def replay(self, doc):
        from redun.backends.db import REDUN_DB_VERSIONS
        self.revisions = [v.migration_id for v in REDUN_DB_VERSIONS]
        r = doc.get("replay", {})
        root = scratch_dir("rv_c36r_")
        try:
            tpl = Templates(root)
            if r.get("kind") == "upgrade":
                from harness.lib import load_known_findings
                known = {k["key"] for k in load_known_findings() if k.get("property") == self.id}
                c = self.run_replay_case(tpl, doc)
                bad = self.check_case(c)
                shown = set()
                for key, what in bad:
                    if key not in shown and len(shown) < 5:
                        shown.add(key)
                        print("replay:", "(known finding)" if key in known else "FAILS", key, "--", what)
                new = [b for b in bad if b[0] not in known]
                if not new:
                    print("replay: the property holds on this database now" + (" (apart from the known finding)" if bad else ""))
                return 1 if new else 0
            if r.get("kind") == "cache":
                res = self.cache_case(tpl, r["version_index"], root)
                print("replay:", res or "recorded results are reused now")
                return 1 if res else 0
        finally:
            shutil.rmtree(root, ignore_errors=True)
        print("replay: nothing to replay (no failing input was found); broken obligations:",
              json.dumps(doc.get("broken_obligations", []))[:2000])
        return 1
