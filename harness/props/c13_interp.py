"""C13 helper: the history language shared by the Coq model (Model/Promise.v) and the real
redun.promise code: an interpreter that runs a history on real Promise objects (recording
everything the oracle needs), converters to Coq syntax, and the generators.

History language (JSON-able):
  act  = ["new"] | ["resolve", q, e] | ["reject", q, e] | ["then", q, f, g] | ["all", [q..]] | ["wait", [q..]]
  func = None | [lbl, [act..], fin]        fin = ["ret", e] | ["raise", z]
  e    = ["arg"] | ["const", v]
  v    = ["int", z] | ["err", z] | ["none"] | ["prom", p] | ["list", [v..]]
Promises are referred to by allocation index (every Promise() ever constructed, including the
ones promise.py constructs internally, in construction order).
"""
from __future__ import annotations

import contextlib
import importlib
import signal


KNOWN_ORDER_KEY = "order:then-on-promise-while-it-notifies"


class RVErr(Exception):
    def __init__(self, n):
        super().__init__(f"rv{n}")
        self.n = n


class HistoryTimeout(BaseException):
    """The implementation did not finish a history in time.  BaseException on purpose: the wrappers
    in promise.py catch Exception and would swallow it."""


@contextlib.contextmanager
def time_limit(seconds=2.0):
    """`seconds` of CPU time of this process (robust against a loaded machine: a descheduled process is not a
    hanging history), plus a generous wall-clock limit for a history that blocks without computing."""
    def handler(signum, frame):
        raise HistoryTimeout()
    old_v = signal.signal(signal.SIGVTALRM, handler)
    old_r = signal.signal(signal.SIGALRM, handler)
    signal.setitimer(signal.ITIMER_VIRTUAL, seconds)
    signal.setitimer(signal.ITIMER_REAL, 30 * seconds)
    try:
        yield
    finally:
        signal.setitimer(signal.ITIMER_VIRTUAL, 0)
        signal.setitimer(signal.ITIMER_REAL, 0)
        signal.signal(signal.SIGVTALRM, old_v)
        signal.signal(signal.SIGALRM, old_r)


class BadRef(Exception):
    """The history refers to a promise that does not exist (generator bug, not a finding)."""


@contextlib.contextmanager
def traced_promise_module():
    """redun.promise with the module-global `Promise` replaced by a subclass whose __init__
    records every construction (run-time only; nothing under /repo is touched)."""
    pm = importlib.import_module("redun.promise")
    real = pm.Promise
    allocs = []

    class TracedPromise(real):  # type: ignore[misc,valid-type]
        def __init__(self, func=None):
            allocs.append(self)
            super().__init__(func)

    TracedPromise.__name__ = "Promise"
    pm.Promise = TracedPromise
    try:
        yield pm, allocs
    finally:
        pm.Promise = real


class Interp:
    """Runs a history on the real code. Use inside `traced_promise_module()`."""

    def __init__(self, pm, allocs):
        self.pm, self.allocs = pm, allocs
        self.errs = {}
        self.calls = []          # (lbl, value) chronological: the user-visible invocation log
        self.clock = 0
        self.regs = []           # registrations made through the history (dicts)
        self.active = []         # stack of (reg, side) of user callbacks currently executing
        self.settle_time = {}    # alloc index -> clock of the observation point where first seen settled
        self.settle_epoch = {}   # alloc index -> index of the top-level act during which it settled
        self.epoch = 0
        self.snap = {}           # alloc index -> (state, value-object) when first seen settled
        self.direct = set()      # promises targeted by do_resolve/do_reject acts
        self.alls, self.waits = [], []
        self.problems = []       # (key, what) found while running (settle-once, after-settlement ...)

    # -- values
    def idx(self, obj):
        for i, p in enumerate(self.allocs):
            if p is obj:
                return i
        return None

    def to_py(self, v):
        k = v[0]
        if k == "int":
            return v[1]
        if k == "err":
            return self.errs.setdefault(v[1], RVErr(v[1]))
        if k == "none":
            return None
        if k == "prom":
            return self.prom(v[1])
        if k == "list":
            return [self.to_py(x) for x in v[1]]
        raise ValueError(v)

    def from_py(self, x):
        if isinstance(x, RVErr):
            return ["err", x.n]
        if isinstance(x, bool):
            return ["other", repr(x)]
        if isinstance(x, int):
            return ["int", x]
        if x is None:
            return ["none"]
        if isinstance(x, list):
            return ["list", [self.from_py(y) for y in x]]
        i = self.idx(x)
        if i is not None:
            return ["prom", i]
        return ["other", repr(x)[:60]]

    def prom(self, q):
        if not (isinstance(q, int) and 0 <= q < len(self.allocs)):
            raise BadRef(q)
        return self.allocs[q]

    def state(self, p):
        """(state, value-object) of a real promise, read from its public flags."""
        if getattr(p, "is_pending", True):
            return ("pending", None)
        if p.is_fulfilled:
            return ("fulfilled", p._value)
        return ("rejected", p._error)

    def state_json(self, i):
        s, v = self.state(self.allocs[i])
        return [s] if s == "pending" else [s, self.from_py(v)]

    # -- observation points (settle-once is decided here, on the real objects)
    def observe(self):
        self.clock += 1
        for i, p in enumerate(self.allocs):
            s, v = self.state(p)
            if not hasattr(p, "is_pending"):
                continue   # being constructed right now
            flags = (p.is_pending, bool(p.is_fulfilled), bool(p.is_rejected))
            if flags not in ((True, False, False), (False, True, False), (False, False, True)):
                self.problems.append(("flags", f"promise {i} has inconsistent flags {flags}"))
            if i in self.snap:
                s0, v0 = self.snap[i]
                if s != s0 or v is not v0:
                    self.problems.append(("settle-once", f"promise {i} was {s0} and later became {s} / changed its value"))
            elif s != "pending":
                self.snap[i] = (s, v)
                self.settle_time[i] = self.clock
                self.settle_epoch[i] = self.epoch

    # -- running
    def make_cb(self, reg, side, f):
        lbl, body, fin = f

        def cb(x):
            self.observe()
            p = self.allocs[reg["p"]]
            s, v = self.state(p)
            want = "fulfilled" if side == "res" else "rejected"
            if s != want or v is not x:
                self.problems.append(("after-settlement",
                                      f"{side} callback {lbl} of promise {reg['p']} ran with {self.from_py(x)} while the promise is {self.state_json(reg['p'])}"))
            rec = {"time": self.clock, "arg": self.from_py(x), "outcome": None}
            reg[side + "_calls"].append(rec)
            self.calls.append((lbl, self.from_py(x)))
            self.active.append((reg, side))
            try:
                for a in body:
                    self.act(a, x)
                if fin[0] == "raise":
                    rec["outcome"] = ("raise", ["err", fin[1]])
                    raise self.errs.setdefault(fin[1], RVErr(fin[1]))
                r = x if fin[1][0] == "arg" else self.to_py(fin[1][1])
                rec["outcome"] = ("ret", self.from_py(r))
                return r
            except HistoryTimeout:
                self.dead = True      # do not touch half-constructed objects any more
                raise
            finally:
                self.active.pop()
                if not getattr(self, "dead", False):
                    self.observe()
        return cb

    def act(self, a, arg=None):
        k = a[0]
        if k == "new":
            self.pm.Promise()
        elif k in ("resolve", "reject"):
            p = self.prom(a[1])
            x = arg if a[2][0] == "arg" else self.to_py(a[2][1])
            was_pending = p.is_pending
            self.direct.add(a[1])
            ret = p.do_resolve(x) if k == "resolve" else p.do_reject(x)
            if ret is not x:
                self.problems.append(("return", f"do_{k} did not return its argument"))
            s, v = self.state(p)
            if was_pending and (s != ("fulfilled" if k == "resolve" else "rejected") or v is not x):
                self.problems.append(("first-wins", f"do_{k} on pending promise {a[1]} left it {self.state_json(a[1])}"))
        elif k == "then":
            p = self.prom(a[1])
            reg = {"id": len(self.regs), "p": a[1], "f": a[2] and a[2][0], "g": a[3] and a[3][0], "time": self.clock,
                   "res_calls": [], "rej_calls": [], "has": (a[2] is not None, a[3] is not None),
                   "settled_at_reg": not p.is_pending}
            self.regs.append(reg)
            f = self.make_cb(reg, "res", a[2]) if a[2] is not None else None
            g = self.make_cb(reg, "rej", a[3]) if a[3] is not None else None
            if a[2] is None and a[3] is not None and hasattr(p, "catch") and reg["id"] % 2 == 0:
                child = p.catch(g)
            else:
                child = p.then(f, g)
            reg["child"] = self.idx(child)
        elif k == "all":
            subs = [self.prom(q) for q in a[1]]
            pre = [self.state(s)[0] for s in subs]
            t = self.clock
            P = self.pm.Promise.all(subs)
            self.alls.append({"P": self.idx(P), "subs": list(a[1]), "time": t, "pre": pre, "epoch": self.epoch,
                              "nested": bool(self.active)})
        elif k == "wait":
            subs = [self.prom(q) for q in a[1]]
            W = self.pm.wait_promises(subs)
            self.waits.append({"P": self.idx(W), "subs": list(a[1]), "subobjs": subs})
        else:
            raise ValueError(a)
        self.observe()

    def run(self, prog):
        for n, a in enumerate(prog):
            self.epoch = n
            self.act(a, None)
        return self

    # -- the oracle: decide the property on what was observed (no model involved)
    def verdict(self):
        """Returns list of (key, what). KNOWN_ORDER_KEY is the shape that is
        already known on the unchanged tree."""
        out = list(self.problems)
        final = {i: self.state(p) for i, p in enumerate(self.allocs)}

        def same(i, st, val_json=None, obj=None):
            s, v = final[i]
            if s != st:
                return False
            if st == "pending":
                return True
            return (v is obj) if val_json is None else (self.from_py(v) == val_json)

        # exactly once, with the outcome
        for r in self.regs:
            s, v = final[r["p"]]
            nres, nrej = len(r["res_calls"]), len(r["rej_calls"])
            want_res = 1 if (s == "fulfilled" and r["has"][0]) else 0
            want_rej = 1 if (s == "rejected" and r["has"][1]) else 0
            if (nres, nrej) != (want_res, want_rej):
                out.append(("exactly-once", f"registration {r['id']} on promise {r['p']} (final {s}): resolver ran {nres}x, "
                            f"rejector ran {nrej}x, expected {want_res}/{want_rej}"))
        # registration order per promise
        byp = {}
        for r in self.regs:
            for side in ("res", "rej"):
                for c in r[side + "_calls"]:
                    byp.setdefault(r["p"], []).append((c["time"], r["id"]))
        for p, lst in byp.items():
            lst.sort()
            ids = [i for _, i in lst]
            for a, b in zip(ids, ids[1:]):
                if a > b:
                    late = self.regs[a]
                    if late["settled_at_reg"]:
                        # late was registered on an already settled promise and still ran before an
                        # earlier registration: it was registered while _notify of p was iterating
                        out.append((KNOWN_ORDER_KEY,
                                    f"callbacks of promise {p} ran in order {ids}, not registration order: registration {a} "
                                    f"was made while promise {p} was notifying its callbacks and overtook {b}"))
                    else:
                        out.append(("order:other", f"callbacks of promise {p} ran in order {ids}, not registration order"))
                    break
        # chained promises
        for r in self.regs:
            t = r.get("child")
            if t is None or t in self.direct:
                continue
            s, v = final[r["p"]]
            if s == "pending":
                ok = final[t][0] == "pending"
                exp = "pending"
            else:
                side = "res" if s == "fulfilled" else "rej"
                has = r["has"][0 if side == "res" else 1]
                if not has:
                    ok = same(t, s, obj=v)
                    exp = f"{s} with the parent's outcome (default propagation)"
                else:
                    cs = r[side + "_calls"]
                    if not cs or cs[0]["outcome"] is None:
                        continue  # reported by exactly-once / still running
                    kind, val = cs[0]["outcome"]
                    if kind == "raise":
                        ok = same(t, "rejected", val_json=val)
                        exp = f"rejected with {val}"
                    elif val[0] == "prom":
                        qs, qv = final[val[1]]
                        ok = same(t, qs, obj=qv)
                        exp = f"the outcome of returned promise {val[1]} ({qs})"
                    else:
                        ok = same(t, "fulfilled", val_json=val)
                        exp = f"fulfilled with {val}"
            if not ok:
                out.append(("chained", f"child {t} of registration {r['id']} on promise {r['p']} is {self.state_json(t)}, expected {exp}"))
        # Promise.all
        for a in self.alls:
            P = a["P"]
            if P is None or P in self.direct:
                continue
            sts = [final[q] for q in a["subs"]]
            if all(s == "fulfilled" for s, _ in sts):
                vals = ["list", [self.from_py(v) for _, v in sts]]
                if not same(P, "fulfilled", val_json=vals):
                    out.append(("all", f"all({a['subs']}) is {self.state_json(P)}, expected fulfilled with {vals}"))
            elif any(s == "rejected" for s, _ in sts):
                pre_rej = [j for j, q in enumerate(a["subs"]) if a["pre"][j] == "rejected"]
                if pre_rej and not a["nested"]:
                    cands = [a["subs"][pre_rej[0]]]   # the registration loop observes them in input order
                else:
                    # "observed" = the order in which all()'s own callbacks run.  An input that settles
                    # while another promise is still notifying (same top-level act) may legitimately be
                    # observed before or after it; inputs that settled in an earlier top-level act (after
                    # the call) were certainly observed earlier.
                    rej = [q for q in a["subs"] if final[q][0] == "rejected"]
                    eff = {q: max(self.settle_epoch[q], a["epoch"]) for q in rej}
                    m = min(eff.values())
                    cands = [q for q in rej if eff[q] == m]
                if not (final[P][0] == "rejected" and any(final[P][1] is final[q][1] for q in cands)):
                    out.append(("all", f"all({a['subs']}) is {self.state_json(P)}, expected rejected with the first rejection observed (of {cands})"))
            else:
                if final[P][0] != "pending":
                    out.append(("all", f"all({a['subs']}) is {self.state_json(P)} although no input rejected and not all fulfilled"))
        # wait_promises
        for w in self.waits:
            P = w["P"]
            if P is None or P in self.direct:
                continue
            done = all(final[q][0] != "pending" for q in w["subs"])
            s, v = final[P]
            if done:
                ok = s == "fulfilled" and isinstance(v, list) and len(v) == len(w["subobjs"]) and all(x is y for x, y in zip(v, w["subobjs"]))
            else:
                ok = s == "pending"
            if not ok:
                out.append(("wait", f"wait_promises({w['subs']}) is {self.state_json(P)}; all inputs settled: {done}"))
        return out


def run_history(prog):
    """Run on the real code; returns the Interp (with allocation-indexed results)."""
    with traced_promise_module() as (pm, allocs), time_limit():
        it = Interp(pm, allocs)
        try:
            it.run(prog)
        except HistoryTimeout:
            worst = max(((len(r[side + "_calls"]), r["id"], r["p"], side) for r in it.regs for side in ("res", "rej")),
                        default=(0, 0, 0, ""))
            raise HistoryTimeout(f"after {len(it.calls)} callback invocations; the {worst[3]} callback of registration "
                                 f"{worst[1]} on promise {worst[2]} had run {worst[0]}x") from None
        it.final_states = [it.state_json(i) for i in range(len(allocs))]
        it.findings = it.verdict()
        return it


# ---------------------------------------------------------------- Coq syntax
def cq_val(v):
    k = v[0]
    if k == "int":
        return f"(VInt ({v[1]})%Z)"
    if k == "err":
        return f"(VErr ({v[1]})%Z)"
    if k == "none":
        return "VNone"
    if k == "prom":
        return f"(VProm {v[1]}%nat)"
    if k == "list":
        return "(VList [" + "; ".join(cq_val(x) for x in v[1]) + "])"
    raise ValueError(v)


def cq_expr(e):
    return "EArg" if e[0] == "arg" else f"(EConst {cq_val(e[1])})"


def cq_func(f):
    if f is None:
        return "None"
    lbl, body, fin = f
    fs = f"(Ret {cq_expr(fin[1])})" if fin[0] == "ret" else f"(Raise ({fin[1]})%Z)"
    return f"(Some (Func {lbl}%nat {cq_prog(body)} {fs}))"


def cq_nats(l):
    return "[" + "; ".join(f"{x}%nat" for x in l) + "]"


def cq_act(a):
    k = a[0]
    if k == "new":
        return "ANew"
    if k == "resolve":
        return f"(AResolve {a[1]}%nat {cq_expr(a[2])})"
    if k == "reject":
        return f"(AReject {a[1]}%nat {cq_expr(a[2])})"
    if k == "then":
        return f"(AThen {a[1]}%nat {cq_func(a[2])} {cq_func(a[3])})"
    if k == "all":
        return f"(AAll {cq_nats(a[1])})"
    if k == "wait":
        return f"(AWait {cq_nats(a[1])})"
    raise ValueError(a)


def cq_prog(p):
    return "[" + "; ".join(cq_act(a) for a in p) + "]"


def cq_state(s):
    if s[0] == "pending":
        return "Pending"
    return f"({'Fulfilled' if s[0] == 'fulfilled' else 'Rejected'} {cq_val(s[1])})"


# ---------------------------------------------------------------- generators
class HistGen:
    """Random histories; generation is interleaved with execution on the real code so that every
    reference names a promise that exists when the act runs."""

    def __init__(self, rng):
        self.rng = rng
        self.lbl = 0
        self.hangs = 0

    def value(self, n, depth=0, bare_prom=True):
        """bare_prom=False: not a Promise object itself (a promise settled *directly* with a Promise
        object and then passed through an identity callback makes promise.py recurse forever:
        outside the histories of the property; lists containing promises are fine)."""
        r = self.rng
        k = r.random()
        if not bare_prom and 0.72 <= k < 0.92:
            k = 0.95
        if k < 0.45:
            return ["int", r.randint(-3, 9)]
        if k < 0.65:
            return ["err", r.randint(0, 4)]
        if k < 0.72:
            return ["none"]
        if k < 0.92 and n > 0:
            return ["prom", r.randrange(n)]
        if depth < 1:
            return ["list", [self.value(n, depth + 1) for _ in range(r.randint(0, 2))]]
        return ["int", 0]

    def expr(self, n, in_cb):
        if in_cb and self.rng.random() < 0.5:
            return ["arg"]
        return ["const", self.value(n, bare_prom=False)]

    def pick(self, n, focus):
        r = self.rng
        if focus and r.random() < 0.6:
            return r.choice(focus)
        return r.randrange(n)

    def func(self, n, focus, depth):
        r = self.rng
        if r.random() < 0.15:
            return None
        self.lbl += 1
        lbl = self.lbl
        body = []
        if depth < 2:
            for _ in range(r.choice([0, 0, 1, 1, 2, 3])):
                body.append(self.act(n, focus, depth + 1, True))
        k = r.random()
        if k < 0.2:
            fin = ["raise", r.randint(0, 4)]
        elif k < 0.45 and n > 0:
            fin = ["ret", ["const", ["prom", self.pick(n, focus)]]]
        else:
            fin = ["ret", self.expr(n, True)]
        return [lbl, body, fin]

    def act(self, n, focus, depth, in_cb):
        r = self.rng
        k = r.random()
        if n == 0 or k < 0.08:
            return ["new"]
        if k < 0.28:
            return ["resolve", self.pick(n, focus), self.expr(n, in_cb)]
        if k < 0.40:
            return ["reject", self.pick(n, focus), self.expr(n, in_cb)]
        if k < 0.84:
            f = self.func(n, focus, depth)
            g = self.func(n, focus, depth)
            if r.random() < 0.3:
                f, g = (f, None) if r.random() < 0.6 else (None, g)
            return ["then", self.pick(n, focus), f, g]
        subs = [self.pick(n, focus) for _ in range(r.choice([0, 1, 2, 2, 3]))]
        return ["all" if k < 0.93 else "wait", subs]

    def history(self, length):
        """Generate while executing on the real code (to know how many promises exist)."""
        self.lbl = 0
        prog = []
        with traced_promise_module() as (pm, allocs):
            it = Interp(pm, allocs)
            nroots = self.rng.choice([1, 2, 2, 3])
            for _ in range(nroots):
                prog.append(["new"])
                it.act(["new"])
            focus = list(range(nroots))
            for _ in range(length):
                a = self.act(len(allocs), focus, 0, False)
                prog.append(a)
                try:
                    with time_limit():
                        it.act(a)
                except (HistoryTimeout, RecursionError):
                    self.hangs += 1
                    return prog   # the implementation hangs on this history: let the caller find out
                if self.rng.random() < 0.3 and len(allocs) > nroots:
                    focus = list(range(nroots)) + [self.rng.randrange(len(allocs))]
        return prog


def small_scope(max_len):
    """All histories of up to max_len acts over a fixed alphabet on two root promises 0, 1
    (labels are made unique per position)."""
    import itertools

    def alphabet(pos):
        L = pos * 10
        ret = ["ret", ["arg"]]
        return [
            ["resolve", 0, ["const", ["int", 1]]],
            ["reject", 0, ["const", ["err", 1]]],
            ["resolve", 1, ["const", ["int", 2]]],
            ["reject", 1, ["const", ["err", 2]]],
            ["then", 0, [L + 1, [], ret], [L + 2, [], ret]],
            ["then", 0, [L + 1, [["then", 0, [L + 3, [], ret], None]], ret], None],           # re-entrant registration
            ["then", 0, [L + 1, [], ["ret", ["const", ["prom", 1]]]], [L + 2, [], ["raise", 3]]],  # returns a promise
            ["then", 0, [L + 1, [["resolve", 1, ["arg"]], ["resolve", 1, ["const", ["int", 7]]]], ["raise", 4]], None],
            ["then", 1, [L + 1, [["reject", 0, ["arg"]]], ret], [L + 2, [["resolve", 0, ["arg"]]], ret]],
            ["then", 0, None, None],
            ["all", [0, 1]],
            ["wait", [1, 0]],
        ]
    for n in range(0, max_len + 1):
        for combo in itertools.product(range(12), repeat=n):
            yield [["new"], ["new"]] + [alphabet(i + 1)[c] for i, c in enumerate(combo)]
